#!/venv/bin/python
"""Run every check against every seeded change (each applied in a scratch worktree of /repo's HEAD,
never in /repo itself) and record which checks catch which changes.
usage: tools/seed_matrix.py [--all-checks]   (default: the seed's own property + every other property)"""
import json, os, subprocess, sys, concurrent.futures as cf, tempfile, shutil

VERIF = os.path.dirname(os.path.dirname(os.path.abspath(__file__)))


def _copy(dst):
    """scratch copy of the analysed parts of /repo's working tree (no git involved)"""
    for sub in ("middleware", "docs", os.path.join("firmware", "src")):
        shutil.copytree(os.path.join("/repo", sub), os.path.join(dst, sub), symlinks=True,
                        ignore=shutil.ignore_patterns("__pycache__", "*.pyc"))

SEEDS = sorted(d for d in os.listdir(os.path.join(VERIF, "seeded")) if os.path.isdir(os.path.join(VERIF, "seeded", d)))
PROPS = [f"C{i:02d}" for i in range(1, 20)]


def run_seed(seed):
    sd = os.path.join(VERIF, "seeded", seed)
    patch = os.path.join(sd, "patch.rebased.diff")
    if not os.path.exists(patch):
        patch = os.path.join(sd, "patch.diff")
    wt = tempfile.mkdtemp(prefix=f"seedmx-{seed}-", dir="/tmp")
    os.rmdir(wt)
    try:
        _copy(wt)
        r = subprocess.run(["git", "apply", "--whitespace=nowarn", patch], capture_output=True, text=True, cwd=wt)
        if r.returncode != 0:
            return seed, {"error": "patch does not apply: " + r.stderr[:200]}
        res = {}
        env = dict(os.environ, VERIF_SCRATCH_EVIDENCE=os.path.join(wt, ".verif-evidence"))
        for p in PROPS:
            o = subprocess.run(["/venv/bin/python", os.path.join(VERIF, "check"), p, "--repo", wt, "--quiet"],
                               capture_output=True, text=True, env=env)
            rules = sorted({l.split("rule ")[1].split(" ")[0] for l in o.stdout.splitlines() if l.strip().startswith("rule ")})
            res[p] = {"rc": o.returncode, "rules": rules,
                      "first": next((l.strip()[:220] for l in o.stdout.splitlines() if l.strip().startswith("rule ")), "")
                      if o.returncode == 1 else (next((l[:200] for l in o.stdout.splitlines() if "ANALYSIS-ERROR" in l), "") if o.returncode == 2 else "")}
        return seed, res
    finally:
        shutil.rmtree(wt, ignore_errors=True)


def main():
    out = {}
    with cf.ThreadPoolExecutor(max_workers=14) as ex:
        for seed, res in ex.map(run_seed, SEEDS):
            out[seed] = res
            own = seed.split("-")[0]
            if "error" in res:
                print(seed, res["error"])
                continue
            caught = [p for p, r in res.items() if r["rc"] == 1]
            broken = [p for p, r in res.items() if r["rc"] == 2]
            print(f"{seed}: own={'CAUGHT' if own in caught else ('ANALYSIS-ERROR' if own in broken else 'missed')} "
                  f"caught_by={caught} analysis_error={broken}")
    json.dump(out, open(os.path.join(VERIF, "seeded", "MATRIX.json"), "w"), indent=1)
    for seed, res in out.items():
        mp = os.path.join(VERIF, "seeded", seed, "meta.json")
        if os.path.exists(mp) and "error" not in res:
            m = json.load(open(mp))
            m["detected_by"] = {p: r["rules"] for p, r in res.items() if r["rc"] == 1}
            m["analysis_error_in"] = [p for p, r in res.items() if r["rc"] == 2]
            m["matrix_run"] = "tools/seed_matrix.py: patch applied in a scratch git worktree of /repo HEAD, every check run with --repo <worktree>"
            json.dump(m, open(mp, "w"), indent=1)


if __name__ == "__main__":
    main()
