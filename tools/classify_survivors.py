#!/venv/bin/python
"""usage: tools/classify_survivors.py  -- adds a reason class to every survivor of selftest/mutation/GLOBAL.json and prints the table per class.

Classes (assigned by rule; `gap?` is what is left for reading):
  message         a dropped / changed statement that only builds a log or error text
  cli             argument-parser set-up, exit statuses, banners and progress output of the command-line tools
  undefined-name  a dropped assignment whose effect is a NameError / AttributeError at the next use (the mutant crashes, it does not misbehave silently)
  cleanup         disposing / closing / disconnecting after the work is done
  outside         code no property speaks about (listed by function)
  gap?            everything else: read it"""
import json, os, re, collections
VERIF = os.path.dirname(os.path.dirname(os.path.abspath(__file__)))
p = os.path.join(VERIF, "selftest", "mutation", "GLOBAL.json")
d = json.load(open(p))
OUTSIDE = {"ledger.pin.FileBasedPin.new": "no production caller", "ledger.pin.BasePin.generate_pin": "only ways to make it loop for ever or crash survive",
           "mgr.runner.ManagerRunner.run": "wiring of the manager's objects", "comm.server._RequestHandler.handle": "logging around the reply",
           "ledger.hsm2dongle.HSM2Dongle.disconnect": "best-effort close", "ledger.hsm2dongle_tcp.HSM2DongleTCP.disconnect": "best-effort close"}
CLI = ("signapp.main", "signonetime.main")


def cls(r):
    m, f, k = r["mutation"], r["function"], r["kind"]
    if k == "drop" and re.search(r"`(message|msg|signer_info|pubkeys_output)\s*(=|\+=)", m):
        return "message"
    if k == "drop" and re.search(r"`(self\.)?(logger\.\w+|info|head|do_output|logging\.\w+|configure_logging)\(", m):
        return "message"
    if f in CLI and (re.search(r"parser\.|sys\.exit|logging\.disable|add_argument|parse_args", m) or (k in ("int", "bool") and r["line"] < 112)):
        return "cli"
    if re.search(r"sys\.exit|sort_keys|indent=|'\*' \* 80", m) or (k == "int" and re.search(r"8[01] -> |79", m)):
        return "cli"
    if k == "drop" and re.search(r"`(dispose_hsm|dispose_eth_dongle|wait_for_reconnection|\w+\.close|self\.server\.server_close|hsm\.disconnect|hsm\.exit_menu)\(", m):
        return "cleanup"
    if f in OUTSIDE:
        return "outside"
    if k == "drop" and re.search(r"`[a-z_][a-z_0-9]* = ", m):
        return "undefined-name"
    return "gap?"


cnt = collections.Counter()
for r in d["survivors"]:
    r["class"] = cls(r)
    cnt[r["class"]] += 1
d["survivor_classes"] = dict(cnt)
d["outside_reasons"] = OUTSIDE
json.dump(d, open(p, "w"), indent=1)
print(dict(cnt))
per = collections.defaultdict(list)
for r in d["survivors"]:
    if r["class"] == "gap?":
        per[r["function"]].append(r)
for f in sorted(per, key=lambda f: -len(per[f])):
    print(f"## {f} ({len(per[f])})")
    for r in per[f]:
        print(f"   L{r['line']} {r['kind']}: {r['mutation']}")
