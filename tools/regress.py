#!/venv/bin/python
"""usage: tools/regress.py <Cxx> [-v]  -- run one check on: /repo, every seeded change it is expected to catch (own seeds +
recorded cross detections), and every behaviour-preserving twin; print only what is not as expected."""
import json, os, subprocess, sys, concurrent.futures as cf, tempfile, shutil
VERIF = os.path.dirname(os.path.dirname(os.path.abspath(__file__)))


def _copy(dst):
    """scratch copy of the analysed parts of /repo's working tree (no git involved)"""
    for sub in ("middleware", "docs", os.path.join("firmware", "src")):
        shutil.copytree(os.path.join("/repo", sub), os.path.join(dst, sub), symlinks=True,
                        ignore=shutil.ignore_patterns("__pycache__", "*.pyc"))

prop = sys.argv[1]; verbose = "-v" in sys.argv
SD = os.path.join(VERIF, "seeded"); BD = os.path.join(VERIF, "selftest", "benign")
items = [("base", "base", None)]
for d in sorted(os.listdir(SD)):
    p = os.path.join(SD, d)
    if not os.path.isdir(p): continue
    det = (json.load(open(os.path.join(p, "meta.json"))).get("detected_by") or {}) if os.path.exists(os.path.join(p, "meta.json")) else {}
    if d.startswith(prop + "-") or prop in det:
        pf = os.path.join(p, "patch.rebased.diff")
        items.append(("seed" if (prop in det or not det) else "seed-missed", d, pf if os.path.exists(pf) else os.path.join(p, "patch.diff")))
for f in sorted(os.listdir(BD)):
    if f.endswith(".diff"): items.append(("benign", f[:-5], os.path.join(BD, f)))
def run_one(it):
    kind, name, patch = it
    if patch is None:
        o = subprocess.run(["/venv/bin/python", os.path.join(VERIF, "check"), prop, "--quiet"], capture_output=True, text=True,
                           env=dict(os.environ, VERIF_SCRATCH_EVIDENCE="/tmp/regress-ev"))
        return it, o.returncode, o.stdout
    wt = tempfile.mkdtemp(prefix=f"rg-{name}-", dir="/tmp"); os.rmdir(wt)
    try:
        _copy(wt)
        r = subprocess.run(["git", "apply", "--whitespace=nowarn", patch], capture_output=True, text=True, cwd=wt)
        if r.returncode != 0: return it, -1, r.stderr
        o = subprocess.run(["/venv/bin/python", os.path.join(VERIF, "check"), prop, "--repo", wt, "--quiet"], capture_output=True, text=True,
                           env=dict(os.environ, VERIF_SCRATCH_EVIDENCE=os.path.join(wt, ".ev")))
        return it, o.returncode, o.stdout
    finally:
        shutil.rmtree(wt, ignore_errors=True)
bad = 0
it0, rc0, out0 = run_one(items[0])
if rc0 != 0:
    print(f"BASE FAILS rc={rc0}")
    print("\n".join(l for l in out0.splitlines() if l.strip().startswith("rule ") or "ANALYSIS-ERROR" in l))
    sys.exit(1)
items = items[1:]
with cf.ThreadPoolExecutor(max_workers=15) as ex:
    for (kind, name, patch), rc, out in ex.map(run_one, items):
        want = {"base": 0, "seed": 1, "seed-missed": 1, "benign": 0}[kind]
        ok = rc == want
        if kind == "seed-missed" and rc != 1:
            print(f"  (still missed) {name} rc={rc}")
            continue
        if not ok or verbose:
            bad += (not ok)
            print(f"{'OK ' if ok else 'BAD'} {kind:7} {name:10} rc={rc} (want {want})")
            if not ok or verbose:
                for l in [l for l in out.splitlines() if l.strip().startswith("rule ") or "ANALYSIS-ERROR" in l][:5]:
                    print("       ", l.strip()[:600])
print(f"{prop}: {len(items)} variants, {bad} unexpected")
