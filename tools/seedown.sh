#!/bin/bash
# usage: tools/seedown.sh <Cxx-n> [props...]  -- run own-property (or listed) checks against a stored seed
s=$1; shift; p=${s%%-*}; props=${@:-$p}
wt=/tmp/wt/$p
tools/seedrun.sh $wt /verif/seeded/$s/patch.diff $props
