#!/bin/bash
# usage: tools/seedown.sh <Cxx-n> [props...]  -- run own-property (or listed) checks against a stored seed, in a scratch copy of /repo
s=$1; shift; p=${s%%-*}; props=${@:-$p}
patch=/verif/seeded/$s/patch.diff; [ -f /verif/seeded/$s/patch.rebased.diff ] && patch=/verif/seeded/$s/patch.rebased.diff
d=$(mktemp -d /tmp/seedown-XXXXXX)
mkdir -p $d/firmware; cp -r /repo/middleware /repo/docs $d/; cp -r /repo/firmware/src $d/firmware/
(cd $d && git apply --whitespace=nowarn $patch) || { echo "APPLY FAILED $patch"; rm -rf $d; exit 9; }
for q in $props; do
  VERIF_SCRATCH_EVIDENCE=$d/.ev /verif/check $q --repo $d --quiet 2>&1 | grep -E "VIOLATION|rule |ANALYSIS-ERROR|KNOWN" | head -8
  echo "  -> $q rc=${PIPESTATUS[0]}"
done
rm -rf $d
