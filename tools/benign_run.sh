#!/bin/bash
# usage: tools/benign_run.sh <name> [props...] -- apply a behaviour-preserving twin in a scratch worktree and run checks (all by default); every rc must be 0
n=$1; shift; props=${@:-C01 C02 C03 C04 C05 C06 C07 C08 C09 C10 C11 C12 C13 C14 C15 C16 C17 C18 C19}
wt=$(mktemp -d /tmp/benignwt-XXXXXX)
mkdir -p $wt/firmware; cp -r /repo/middleware /repo/docs $wt/; cp -r /repo/firmware/src $wt/firmware/
(cd $wt && git apply --whitespace=nowarn /verif/selftest/benign/$n.diff) || { echo "$n: APPLY FAILED"; rm -rf $wt; exit 9; }
for p in $props; do
  out=$(VERIF_SCRATCH_EVIDENCE=$wt/.ev /verif/check $p --repo $wt --quiet 2>&1); rc=$?
  [ $rc -ne 0 ] && { echo "$n: $p rc=$rc"; echo "$out" | grep -E "rule |ANALYSIS-ERROR" | head -5 | cut -c1-700; }
done
echo "$n: done"
rm -rf $wt
