#!/venv/bin/python
"""Global mutation survey: which first-order mutants of the code the checks anchor on are noticed by NO check?

usage: tools/mutation_global.py [--max N] [--only substring] [--all]

The anchor functions of all 19 checks (coverage.anchor_functions of the evidence files, i.e. the functions the rules asked for by
name on the last run on /repo) are pooled; every mutant of such a function (same operators as tools/mutation_survey.py) is applied to a
scratch copy and the quick checks of the properties that anchor on that function are run until one reports a VIOLATION.  A mutant is
killed (some check exits 1), undecided (no check exits 1, some check exits 2) or survived (every anchoring check is silent).
Survivors are either equivalent / outside every property, or a gap: they are written to selftest/mutation/GLOBAL.json for triage.
Nothing of the repository is executed."""
import ast, json, os, shutil, subprocess, sys, tempfile
import concurrent.futures as cf
VERIF = os.path.dirname(os.path.dirname(os.path.abspath(__file__)))
sys.path.insert(0, VERIF)
sys.path.insert(0, os.path.join(VERIF, "tools"))
import importlib.util
spec = importlib.util.spec_from_file_location("msurvey", os.path.join(VERIF, "tools", "mutation_survey.py"))
ms = importlib.util.module_from_spec(spec)
spec.loader.exec_module(ms)

PROPS = [f"C{i:02d}" for i in range(1, 20)]


def main():
    mx = int(sys.argv[sys.argv.index("--max") + 1]) if "--max" in sys.argv else 3000
    only = sys.argv[sys.argv.index("--only") + 1] if "--only" in sys.argv else None
    by_fn = {}
    for p in PROPS:
        ev = json.load(open(os.path.join(VERIF, "evidence", f"{p}.json")))
        for q in ev["coverage"].get("anchor_functions", []):
            by_fn.setdefault(q, []).append(p)
    root = "/repo/middleware"
    index, by_file = {}, {}
    for dp, dn, fns in os.walk(root):
        dn[:] = [d for d in dn if d not in ("tests", "__pycache__")]
        for f in fns:
            if f.endswith(".py") and not os.path.islink(os.path.join(dp, f)):
                path = os.path.join(dp, f)
                rel = os.path.relpath(path, root)[:-3].split(os.sep)
                if rel[-1] == "__init__":
                    rel = rel[:-1]
                mod = ".".join(rel)
                try:
                    tree = ast.parse(open(path).read())
                except SyntaxError:
                    continue
                by_file[path] = tree
                for st in tree.body:
                    if isinstance(st, ast.FunctionDef):
                        index[f"{mod}.{st.name}"] = (path, st)
                    elif isinstance(st, ast.ClassDef):
                        for s in st.body:
                            if isinstance(s, ast.FunctionDef):
                                index[f"{mod}.{st.name}.{s.name}"] = (path, s)
    jobs = []
    if "--all" in sys.argv:
        # a mutant no anchoring check notices is also shown to every other check (rules reach functions through the call graph, not only by name)
        by_fn = {q: ps + [p for p in PROPS if p not in ps] for q, ps in by_fn.items()}
    for q, props in sorted(by_fn.items()):
        if q not in index or (only and only not in q):
            continue
        path, fn = index[q]
        for kind, node in ms.sites(fn):
            for variant in ((0, 1) if kind in ("int", "slice") else (0,)):
                jobs.append((q, path, kind, node, variant, props))
    total = len(jobs)
    if len(jobs) > mx:
        step = len(jobs) / mx
        jobs = [jobs[int(i * step)] for i in range(mx)]

    def run_one(job):
        q, path, kind, node, variant, props = job
        r = ms.apply(by_file[path], node, kind, variant)
        if r is None:
            return None
        desc, tree = r
        try:
            src = ast.unparse(tree)
        except Exception:
            return None
        d = ms.scratch()
        try:
            with open(os.path.join(d, os.path.relpath(path, "/repo")), "w") as f:
                f.write(src)
            rcs = {}
            for p in props:
                o = subprocess.run(["/venv/bin/python", os.path.join(VERIF, "check"), p, "--repo", d, "--quiet"], capture_output=True, text=True,
                                   env=dict(os.environ, VERIF_SCRATCH_EVIDENCE=os.path.join(d, ".ev")))
                rcs[p] = o.returncode
                if o.returncode == 1:
                    break
            verdict = "killed" if 1 in rcs.values() else ("undecided" if 2 in rcs.values() else "survived")
            return {"function": q, "line": getattr(node, "lineno", 0), "kind": kind, "mutation": desc, "verdict": verdict, "checks": rcs}
        finally:
            shutil.rmtree(d, ignore_errors=True)
    res = []
    with cf.ThreadPoolExecutor(max_workers=15) as ex:
        for r in ex.map(run_one, jobs):
            if r is not None:
                res.append(r)
    cnt = {v: sum(1 for r in res if r["verdict"] == v) for v in ("killed", "undecided", "survived")}
    out = {"anchor_functions": len(by_fn), "sites_total": total, "mutants_run": len(res), **cnt,
           "survivors": [r for r in res if r["verdict"] == "survived"], "undecided_list": [r for r in res if r["verdict"] == "undecided"]}
    os.makedirs(os.path.join(VERIF, "selftest", "mutation"), exist_ok=True)
    json.dump(out, open(os.path.join(VERIF, "selftest", "mutation", "GLOBAL.json"), "w"), indent=1)
    print(f"{len(res)} mutants (of {total} sites) over {len(by_fn)} anchor functions: {cnt}")
    per = {}
    for r in out["survivors"]:
        per.setdefault(r["function"], []).append(r)
    for q, rs in sorted(per.items()):
        print(f"  {q} [{','.join(by_fn[q])}]: {len(rs)} survivors")
        for r in rs[:40]:
            print(f"      L{r['line']} {r['mutation']}")


if __name__ == "__main__":
    main()
