#!/venv/bin/python
"""Regenerate /verif/MANIFEST.json from the rule modules present."""
import importlib
import json
import os
import sys

HERE = os.path.dirname(os.path.dirname(os.path.abspath(__file__)))
sys.path.insert(0, HERE)
sys.dont_write_bytecode = True

PENDING_REASON = {}

NOT_APPLICABLE = {}   # property id -> reason (properties never claimable by static analysis)


def main():
    props = [json.loads(l) for l in open(os.path.join(HERE, "properties.jsonl"))]
    checks = []
    na = []
    for p in props:
        pid = p["id"]
        path = os.path.join(HERE, "rules", pid.lower() + ".py")
        if pid in NOT_APPLICABLE or not os.path.exists(path):
            na.append({"property_id": pid,
                       "reason": NOT_APPLICABLE.get(pid, "no sound static rule built for this "
                                                    "property yet; not claimed")})
            continue
        mod = importlib.import_module(f"rules.{pid.lower()}")
        checks.append({
            "property_id": pid,
            "quick_cmd": f"/venv/bin/python /verif/check {pid} --tier quick",
            "thorough_cmd": f"/venv/bin/python /verif/check {pid} --tier thorough",
            "evidence_file": f"/verif/evidence/{pid}.json",
            "replay_cmd_template": f"/venv/bin/python /verif/check {pid} --replay {{path}}",
            "engine": "powhsm-sa",
            "level_claimed": {
                "category": "other",
                "text": " ".join(mod.EXPLANATION.split()),
                "design_ref": f"DESIGN.md section 4, {pid}",
            },
            "level_note": " ".join(getattr(mod, "LEVEL_NOTE", (
                "Structural clauses only (necessary conditions of the behaviour), decided on the "
                "source text. Trusted base: CPython 3.12 semantics of the constructs modelled; "
                "third-party libraries behave as documented; firmware sources and docs in the same "
                "tree are ground truth for constants and layouts; call resolution of the analyser "
                "(value-flow + class hierarchy).")).split()),
            "technique": " ".join(mod.TECHNIQUE.split()),
        })
    manifest = {
        "version": 1,
        "setup_cmd": "/venv/bin/python -m compileall -q /verif/sa /verif/rules >/dev/null 2>&1; "
                     "/venv/bin/python /verif/check --help >/dev/null",
        "hooks": {
            "guard": "RSKSMART_RSK_POWHSM_VERIF",
            "enable": "none needed: static analysis reads /repo's source, no instrumentation "
                      "is compiled in",
            "baseline_off_cmd": "cd /repo && /venv/bin/python -m pytest -ra -q -p no:cacheprovider "
                                "--timeout=900 --continue-on-collection-errors",
            "source_commits": [],
            "add_only": True,
        },
        "engines": [{
            "name": "powhsm-sa",
            "path": "/verif/sa",
            "serves_properties": [c["property_id"] for c in checks],
            "kind_free_text": "repository-specific AST analyser over a behaviour-preserving normal form (helper inlining, constant-loop unrolling): predicate-abstraction decision tables of acyclic CFG regions, canonical list / byte-layout / hash-stream forms, exception-aware CFGs with "
                              "dominators, call graph with value flow and effects, exception "
                              "escape, provenance terms, cross-language table agreement "
                              "(Python / firmware C / Markdown)",
        }],
        "checks": checks,
        "not_applicable": na,
        "notes": "Every check decides structural clauses of its property from /repo's current "
                 "source without executing it; the undecided remainder of each property is "
                 "listed in DESIGN.md section 5 and in each check's level_claimed.text. "
                 "Exit 2 + ANALYSIS-ERROR means the analysis could not proceed (vanished anchor, "
                 "unknown idiom), never a violation.",
    }
    with open(os.path.join(HERE, "MANIFEST.json"), "w") as f:
        json.dump(manifest, f, indent=1)
    print(f"{len(checks)} checks, {len(na)} not_applicable")


if __name__ == "__main__":
    main()
