#!/venv/bin/python
"""(Re)generate spec/known_functions.json from /repo's HEAD: the functions and class/module constants of the tree the
rules were confirmed on. Functions not in this list are implementation details of their callers (inlined, see sa/normalize.py)."""
import ast, json, os, subprocess, sys
sys.path.insert(0, os.path.dirname(os.path.dirname(os.path.abspath(__file__))))
from sa.normalize import collect_symbols
class M: pass
mods = {}
if subprocess.check_output(["git", "-C", "/repo", "status", "--porcelain", "--", "middleware"], text=True).strip():
    sys.exit("refusing: /repo/middleware has uncommitted changes")
root = "/repo/middleware"
for dp, dn, fn in os.walk(root):
    dn[:] = sorted(d for d in dn if d not in ("tests", "__pycache__"))
    for f in sorted(fn):
        if not f.endswith(".py"):
            continue
        rel = os.path.relpath(os.path.join(dp, f), root)[:-3].split(os.sep)
        if rel[-1] == "__init__":
            rel = rel[:-1]
        if not rel:
            continue
        m = M(); m.tree = ast.parse(open(os.path.join(dp, f)).read())
        mods[".".join(rel)] = m
fns, consts = collect_symbols(mods)
head = subprocess.check_output(["git", "-C", "/repo", "rev-parse", "HEAD"], text=True).strip()
json.dump({"generated_from": head, "functions": fns, "constants": consts}, open(os.path.join(os.path.dirname(__file__), "..", "spec", "known_functions.json"), "w"), indent=0)
print(len(fns), "functions", len(consts), "constants")
