#!/bin/bash
# usage: tools/mkscratch.sh <patch-name|path> -> prints scratch dir with the patch applied (caller removes it)
n=$1
f=$n
[ -f "$f" ] || f=/verif/selftest/benign/$n.diff
[ -f "$f" ] || { f=/verif/seeded/$n/patch.rebased.diff; [ -f $f ] || f=/verif/seeded/$n/patch.diff; }
d=$(mktemp -d /tmp/scr-XXXXXX)
mkdir -p $d/firmware; cp -r /repo/middleware /repo/docs $d/; cp -r /repo/firmware/src $d/firmware/
(cd $d && git apply --whitespace=nowarn $f) || { echo "APPLY FAILED" >&2; rm -rf $d; exit 9; }
echo $d
