#!/venv/bin/python
"""Run every check against every behaviour-preserving twin under selftest/benign (each applied in a scratch
worktree of /repo HEAD): every exit code must be 0. Writes selftest/BENIGN_MATRIX.json."""
import json, os, subprocess, sys, concurrent.futures as cf, tempfile, shutil
VERIF = os.path.dirname(os.path.dirname(os.path.abspath(__file__)))


def _copy(dst):
    """scratch copy of the analysed parts of /repo's working tree (no git involved)"""
    for sub in ("middleware", "docs", os.path.join("firmware", "src")):
        shutil.copytree(os.path.join("/repo", sub), os.path.join(dst, sub), symlinks=True,
                        ignore=shutil.ignore_patterns("__pycache__", "*.pyc"))

BD = os.path.join(VERIF, "selftest", "benign")
NAMES = sorted(f[:-5] for f in os.listdir(BD) if f.endswith(".diff"))
if len(sys.argv) > 1:
    NAMES = [n for n in NAMES if any(n.startswith(a) for a in sys.argv[1:])]
PROPS = [f"C{i:02d}" for i in range(1, 20)]

def run_one(name):
    wt = tempfile.mkdtemp(prefix=f"benmx-{name}-", dir="/tmp"); os.rmdir(wt)
    try:
        _copy(wt)
        r = subprocess.run(["git", "apply", "--whitespace=nowarn", os.path.join(BD, name + ".diff")], capture_output=True, text=True, cwd=wt)
        if r.returncode != 0:
            return name, {"error": r.stderr[:200]}
        res = {}
        env = dict(os.environ, VERIF_SCRATCH_EVIDENCE=os.path.join(wt, ".ev"))
        for p in PROPS:
            o = subprocess.run(["/venv/bin/python", os.path.join(VERIF, "check"), p, "--repo", wt, "--quiet"], capture_output=True, text=True, env=env)
            if o.returncode != 0:
                res[p] = {"rc": o.returncode, "lines": [l.strip()[:400] for l in o.stdout.splitlines() if l.strip().startswith("rule ") or "ANALYSIS-ERROR" in l][:6]}
        return name, res
    finally:
        shutil.rmtree(wt, ignore_errors=True)

out = {}
with cf.ThreadPoolExecutor(max_workers=14) as ex:
    for name, res in ex.map(run_one, NAMES):
        out[name] = res
        if not res:
            print(f"{name}: silent on all 19")
        else:
            for p, r in res.items():
                if p == "error":
                    print(f"{name}: APPLY ERROR {r}")
                    continue
                print(f"{name}: {p} rc={r['rc']}")
                for l in r["lines"]:
                    print("     ", l)
if len(sys.argv) == 1:
    json.dump(out, open(os.path.join(VERIF, "selftest", "BENIGN_MATRIX.json"), "w"), indent=1)
