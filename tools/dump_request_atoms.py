#!/venv/bin/python
"""Print the validator OK-disjunct atom sets of the tree (used once to draft
spec/requests.json, which was then reviewed by hand against docs/protocol*.md)."""
import sys, json
sys.path.insert(0, '/verif')
from sa.model import Program
from sa.callgraph import Analysis
from sa.atoms import AtomExtractor
from rules.common import command_methods
class R: pass
P = Program(sys.argv[1] if len(sys.argv) > 1 else '/repo'); A = Analysis(P); A.noreturn_set()
run = R(); run.P = P; run.A = A
X = AtomExtractor(A)
out = {}
for q in ("ledger.protocol.HSM2ProtocolLedger", "ledger.protocol_v1.HSM1ProtocolLedger"):
    pc = P.cls(q)
    ver = "v%d" % P.class_const(pc, "VERSION")
    out[ver] = {}
    for cmd, v in sorted(command_methods(run, pc)["_validation_mappings"].items()):
        exits = X.validator_exits(v, pc)
        oks = sorted(sorted(a.text() for a in atoms) for code, atoms, r, u in exits if code >= 0)
        codes = sorted({code for code, atoms, r, u in exits if code < 0})
        out[ver][cmd] = {"accepted_forms": oks, "error_codes": codes}
print(json.dumps(out, indent=1))
