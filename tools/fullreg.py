#!/venv/bin/python
"""usage: tools/fullreg.py [name-prefix ...]  -- every stored seed (own check + recorded cross detections) and every behaviour-preserving twin
(all 19 checks), one scratch copy per patch, in parallel; prints what is not as expected and writes /tmp/fullreg.json"""
import json, os, subprocess, sys, concurrent.futures as cf, tempfile, shutil
VERIF = os.path.dirname(os.path.dirname(os.path.abspath(__file__)))
PROPS = [f"C{i:02d}" for i in range(1, 20)]
SD = os.path.join(VERIF, "seeded"); BD = os.path.join(VERIF, "selftest", "benign")
pref = [a for a in sys.argv[1:] if not a.startswith("-")]


def _copy(dst):
    for sub in ("middleware", "docs", os.path.join("firmware", "src")):
        shutil.copytree(os.path.join("/repo", sub), os.path.join(dst, sub), symlinks=True, ignore=shutil.ignore_patterns("__pycache__", "*.pyc"))


items = []
for d in sorted(os.listdir(SD)):
    p = os.path.join(SD, d)
    if not os.path.isdir(p) or not os.path.exists(os.path.join(p, "patch.diff")):
        continue
    det = {}
    if os.path.exists(os.path.join(p, "meta.json")):
        det = json.load(open(os.path.join(p, "meta.json"))).get("detected_by") or {}
    pf = os.path.join(p, "patch.rebased.diff")
    props = sorted(set([d.split("-")[0]] + list(det)))
    items.append(("seed", d, pf if os.path.exists(pf) else os.path.join(p, "patch.diff"), props))
for f in sorted(os.listdir(BD)):
    if f.endswith(".diff"):
        items.append(("benign", f[:-5], os.path.join(BD, f), PROPS))
if pref:
    items = [i for i in items if any(i[1].startswith(x) for x in pref)]


def run_one(it):
    kind, name, patch, props = it
    wt = tempfile.mkdtemp(prefix=f"fr-{name}-", dir="/tmp"); os.rmdir(wt)
    res = {}
    try:
        _copy(wt)
        r = subprocess.run(["git", "apply", "--whitespace=nowarn", patch], capture_output=True, text=True, cwd=wt)
        if r.returncode != 0:
            return it, {"apply": (-1, r.stderr[:200])}
        for p in props:
            o = subprocess.run(["/venv/bin/python", os.path.join(VERIF, "check"), p, "--repo", wt, "--quiet"], capture_output=True, text=True,
                               env=dict(os.environ, VERIF_SCRATCH_EVIDENCE=os.path.join(wt, ".ev")))
            lines = [l.strip()[:400] for l in o.stdout.splitlines() if l.strip().startswith("rule ") or "ANALYSIS-ERROR" in l][:4]
            res[p] = (o.returncode, lines)
        return it, res
    finally:
        shutil.rmtree(wt, ignore_errors=True)


out = {}
bad = 0
with cf.ThreadPoolExecutor(max_workers=15) as ex:
    for (kind, name, patch, props), res in ex.map(run_one, items):
        out[name] = {p: r[0] for p, r in res.items()}
        if "apply" in res:
            print(f"APPLY-FAILED {name}: {res['apply'][1]}"); bad += 1; continue
        for p, (rc, lines) in sorted(res.items()):
            if kind == "seed":
                own = p == name.split("-")[0]
                if rc != 1:
                    bad += 1
                    print(f"MISS   {name:8} {p} rc={rc}" + ("" if own else " (cross)"))
                    for l in lines[:2]: print("        " + l[:300])
            else:
                if rc != 0:
                    bad += 1
                    print(f"ALARM  {name:8} {p} rc={rc}")
                    for l in lines[:3]: print("        " + l[:300])
json.dump(out, open("/tmp/fullreg.json", "w"), indent=0)
print(f"{len(items)} patches, {bad} unexpected")
