#!/venv/bin/python
"""usage: tools/shownf.py <repo> <qualname-suffix>  -- print the normal form of matching functions"""
import sys, os, ast
sys.path.insert(0, os.path.dirname(os.path.dirname(os.path.abspath(__file__))))
from sa.model import Program
P = Program(sys.argv[1])
for fn in P.all_functions:
    if fn.qualname.endswith(sys.argv[2]):
        print("#", fn.qualname)
        print(ast.unparse(fn.node))
