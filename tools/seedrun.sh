#!/bin/bash
# usage: tools/seedrun.sh <worktree> <patch> <prop> [more props]
# applies patch in the scratch worktree, runs checks against it, reverts.
wt=$1; patch=$2; shift 2
[ -f "${patch%patch.diff}patch.rebased.diff" ] && patch="${patch%patch.diff}patch.rebased.diff"
git -C $wt checkout -q -- . && git -C $wt apply $patch || { echo "APPLY FAILED $patch"; exit 9; }
for p in "$@"; do
  /verif/check $p --repo $wt --quiet 2>&1 | grep -E "VIOLATION|rule |ANALYSIS-ERROR|KNOWN" | head -8
  echo "  -> $p rc=${PIPESTATUS[0]}"
done
git -C $wt checkout -q -- .
