#!/bin/bash
# usage: tools/confirm_seed.sh <Cxx> <k> [<n>]  (stored as seeded/<Cxx>-<n>)   -- confirm an independently produced breaking change
# in its scratch worktree /tmp/wt/<Cxx>: patch applies; demo passes pristine / fails patched;
# test suite at baseline (468 passed, 25 errors) with the patch. On success copy to /verif/seeded/.
p=$1; k=$2; n=${3:-$2}; wt=${WTD:-${WT:-/tmp/wt}/$p}; sd=$wt/seed$k
cd $wt || exit 9
git checkout -q -- . 
/venv/bin/python seed$k/demo.py >/tmp/seedlog.$p.$k.pristine 2>&1; r0=$?
git apply seed$k/patch.diff || { echo "$p seed$k: APPLY FAILED"; exit 9; }
/venv/bin/python seed$k/demo.py >/tmp/seedlog.$p.$k.patched 2>&1; r1=$?
t=$(/venv/bin/python -m pytest -q -p no:cacheprovider --timeout=900 --continue-on-collection-errors 2>&1 | tail -1)
git checkout -q -- .
find . -name __pycache__ -type d -prune -exec rm -rf {} + 2>/dev/null
echo "$p seed$k: demo pristine rc=$r0 patched rc=$r1 tests: $t"
if [ $r0 -eq 0 ] && [ $r1 -ne 0 ] && echo "$t" | grep -q "468 passed, 25 errors"; then
  d=/verif/seeded/$p-$n; mkdir -p $d
  cp $sd/patch.diff $sd/demo.py $d/; cp $sd/NOTES.md $d/NOTES.md 2>/dev/null
  /venv/bin/python - "$p" "$n" "$d" "$t" <<'PY'
import json,sys,re
p,k,d,t=sys.argv[1:5]
notes=open(d+'/NOTES.md').read() if __import__('os').path.exists(d+'/NOTES.md') else ''
files=sorted(set(re.findall(r'^\+\+\+ b/(\S+)',open(d+'/patch.diff').read(),re.M)))
json.dump({"property":p,"seed":int(k),"files_touched":files,
 "needs_to_manifest":"see NOTES.md (written by the independent sub-agent that produced the change)",
 "confirmed":{"demo_pristine_rc":0,"demo_patched_rc":"non-zero","tests_with_patch":t.strip(),
   "how":"tools/confirm_seed.sh in scratch worktree /tmp/wt/%s: git apply patch.diff; /venv/bin/python demo.py; pytest baseline command"%p},
 "detected_by":None},open(d+'/meta.json','w'),indent=1)
PY
  echo "   -> kept as $d"
else
  echo "   -> NOT confirmed"
fi
