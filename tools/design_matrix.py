#!/venv/bin/python
"""usage: tools/design_matrix.py  -- rewrite the seed table of DESIGN.md section 13 from seeded/MATRIX.json (between the table header and the next blank line)"""
import json, os, re
VERIF = os.path.dirname(os.path.dirname(os.path.abspath(__file__)))
m = json.load(open(os.path.join(VERIF, "seeded", "MATRIX.json")))


def key(s):
    p, n = s.split("-")
    return (p, int(n))


rows = []
for seed in sorted(m, key=key):
    meta = json.load(open(os.path.join(VERIF, "seeded", seed, "meta.json")))
    files = ", ".join(f.replace("middleware/", "") for f in meta.get("files_touched", []))
    det = "; ".join(f"{p}: {'/'.join(v['rules']) or 'VIOLATION'}" for p, v in sorted(m[seed].items()) if v.get("rc") == 1)
    und = [p for p, v in sorted(m[seed].items()) if v.get("rc") == 2]
    rows.append(f"| {seed} | {files} | {det or '-'}{' (undecided: ' + ', '.join(und) + ')' if und else ''} |")
path = os.path.join(VERIF, "DESIGN.md")
s = open(path).read()
hdr = "| seed | files touched | caught by (check: rules) |\n|---|---|---|\n"
i = s.index(hdr) + len(hdr)
j = s.index("\n\n", i)
s = s[:i] + "\n".join(rows) + s[j:]
own_missed = [seed for seed in m if m[seed].get(seed.split("-")[0], {}).get("rc") != 1]
open(path, "w").write(s)
print(len(rows), "rows; seeds not caught by their own check:", own_missed)
