#!/venv/bin/python
"""Mutation survey: how much of the code a check anchors on is actually constrained by its rules?

usage: tools/mutation_survey.py <Cxx> [--max N] [--only substring]

For every function the check asked for by name (coverage.anchor_functions of its evidence), first-order mutants are
generated inside that function's source range (comparison operators, and/or, boolean and small integer constants,
negated conditions, dropped statements, swapped call arguments, slice bounds +-1; logging / message text is left alone),
each applied to a scratch copy of /repo's working tree, and the quick check is run on it.  A mutant is

  killed     the check prints a VIOLATION (exit 1)
  undecided  the check ends in ANALYSIS-ERROR (exit 2)
  survived   the check is silent: either the mutant is equivalent / outside the property, or the rules have a gap

Survivors are listed (function, line, what was changed) in selftest/mutation/<Cxx>.json for triage.  Nothing of the
repository is executed: mutants are only parsed and analysed."""
import ast
import copy
import json
import os
import shutil
import subprocess
import sys
import tempfile
import concurrent.futures as cf

VERIF = os.path.dirname(os.path.dirname(os.path.abspath(__file__)))
sys.path.insert(0, VERIF)
from sa.model import Program  # noqa: E402

LOGGY = {"debug", "info", "warning", "error", "critical", "exception", "log", "head", "bls"}
CMP = {ast.Eq: ast.NotEq, ast.NotEq: ast.Eq, ast.Lt: ast.LtE, ast.LtE: ast.Lt, ast.Gt: ast.GtE, ast.GtE: ast.Gt,
       ast.In: ast.NotIn, ast.NotIn: ast.In, ast.Is: ast.IsNot, ast.IsNot: ast.Is}


def _is_log_call(n):
    return isinstance(n, ast.Call) and isinstance(n.func, (ast.Attribute, ast.Name)) and \
        (n.func.attr if isinstance(n.func, ast.Attribute) else n.func.id) in LOGGY


def sites(fn_node):
    """[(kind, node)] mutation sites inside fn_node, skipping logging calls, raise messages and docstrings."""
    out = []

    def visit(n, in_msg=False):
        if _is_log_call(n) or isinstance(n, (ast.JoinedStr,)):
            return
        if isinstance(n, ast.Raise):
            # keep the exception class, skip its message
            if n.exc is not None and isinstance(n.exc, ast.Call):
                out.append(("raise-class", n))
            return
        if isinstance(n, ast.Compare) and len(n.ops) == 1 and type(n.ops[0]) in CMP:
            out.append(("cmp", n))
        if isinstance(n, ast.BoolOp):
            out.append(("boolop", n))
        if isinstance(n, ast.Constant) and isinstance(n.value, bool):
            out.append(("bool", n))
        elif isinstance(n, ast.Constant) and isinstance(n.value, int) and abs(n.value) <= 0x10000:
            out.append(("int", n))
        if isinstance(n, (ast.If, ast.While)) and not (isinstance(n.test, ast.Constant)):
            out.append(("negate", n))
        if isinstance(n, ast.Call) and len(n.args) >= 2 and not _is_log_call(n):
            out.append(("swapargs", n))
        if isinstance(n, ast.Subscript) and isinstance(n.slice, ast.Slice) and (n.slice.lower is not None or n.slice.upper is not None):
            out.append(("slice", n))
        if isinstance(n, (ast.Assign, ast.AugAssign)) or (isinstance(n, ast.Expr) and isinstance(n.value, ast.Call) and not _is_log_call(n.value)):
            out.append(("drop", n))
        if isinstance(n, ast.Return) and n.value is not None and isinstance(n.value, ast.Constant) and isinstance(n.value.value, bool):
            pass
        for c in ast.iter_child_nodes(n):
            if isinstance(c, (ast.FunctionDef, ast.AsyncFunctionDef, ast.ClassDef)) and c is not fn_node:
                continue
            visit(c)
    for st in fn_node.body:
        if isinstance(st, ast.Expr) and isinstance(st.value, ast.Constant) and isinstance(st.value.value, str):
            continue
        visit(st)
    return out


def apply(tree, target, kind, variant=0):
    """Return (description, new tree) for one mutation of `target` (a node of `tree`)."""
    t = copy.deepcopy(tree)
    # locate the copy of target by position + type
    cand = [n for n in ast.walk(t) if type(n) is type(target) and getattr(n, "lineno", None) == getattr(target, "lineno", None)
            and getattr(n, "col_offset", None) == getattr(target, "col_offset", None)
            and getattr(n, "end_col_offset", None) == getattr(target, "end_col_offset", None)]
    if not cand:
        return None
    n = cand[0]
    desc = None
    if kind == "cmp":
        old = type(n.ops[0]).__name__
        n.ops = [CMP[type(n.ops[0])]()]
        desc = f"{old} -> {type(n.ops[0]).__name__} in `{ast.unparse(target)[:60]}`"
    elif kind == "boolop":
        n.op = ast.Or() if isinstance(n.op, ast.And) else ast.And()
        desc = f"and <-> or in `{ast.unparse(target)[:60]}`"
    elif kind == "bool":
        n.value = not n.value
        desc = f"{target.value} -> {n.value}"
    elif kind == "int":
        n.value = n.value + (1 if variant == 0 else -1)
        desc = f"{target.value} -> {n.value}"
    elif kind == "negate":
        n.test = ast.UnaryOp(op=ast.Not(), operand=n.test)
        desc = f"negated condition `{ast.unparse(target.test)[:60]}`"
    elif kind == "swapargs":
        n.args[0], n.args[1] = n.args[1], n.args[0]
        desc = f"swapped first two arguments of `{ast.unparse(target)[:60]}`"
    elif kind == "slice":
        s = n.slice
        if variant == 0 and s.upper is not None:
            s.upper = ast.BinOp(left=s.upper, op=ast.Sub(), right=ast.Constant(value=1))
            desc = f"upper bound - 1 in `{ast.unparse(target)[:60]}`"
        elif s.lower is not None:
            s.lower = ast.BinOp(left=s.lower, op=ast.Add(), right=ast.Constant(value=1))
            desc = f"lower bound + 1 in `{ast.unparse(target)[:60]}`"
        else:
            return None
    elif kind == "drop":
        class R(ast.NodeTransformer):
            def generic_visit(self, node):
                for field, old in ast.iter_fields(node):
                    if isinstance(old, list) and n in old:
                        old[old.index(n)] = ast.copy_location(ast.Pass(), n)
                return super().generic_visit(node)
        R().visit(t)
        desc = f"dropped statement `{ast.unparse(target)[:60]}`"
    elif kind == "raise-class":
        return None
    if desc is None:
        return None
    ast.fix_missing_locations(t)
    return desc, t


def scratch():
    d = tempfile.mkdtemp(prefix="mutsurvey-", dir="/tmp")
    for sub in ("middleware", "docs", os.path.join("firmware", "src")):
        shutil.copytree(os.path.join("/repo", sub), os.path.join(d, sub), symlinks=True, ignore=shutil.ignore_patterns("__pycache__", "*.pyc", "tests"))
    return d


def main():
    prop = sys.argv[1]
    mx = int(sys.argv[sys.argv.index("--max") + 1]) if "--max" in sys.argv else 400
    only = sys.argv[sys.argv.index("--only") + 1] if "--only" in sys.argv else None
    subprocess.run(["/venv/bin/python", os.path.join(VERIF, "check"), prop, "--quiet"], check=False,
                   env=dict(os.environ, VERIF_SCRATCH_EVIDENCE="/tmp/mutsurvey-ev"))
    ev = json.load(open(os.path.join(VERIF, "evidence", f"{prop}.json")))
    anchors = ev["coverage"].get("anchor_functions", [])
    # original, un-normalised sources
    import sa.normalize as N
    P = Program.__new__(Program)
    P.repo_root = "/repo"
    jobs = []
    by_file = {}
    root = "/repo/middleware"
    index = {}
    for dp, dn, fns in os.walk(root):
        dn[:] = [d for d in dn if d not in ("tests", "__pycache__")]
        for f in fns:
            if f.endswith(".py") and not os.path.islink(os.path.join(dp, f)):
                path = os.path.join(dp, f)
                rel = os.path.relpath(path, root)[:-3].split(os.sep)
                if rel[-1] == "__init__":
                    rel = rel[:-1]
                mod = ".".join(rel)
                try:
                    tree = ast.parse(open(path).read())
                except SyntaxError:
                    continue
                by_file[path] = tree
                for st in tree.body:
                    if isinstance(st, ast.FunctionDef):
                        index[f"{mod}.{st.name}"] = (path, st)
                    elif isinstance(st, ast.ClassDef):
                        for s in st.body:
                            if isinstance(s, ast.FunctionDef):
                                index[f"{mod}.{st.name}.{s.name}"] = (path, s)
    for q in anchors:
        if q not in index or (only and only not in q):
            continue
        path, fn = index[q]
        for kind, node in sites(fn):
            for variant in ((0, 1) if kind in ("int", "slice") else (0,)):
                jobs.append((q, path, kind, node, variant))
    # spread evenly over functions when capped
    if len(jobs) > mx:
        step = len(jobs) / mx
        jobs = [jobs[int(i * step)] for i in range(mx)]

    def run_one(job):
        q, path, kind, node, variant = job
        r = apply(by_file[path], node, kind, variant)
        if r is None:
            return None
        desc, tree = r
        try:
            src = ast.unparse(tree)
        except Exception:
            return None
        d = scratch()
        try:
            rel = os.path.relpath(path, "/repo")
            with open(os.path.join(d, rel), "w") as f:
                f.write(src)
            o = subprocess.run(["/venv/bin/python", os.path.join(VERIF, "check"), prop, "--repo", d, "--quiet"], capture_output=True, text=True,
                               env=dict(os.environ, VERIF_SCRATCH_EVIDENCE=os.path.join(d, ".ev")))
            first = next((l.strip()[:200] for l in o.stdout.splitlines() if l.strip().startswith("rule ") or "ANALYSIS-ERROR" in l), "")
            return {"function": q, "line": getattr(node, "lineno", 0), "kind": kind, "mutation": desc, "rc": o.returncode, "first": first}
        finally:
            shutil.rmtree(d, ignore_errors=True)
    res = []
    with cf.ThreadPoolExecutor(max_workers=14) as ex:
        for r in ex.map(run_one, jobs):
            if r is not None:
                res.append(r)
    killed = [r for r in res if r["rc"] == 1]
    und = [r for r in res if r["rc"] == 2]
    surv = [r for r in res if r["rc"] == 0]
    out = {"property": prop, "anchors": anchors, "mutants": len(res), "killed": len(killed), "undecided": len(und), "survived": len(surv),
           "survivors": surv, "undecided_list": und}
    os.makedirs(os.path.join(VERIF, "selftest", "mutation"), exist_ok=True)
    # the un-normalised parse means ast.unparse reformats the whole file: harmless for the analysis (AST-based)
    json.dump(out, open(os.path.join(VERIF, "selftest", "mutation", f"{prop}.json"), "w"), indent=1)
    print(f"{prop}: {len(res)} mutants over {len(anchors)} anchor functions: killed {len(killed)}, undecided {len(und)}, survived {len(surv)}")
    per = {}
    for r in surv:
        per.setdefault(r["function"], []).append(r)
    for q, rs in sorted(per.items()):
        print(f"  {q}: {len(rs)} survivors")
        for r in rs[:12]:
            print(f"      L{r['line']} {r['mutation']}")


if __name__ == "__main__":
    main()
