#!/bin/bash
# usage: tools/collect_area.sh <worktree dir> <Cxx> <offset> -- confirm (applies, suite at baseline) and store the behaviour-preserving twins benign1..3 of a scratch worktree as <Cxx>-b<offset+k>
wt=$1; p=$2; off=$3
cd $wt || exit 9
for k in 1 2 3; do
  [ -f benign$k/patch.diff ] || { echo "$p benign$k: missing"; continue; }
  git checkout -q -- .
  git apply benign$k/patch.diff || { echo "$p benign$k: APPLY FAILED"; continue; }
  t=$(/venv/bin/python -m pytest -q -p no:cacheprovider --timeout=900 --continue-on-collection-errors 2>&1 | tail -1)
  git checkout -q -- .
  if echo "$t" | grep -q "468 passed, 25 errors"; then
    cp benign$k/patch.diff /verif/selftest/benign/$p-b$((k+off)).diff; cp benign$k/NOTES.md /verif/selftest/benign/$p-b$((k+off)).md 2>/dev/null
    echo "$p-b$((k+off)): stored ($t)"
  else echo "$p benign$k: suite differs: $t"; fi
done
find . -name __pycache__ -type d -prune -exec rm -rf {} + 2>/dev/null
