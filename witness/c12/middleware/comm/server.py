# Positive witness for C12 (never part of /repo): each construct below must be flagged.
import socketserver
import threading
from concurrent.futures import ThreadPoolExecutor
import asyncio


class Pool(socketserver.ThreadingMixIn, socketserver.TCPServer):
    pass


class H(socketserver.StreamRequestHandler):
    executor = ThreadPoolExecutor(max_workers=4)

    def handle(self):
        fut = self.executor.submit(self.server.protocol.handle_request, {})
        threading.Timer(1.0, self.server.protocol.ensure_connection).start()
        threading.Thread(target=self.server.protocol.handle_request, args=({},)).start()


def run(protocol):
    srv = socketserver.ThreadingTCPServer(("", 1), H)
    srv2 = Pool(("", 2), H)
    srv.serve_forever()
    asyncio.run(None)
