"""C13 - query replies report the device's data verbatim."""
import ast
import json
import os
import re
from sa.model import AnalysisError, Unknown, norm, unwrap, EnumMember
from sa.query import Facts, call_name, find_calls, try_fold, calls_in, defs_of, make_facts, kwarg
from sa.prov import Prov
from sa.layout import Layout
from .common import dongle_classes, protocol_classes, send_sites, firmware, doc, command_methods
from .c06 import _strip
from sa.canon import fold_consts
from sa.decide import values_at
from .c18 import _facts_under

TECHNIQUE = ("table agreement between Python enums/dicts and firmware headers/sources (selectors, flag "
             "order, opcodes, parameter dump order), provenance expansion of every reply field back to the "
             "device answer it must come from, dominance rules for answer validation and for the "
             "back-in-signer check of uiHeartbeat under trace partitioning on the initial mode")
EXPLANATION = (
    "Static analysis of /repo's current source (nothing executed). Decides: state selectors, flag "
    "offsets, GST/RAV ops, network ids, heartbeat ops and command codes equal the firmware's; each "
    "selector's firmware `case` dumps the state field the Python key names; every reply field of "
    "blockchainState / blockchainParameters / heartbeats / getPubKey expands to the datum of the same "
    "name taken from the device answer (whole data field, big-endian unsigned for difficulties, "
    "bool(byte) for flags, hex for hashes/keys); answers are validated (op echo, id echo, lengths) "
    "before use; on the initial-mode-SIGNER partition uiHeartbeat returns OK only after reading "
    "the reply is assembled from the command's (code, data) pair as {errorcode: code} or data + errorcode, heartbeat data only under the result's success flag; "
    "mode == SIGNER following the second exit. Does not decide values for all device states."
)

SPEC = os.path.join(os.path.dirname(os.path.dirname(os.path.abspath(__file__))), "spec", "state_fields.json")


def _mode_name(expr):
    m = re.search(r"MODE\.(\w+)$", norm(expr))
    return m.group(1) if m else None


def _edge_ok_var(g, var, value):
    def truth(e):
        if isinstance(e, ast.Compare) and len(e.ops) == 1 and isinstance(e.left, ast.Name) and e.left.id == var:
            op = e.ops[0]
            if isinstance(op, (ast.Eq, ast.NotEq)):
                m = _mode_name(e.comparators[0])
                if m is None:
                    return None
                return (m == value) if isinstance(op, ast.Eq) else (m != value)
            if isinstance(op, (ast.In, ast.NotIn)) and isinstance(e.comparators[0], (ast.List, ast.Tuple)):
                ms = [_mode_name(x) for x in e.comparators[0].elts]
                if any(m is None for m in ms):
                    return None
                r = value in ms
                return r if isinstance(op, ast.In) else not r
        return None

    def edge_ok(a, b):
        if g.is_exc_edge(a, b):
            return False
        if b.kind in ("T", "F") and b.cond is a and a.kind == "cond":
            t = truth(a.ast)
            if t is None:
                return True
            return (b.kind == "T") == t
        return True
    return edge_ok


def run(run):
    P, A = run.P, run.A
    F = Facts(A)
    PV = Prov(A)
    fw = firmware(run)
    D = P.cls("ledger.hsm2dongle.HSM2Dongle")
    V2 = P.cls("ledger.protocol.HSM2ProtocolLedger")
    with open(SPEC) as f:
        spec = json.load(f)
    _tables(run, fw, D, spec)
    _state(run, F, PV, D, V2, spec)
    _params(run, F, PV, D, V2, fw)
    _heartbeats(run, F, PV, D, V2)
    _pubkey(run, PV, D)
    _dongle_pubkey(run, F, PV)
    _ui_restores(run, F, PV, V2)
    reply_assembly(run)


def reply_assembly(run, rid="R8"):
    """How the command's (code, data) pair becomes the JSON reply (shared with C04 under a prefix)."""
    P, A = run.P, run.A
    from sa.decide import Walker, cmp_parts, completions, subst
    run.rule(rid, "Reply assembly in HSM2Protocol.__internal_handle_request, from the command's result pair (code, data) on: code < 0 -> the reply is "
             "{errorcode: code}; otherwise the reply is the data object itself with errorcode = code stored into it - one code, taken from element 0, and every "
             "field the command produced (element 1), nothing dropped or added; the validation result likewise: negative -> {errorcode: that result}.")
    HP = P.cls("comm.protocol.HSM2Protocol")
    ih = next((m for n, m in HP.methods.items() if n.endswith("__internal_handle_request")), None)
    run.require(ih is not None, "HSM2Protocol.__internal_handle_request vanished")
    g = A.cfg(ih, HP)
    def looked_up(n, table):
        """a call of an entry of self.<table>: directly, or through a local that holds the entry"""
        if isinstance(n.func, ast.Subscript) and _strip(norm(n.func.value)) == f"self.{table}":
            return True
        if isinstance(n.func, ast.Name):
            ds_ = defs_of(A, ih, n.func.id)
            return bool(ds_) and all(getattr(d_, "value", None) is not None and f"self.{table}" in norm(d_.value) and f"self.{table}s" not in norm(d_.value) for d_ in ds_)
        return False
    ops = [n for n in A.own_nodes(ih) if isinstance(n, ast.Call) and looked_up(n, "_mappings")]
    run.require(len(ops) == 1, "__internal_handle_request: the operation call self._mappings[command](request) was not identified")
    opn = g.nodes_of(ops[0])
    run.require(len(opn) == 1, "__internal_handle_request: operation call node not unique")
    state = {"W": None}

    def resolve(e):
        b = state["W"]._bind or {}
        for _ in range(6):
            names = {n.id for n in ast.walk(e) if isinstance(n, ast.Name)}
            hit = {k: v for k, v in b.items() if k in names}
            if not hit:
                break
            e = subst(e, hit)
        return e
    OP = _strip(norm(ops[0]))

    def atom(e):
        cp = cmp_parts(e)
        if cp is None:
            return None
        l, op, r = cp
        if _strip(norm(resolve(l))) == f"{OP}[0]" and isinstance(r, ast.Constant) and isinstance(r.value, int):
            tab = {("<", 0): True, ("<=", -1): True, (">=", 0): False, (">", -1): False}
            if (op, r.value) in tab:
                return ("NEG", tab[(op, r.value)])
        return None
    W = Walker(A, ih, HP, atom, max_leaves=64)
    state["W"] = W
    n = 0
    for lf in W.walk(opn[0]):
        where = ih.loc(lf.node.ast) if lf.node.ast is not None else ih.loc()
        unknown = sorted(k[1:] for k in lf.pc if isinstance(k, str) and k.startswith("?"))
        run.check(rid, not unknown, "after the operation only the sign of its code decides", key=f"__internal_handle_request|reply|extra|{';'.join(unknown)[:50]}", where=where,
                  message=f"after the command ran, the reply also depends on `{'`, `'.join(unknown)[:100]}`")
        if unknown or lf.kind != "return" or lf.node.ast.value is None:
            run.check(rid, bool(unknown) or lf.kind == "return", "every path after the operation returns a reply", key=f"__internal_handle_request|reply|{lf.kind}", where=where,
                      message=f"after the command ran a path ends in `{lf.kind}` instead of returning the reply")
            continue
        state["W"]._bind = lf.bind
        v = lf.deep(lf.node.ast.value)
        vt = _strip(norm(v))
        stores = [(_strip(norm(resolve(subst(st_.targets[0], lf.env)))), _strip(norm(resolve(v_)))) for k_, st_, v_ in lf.effects
                  if k_ == "assign" and isinstance(st_.targets[0], ast.Subscript)]
        for val in completions({k: b for k, b in lf.pc.items() if k == "NEG"}, ["NEG"]):
            n += 1
            if val["NEG"]:
                ok = vt == f"{{self.ERROR_CODE_KEY: {OP}[0]}}" and not stores
                w = "{errorcode: code}"
            else:
                ok = vt == f"{OP}[1]" and stores == [(f"{OP}[1][self.ERROR_CODE_KEY]", f"{OP}[0]")]
                w = "data with data[errorcode] = code"
            run.check(rid, ok and "NEG" in lf.pc, f"[code {'<' if val['NEG'] else '>='} 0] -> {w}", key=f"__internal_handle_request|reply|{val['NEG']}", where=where,
                      message=f"reply assembly, case code {'<' if val['NEG'] else '>='} 0: returns `{vt[:80]}` after storing {stores[:2]}; expected {w} (code = element 0, data = "
                              "element 1 of the command's result): fields or the result code the command produced would not reach the client")
    run.floor(rid, "reply assembly cases", n, 2)
    # the validation verdict
    vals = [n_ for n_ in A.own_nodes(ih) if isinstance(n_, ast.Call) and looked_up(n_, "_validation_mappings")]
    run.require(len(vals) == 1, "__internal_handle_request: the validation call was not identified")
    VT = _strip(norm(vals[0]))

    def vatom(e):
        cp = cmp_parts(e)
        if cp is None:
            return None
        l, op, r = cp
        if _strip(norm(resolve(l))) == VT and isinstance(r, ast.Constant) and isinstance(r.value, int):
            tab = {("<", 0): True, ("<=", -1): True, (">=", 0): False, (">", -1): False}
            if (op, r.value) in tab:
                return ("VNEG", tab[(op, r.value)])
        return None
    W2 = Walker(A, ih, HP, vatom, max_leaves=64)
    state["W"] = W2
    nv = 0
    for vn in g.nodes_of(vals[0]):
        for lf in W2.walk(vn, stops=set(opn)):
            where = ih.loc(lf.node.ast) if lf.node.ast is not None else ih.loc()
            state["W"]._bind = lf.bind
            for val in completions({k: b for k, b in lf.pc.items() if k == "VNEG"}, ["VNEG"]):
                nv += 1
                if val["VNEG"]:
                    vt = _strip(norm(lf.deep(lf.node.ast.value))) if lf.kind == "return" and lf.node.ast.value is not None else lf.kind
                    ok = vt == f"{{self.ERROR_CODE_KEY: {VT}}}"
                    w = "{errorcode: validation result}"
                else:
                    vt = "the operation runs" if lf.kind == "stop" else lf.kind
                    ok = lf.kind == "stop"
                    w = "the operation runs"
                unknown = sorted(k[1:] for k in lf.pc if isinstance(k, str) and k.startswith("?"))
                run.check(rid, ok and not unknown and "VNEG" in lf.pc, f"[validation {'<' if val['VNEG'] else '>='} 0] -> {w}", key=f"__internal_handle_request|validation|{val['VNEG']}", where=where,
                          message=f"validation verdict {'<' if val['VNEG'] else '>='} 0: the code does `{vt[:80]}`" + (f" and decides on {unknown}" if unknown else "") + f"; expected {w}")
    run.floor(rid, "validation verdict cases", nv, 2)


def _tables(run, fw, D, spec):
    P = run.P
    run.rule("R1", "Tables vs firmware: HASH_VALUES ids == bc_state.h defines and each id's `case` in dump_hash "
             "selects the state field paired with the Python key (spec/state_fields.json); _GetStateFlagOffset "
             "order == dump_flags assignment order; GST/RAV ops == op_code_state_t; _Network == NETID_*; "
             "heartbeat ops == op_code_heartbeat_t / UI; command codes == instructions.h / ui_instructions.h.")
    hv = P.attr_of(P.class_const(D, "GST"), "HASH_VALUES")
    bs_h = fw.file("powhsm/src/bc_state.h")
    bs_c = fw.file("powhsm/src/bc_state.c")
    defs = bs_h.defines()
    body = bs_c.function_body("dump_hash")
    run.require(body is not None, "bc_state.c: dump_hash not found")
    cases = dict(re.findall(r"case\s+(\w+)\s*:\s*h\s*=\s*([\w.]+)\s*;", body))
    run.floor("R1", "dump_hash cases", len(cases), 7)
    run.check("R1", set(hv) == {e["python_key"] for e in spec["hashes"]}, "HASH_VALUES keys == specified state fields",
              key="HASH_VALUES|keys", where="middleware/ledger/hsm2dongle.py",
              message=f"HASH_VALUES keys {sorted(hv)} differ from the documented hash fields")
    for e in spec["hashes"]:
        k, cdef, cfield = e["python_key"], e["c_define"], e["c_field"]
        run.require(cdef in defs, f"bc_state.h: #define {cdef} vanished")
        run.check("R1", hv.get(k) == defs[cdef], f"HASH_VALUES['{k}'] == {cdef} ({hex(defs[cdef])})",
                  key=f"HASH_VALUES|{k}|id", where="middleware/ledger/hsm2dongle.py",
                  message=f"HASH_VALUES['{k}'] is {hv.get(k)} but the firmware selector {cdef} is {hex(defs[cdef])}: "
                          f"the reply field `{k}` would carry another hash")
        run.check("R1", cases.get(cdef) == cfield, f"firmware case {cdef} dumps {cfield}",
                  key=f"dump_hash|{cdef}|field", where="firmware/src/powhsm/src/bc_state.c",
                  message=f"firmware dump_hash case {cdef} selects `{cases.get(cdef)}`, expected `{cfield}`")
    fo = P.enum_members(P.cls("ledger.hsm2dongle._GetStateFlagOffset"))
    fb = bs_c.function_body("dump_flags")
    run.require(fb is not None, "bc_state.c: dump_flags not found")
    cfl = dict((int(i), f) for i, f in re.findall(r"APDU_DATA_PTR\[(\d+)\]\s*=\s*bc_st_updating\.(\w+)\s*;", fb))
    for nm, m in fo.items():
        run.check("R1", cfl.get(m.value) == nm.lower(), f"flag {nm} at offset {m.value}",
                  key=f"_GetStateFlagOffset|{nm}", where="middleware/ledger/hsm2dongle.py",
                  message=f"_GetStateFlagOffset.{nm} = {m.value} but dump_flags puts `{cfl.get(m.value)}` there")
    run.check("R1", len(cfl) == 3 and len(fo) == 3, "three flags", key="_GetStateFlagOffset|count", where="middleware/ledger/hsm2dongle.py",
              message=f"flag counts differ: python {len(fo)}, firmware {len(cfl)}")
    ops = bs_h.all_enum_members()
    for ecls, mp in (("_GetStateOps", {"HASH": "OP_STATE_GET_HASH", "DIFF": "OP_STATE_GET_DIFF", "FLAGS": "OP_STATE_GET_FLAGS"}),
                     ("_ResetAdvanceOps", {"INIT": "OP_STATE_RESET_INIT", "DONE": "OP_STATE_RESET_DONE"})):
        mem = P.enum_members(P.cls("ledger.hsm2dongle." + ecls))
        for py, c in mp.items():
            run.require(c in ops, f"bc_state.h: {c} vanished")
            run.check("R1", py in mem and mem[py].value == ops[c], f"{ecls}.{py} == {c}", key=f"{ecls}|{py}",
                      where="middleware/ledger/hsm2dongle.py", message=f"{ecls}.{py} is {mem.get(py)} but {c} is {ops[c]}")
    nu = fw.file("powhsm/src/bc_nu.h").defines()
    net = P.enum_members(P.cls("ledger.parameters._Network"))
    for nm, m in net.items():
        run.check("R1", nu.get("NETID_" + nm) == m.value, f"_Network.{nm} == NETID_{nm}", key=f"_Network|{nm}",
                  where="middleware/ledger/parameters.py", message=f"_Network.{nm} = {m.value}, firmware NETID_{nm} = {nu.get('NETID_' + nm)}")
    run.check("R1", len(net) == 3, "three networks", key="_Network|count", where="middleware/ledger/parameters.py", message="network count changed")
    hb = fw.file("powhsm/src/heartbeat.h").all_enum_members()
    for modname, hdr, pref in (("ledger.hsm2dongle_cmds.signer_heartbeat", "powhsm/src/heartbeat.h", "OP_HBT_"),
                               ("ledger.hsm2dongle_cmds.ui_heartbeat", "ledger/ui/src/ui_heartbeat.h", "OP_UI_HBT_")):
        cm = fw.file(hdr).all_enum_members()
        mem = P.enum_members(P.cls(modname + ".Op"))
        for nm, m in mem.items():
            cands = [k for k in cm if k.endswith("_" + nm) and k.startswith("OP_") and ("HBT" in k or "HEARTBEAT" in k)]
            run.check("R1", len(cands) >= 1 and all(cm[c] == m.value for c in cands), f"{modname.split('.')[-1]}.Op.{nm} == firmware",
                      key=f"{modname}|Op.{nm}", where=modname.replace(".", "/") + ".py",
                      message=f"{modname}.Op.{nm} = {m.value}; firmware {cands} = {[cm[c] for c in cands]}")
    ins = {**fw.file("powhsm/src/instructions.h").all_enum_members()}
    uins = fw.file("ledger/ui/src/ui_instructions.h").all_enum_members()
    cmd = P.enum_members(P.cls("ledger.hsm2dongle._Command"))
    for py, (src, c) in {"SIGN": (ins, "INS_SIGN"), "GET_PUBLIC_KEY": (ins, "INS_GET_PUBLIC_KEY"), "IS_ONBOARD": (ins, "RSK_IS_ONBOARD"),
                         "GET_MODE": (ins, "RSK_MODE_CMD"), "ADVANCE": (ins, "INS_ADVANCE"), "GET_PARAMETERS": (ins, "INS_ADVANCE_PARAMS"),
                         "GET_STATE": (ins, "INS_GET_STATE"), "RESET_AB": (ins, "INS_RESET_STATE"), "UPD_ANCESTOR": (ins, "INS_UPD_ANCESTOR"),
                         "EXIT_MENU": (ins, "INS_EXIT"), "SEND_PIN": (uins, "RSK_PIN_CMD"), "SEED": (uins, "RSK_SEED_CMD"),
                         "ECHO": (uins, "RSK_ECHO_CMD"), "WIPE": (uins, "RSK_WIPE"), "CHANGE_PIN": (uins, "RSK_NEWPIN"),
                         "EXIT_MENU_NO_AUTOEXEC": (uins, "RSK_END_CMD_NOSIG"), "UNLOCK": (uins, "RSK_UNLOCK_CMD"),
                         "RETRIES": (uins, "RSK_RETRIES"), "UI_ATT": (uins, "INS_ATTESTATION"), "SIGNER_AUTH": (uins, "INS_SIGNER_AUTHORIZATION")}.items():
        run.require(c in src, f"firmware instruction {c} vanished")
        run.check("R1", py in cmd and cmd[py].value == src[c], f"_Command.{py} == {c}", key=f"_Command|{py}",
                  where="middleware/ledger/hsm2dongle.py", message=f"_Command.{py} = {cmd.get(py)} but firmware {c} = {hex(src[c])}")
    for modname, c, src in (("ledger.hsm2dongle_cmds.signer_heartbeat.HSM2SignerHeartbeat", "INS_HEARTBEAT", ins),
                            ("ledger.hsm2dongle_cmds.ui_heartbeat.HSM2UIHeartbeat", "INS_UI_HEARTBEAT", uins)):
        v = P.class_const(P.cls(modname), "Command")
        run.check("R1", v == src[c], f"{modname.split('.')[-1]}.Command == {c}", key=f"{modname}|Command", where="middleware/ledger/hsm2dongle_cmds",
                  message=f"{modname}.Command = {v}, firmware {c} = {src[c]}")


def _state(run, F, PV, D, V2, spec):
    P, A = run.P, run.A
    run.rule("R2", "blockchainState: every reply field `state.a[.b]` is fed by state['a[.b]'] of the dongle's result; "
             "get_blockchain_state stores under each key the hex of the answer's data after the echoed id (hashes), "
             "the big-endian unsigned integer of the whole data field (total difficulty) and bool(byte at its "
             "flag offset); all 11 fields are present. (R4) each answer is validated before use: op echo, id "
             "echo, 32-byte length; flags: 3 bytes.")
    bs = P.method(V2, "_blockchain_state")
    d = [n for n in A.own_nodes(bs) if isinstance(n, ast.Dict) and len(n.keys) >= 4]
    run.require(len(d) >= 1, "_blockchain_state: reply dict not found")
    flat = {}

    def walk(dct, prefix):
        for k, v in zip(dct.keys, dct.values):
            key = prefix + k.value
            if isinstance(v, ast.Dict):
                walk(v, key + ".")
            else:
                flat[key] = norm(v)
    nested = {id(v) for x in d for v in x.values if isinstance(v, ast.Dict)}
    tops = [x for x in d if id(x) not in nested]
    run.require(len(tops) == 1, "_blockchain_state: reply dict not identified")
    top = tops[0]
    walk(top, "")
    want = [e["python_key"] for e in spec["hashes"]] + ["updating.total_difficulty", "updating.in_progress",
                                                        "updating.already_validated", "updating.found_best_block"]
    run.check("R2", sorted(flat) == sorted(want), "all 11 documented state fields present", key="_blockchain_state|fields",
              where=bs.loc(), message=f"state reply fields {sorted(flat)} != documented {sorted(want)}")
    for k, v in sorted(flat.items()):
        run.check("R2", v == f"state['{k}']", f"reply `{k}` fed by state['{k}']", key=f"_blockchain_state|{k}|wiring",
                  where=bs.loc(), message=f"reply field `{k}` is fed by `{v}`, not by the device datum of the same name")
    sd = defs_of(A, bs, "state")
    run.check("R2", len(sd) == 1 and norm(sd[0].value) == "self.hsm2dongle.get_blockchain_state()", "state comes from the dongle",
              key="_blockchain_state|state-source", where=bs.loc(), message="`state` is not the dongle's get_blockchain_state() result")
    gs = P.method(D, "get_blockchain_state")
    g = A.cfg(gs, D)
    L = Layout(lambda e: try_fold(P, e, gs, D))
    stores = [n for n in A.own_nodes(gs) if isinstance(n, ast.Assign) and isinstance(n.targets[0], ast.Subscript)
              and norm(n.targets[0].value) == "state"]
    got = {}
    for s in stores:
        for sn in g.nodes_of(s):
            kx = {_strip(x) for x in PV.expand_consistent(gs, D, s.targets[0].slice, sn)}
            # the hash entries are stored under the dict key the loop is at (whatever the loop variable is called)
            kn = "key" if kx == {"ELEM(self.GST.HASH_VALUES)"} else norm(s.targets[0].slice)
            got[kn] = ({_strip(x) for x in PV.expand_consistent(gs, D, s.value, sn)}, s, sn)
    OFF = 3
    hv = "self.GST.HASH_VALUES[ELEM(self.GST.HASH_VALUES)]"
    send_h = f"self._send_command(self.CMD.GET_STATE, bytes([self.OP.GST.HASH, {hv}]))"
    exp = {
        "key": {_strip(f"{send_h}[self.OFF.DATA + 1:].hex()")},
        "'updating.total_difficulty'": {_strip("int.from_bytes(self._send_command(self.CMD.GET_STATE, bytes([self.OP.GST.DIFF]))[self.OFF.DATA:], byteorder='big', signed=False)")},
    }
    for fl in ("IN_PROGRESS", "ALREADY_VALIDATED", "FOUND_BEST_BLOCK"):
        exp[f"'updating.{fl.lower()}'"] = {_strip(
            f"bool(self._send_command(self.CMD.GET_STATE, bytes([self.OP.GST.FLAGS]))[self.OFF.DATA + self.GST.FLAG_OFFSET.{fl}])")}
    for k, w in exp.items():
        if k not in got:
            run.fail("R2", f"get_blockchain_state|{k}|missing", gs.loc(), f"get_blockchain_state never stores {k}")
            continue
        run.check("R2", got[k][0] == w, f"state[{k}] is the device datum", key=f"get_blockchain_state|{k}|expr", where=gs.loc(got[k][1]),
                  message=f"state[{k}] is computed as {sorted(got[k][0])[:1]}; expected {sorted(w)}: the client would not "
                          "receive exactly what the device holds (truncation, wrong byte order or wrong offset)")
    run.check("R2", set(got) == set(exp), "exactly the documented stores", key="get_blockchain_state|stores", where=gs.loc(),
              message=f"get_blockchain_state stores {sorted(got)}")
    # the loop key is the dict key paired with the selector sent
    loops = [n for n in ast.walk(gs.node) if isinstance(n, ast.For)]
    run.check("R2", len(loops) == 1 and norm(loops[0].iter) == "self.GST.HASH_VALUES" and isinstance(loops[0].target, ast.Name),
              "hash loop iterates the HASH_VALUES table (key -> selector)", key="get_blockchain_state|loop", where=gs.loc(),
              message="the hash loop no longer iterates the HASH_VALUES table (key, selector)")
    run.rule("R4", "Answers are validated before use (dominating the store): hash - op == GST.HASH, echoed id == selector, "
             "32 bytes; difficulty - op == GST.DIFF; flags - op == GST.FLAGS and 3 bytes.")
    send_d = "self._send_command(self.CMD.GET_STATE, bytes([self.OP.GST.DIFF]))"
    send_f = "self._send_command(self.CMD.GET_STATE, bytes([self.OP.GST.FLAGS]))"
    need = {"key": [f"{send_h}[self.OFF.OP] == self.OP.GST.HASH", f"{send_h}[self.OFF.DATA] == {hv}",
                    f"len({send_h}[self.OFF.DATA + 1:]) == self.HASH_SIZE"],
            "'updating.total_difficulty'": [f"{send_d}[self.OFF.OP] == self.OP.GST.DIFF"],
            "'updating.in_progress'": [f"{send_f}[self.OFF.OP] == self.OP.GST.FLAGS", f"len({send_f}[self.OFF.DATA:]) == 3"]}
    for k, ws in need.items():
        if k not in got:
            continue
        facts = {_strip(t) for t in F.expanded(gs, D, got[k][2], PV)}
        ws = [_strip(w) for w in ws]
        for w in ws:
            run.check("R4", w in facts, f"state[{k}] stored only after `{w}`", key=f"get_blockchain_state|{k}|{w}", where=gs.loc(got[k][1]),
                      message=f"state[{k}] can be stored without the answer check `{w}`")
    run.check("R4", P.class_const(D, "HASH_SIZE") == 32, "HASH_SIZE == 32", key="HSM2Dongle.HASH_SIZE", where="middleware/ledger/hsm2dongle.py",
              message="HASH_SIZE changed")


def _params(run, F, PV, D, V2, fw):
    P, A = run.P, run.A
    run.rule("R3", "blockchainParameters: checkpoint / minimum_difficulty / network are fed by params.checkpoint / "
             "params.min_required_difficulty / params.network.name.lower(); from_dongle_format requires 69 bytes and "
             "decodes checkpoint = [0:32].hex(), difficulty = big-endian unsigned [32:68], network = _Network([68]); "
             "firmware dumps initial block hash, min required difficulty, network id in that order.")
    gp = P.method(V2, "_get_blockchain_parameters")
    d = [n for n in A.own_nodes(gp) if isinstance(n, ast.Dict) and len(n.keys) == 3]
    run.require(len(d) == 1, "_get_blockchain_parameters: parameters dict not found")
    got = {k.value: norm(v) for k, v in zip(d[0].keys, d[0].values)}
    run.check("R3", got == {"checkpoint": "params.checkpoint", "minimum_difficulty": "params.min_required_difficulty",
                            "network": "params.network.name.lower()"}, "parameters wiring", key="_get_blockchain_parameters|wiring",
              where=gp.loc(), message=f"parameters reply is {got}")
    pd = defs_of(A, gp, "params")
    run.check("R3", len(pd) == 1 and norm(pd[0].value) == "self.hsm2dongle.get_signer_parameters()", "params from the dongle",
              key="_get_blockchain_parameters|source", where=gp.loc(), message="`params` is not get_signer_parameters()")
    sp = P.method(D, "get_signer_parameters")
    g = A.cfg(sp, D)
    rr = [n for n in A.own_nodes(sp) if isinstance(n, ast.Return)]
    okp = len(rr) == 1 and {_strip(x) for rn in g.nodes_of(rr[0]) for x in PV.expand_consistent(sp, D, rr[0].value, rn)} == \
        {_strip("HSM2FirmwareParameters.from_dongle_format(self._send_command(self.CMD.GET_PARAMETERS)[self.OFF.DATA:])")}
    run.check("R3", okp, "parameters parsed from the whole data field of GET_PARAMETERS", key="get_signer_parameters|expr", where=sp.loc(),
              message="get_signer_parameters does not parse the data field of the GET_PARAMETERS answer")
    fd = P.func("ledger.parameters.HSM2FirmwareParameters.from_dongle_format")
    gf = A.cfg(fd, None)
    rr = [n for n in A.own_nodes(fd) if isinstance(n, ast.Return)]
    pb = fd.params[0]
    want = _strip(f"HSM2FirmwareParameters(int.from_bytes({pb}[32:68], byteorder='big', signed=False), {pb}[0:32].hex(), _Network({pb}[68]))")
    locs = set(PV.defs(fd, None)) | set(fd.params)

    def folded(x):
        try:
            t = _strip(norm(fold_consts(P, ast.parse(x, mode="eval").body, fd, fd.cls, locals_=locs)))
        except SyntaxError:
            return x
        return re.sub(r"\[:(\d+)\]", r"[0:\1]", t)
    for r in rr:
        for rn in gf.nodes_of(r):
            got_ = {folded(x) for x in PV.expand_consistent(fd, None, r.value, rn)}
            run.check("R3", got_ == {folded(want)}, "parameter decoding (32 | 36 big-endian unsigned | 1)", key="from_dongle_format|expr", where=fd.loc(r),
                      message=f"from_dongle_format builds {sorted(got_)[:1]}; expected `{want}`")
            facts = {folded(t) for t in F.expanded(fd, None, rn, PV)}
            run.check("R3", f"len({pb}) == 69" in facts, "exactly 69 bytes required", key="from_dongle_format|length", where=fd.loc(r),
                      message="from_dongle_format no longer requires exactly 69 bytes")
    ini = P.func("ledger.parameters.HSM2FirmwareParameters.__init__")
    asg = {norm(n.targets[0]): norm(n.value) for n in A.own_nodes(ini) if isinstance(n, ast.Assign)}
    run.check("R3", asg == {"self.min_required_difficulty": ini.params[1], "self.checkpoint": ini.params[2], "self.network": ini.params[3]}
              and ini.params[1:] == ["min_required_difficulty", "checkpoint", "network"],
              "constructor stores (difficulty, checkpoint, network) in that order", key="HSM2FirmwareParameters.__init__|order",
              where=ini.loc(), message=f"HSM2FirmwareParameters.__init__ is {asg}")
    body = fw.file("powhsm/src/bc_advance.c").function_body("bc_advance_get_params")
    run.require(body is not None, "bc_advance.c: bc_advance_get_params not found")
    order = [m for m in re.findall(r"(bc_dump_initial_block_hash|dump_min_req_difficulty|GET_NETWORK_IDENTIFIER)", body)]
    run.check("R3", order == ["bc_dump_initial_block_hash", "dump_min_req_difficulty", "GET_NETWORK_IDENTIFIER"],
              "firmware dump order: checkpoint, difficulty, network", key="bc_advance_get_params|order", where="firmware/src/powhsm/src/bc_advance.c",
              message=f"firmware parameter dump order is {order}")


def _heartbeats(run, F, PV, D, V2):
    P, A = run.P, run.A
    run.rule("R5", "Heartbeats: the reply's pubKey / message / tweak / signature.r,s are the dongle result's fields of the "
             "same name; the command objects fill pubKey <- PUBKEY answer, message <- GET_MESSAGE, tweak <- APP_HASH, "
             "signature <- DER parse of the GET answer (data field each), after sending UD_VALUE = hexdecode(ud value); "
             "OK is returned only under the result flag.")
    for mname in ("_signer_heartbeat", "_ui_heartbeat"):
        m = P.method(V2, mname)
        g = A.cfg(m, V2)
        for r in [n for n in A.own_nodes(m) if isinstance(n, ast.Return) and isinstance(n.value, ast.Tuple) and len(n.value.elts) == 2]:
            d = r.value.elts[1]
            run.require(isinstance(d, ast.Dict), f"{mname}: the reply data is not written as a dict display (idiom not understood)")
            flat = {}
            for k, v in zip(d.keys, d.values):
                if isinstance(v, ast.Dict):
                    for k2, v2 in zip(v.keys, v.values):
                        flat[f"{k.value}.{k2.value}"] = v2
                else:
                    flat[k.value] = v
            want = {"pubKey": "['pubKey']", "message": "['message']", "tweak": "['tweak']",
                    "signature.r": "['signature'].r", "signature.s": "['signature'].s"}
            call = "get_signer_heartbeat" if mname == "_signer_heartbeat" else "get_ui_heartbeat"
            base = f"self.hsm2dongle.{call}(request['udValue'])[1]"
            for rn in g.nodes_of(r):
                for k, suffix in want.items():
                    if k not in flat:
                        run.fail("R5", f"{mname}|{k}|missing", m.loc(r), f"{mname}: reply lacks `{k}`")
                        continue
                    got = {_strip(x) for x in PV.expand_consistent(m, V2, flat[k], rn)}
                    run.check("R5", got == {_strip(base + suffix)}, f"{mname}: `{k}` from the dongle result", key=f"{mname}|{k}|wiring",
                              where=m.loc(r), message=f"{mname}: reply field `{k}` is {sorted(got)[:1]}, expected `{base + suffix}`")
                run.check("R5", set(flat) == set(want), f"{mname}: documented fields only", key=f"{mname}|fields", where=m.loc(r),
                          message=f"{mname}: reply fields {sorted(flat)}")
                # the data is reported only when the command object said it gathered it: element 0 of the same result is true on every path here
                flag = _strip(f"self.hsm2dongle.{call}(request['udValue'])[0]")
                ftexts = {_strip(t) for t in F.expanded(m, V2, rn, PV)} | {_strip(f.text()) for f in F.local(m, V2, rn)}
                run.check("R5", flag in ftexts, f"{mname}: the reply is built under the result's success flag", key=f"{mname}|flag", where=m.loc(r),
                          message=f"{mname}: the heartbeat reply is returned without `{flag}` being true on that path: on a failed gathering element 1 is not the "
                                  "heartbeat data (and a gathered heartbeat would be answered as a device error)")
    for cq, dname in (("ledger.hsm2dongle_cmds.signer_heartbeat.HSM2SignerHeartbeat", "get_signer_heartbeat"),
                      ("ledger.hsm2dongle_cmds.ui_heartbeat.HSM2UIHeartbeat", "get_ui_heartbeat")):
        ci = P.cls(cq)
        rn_ = P.method(ci, "run")
        g = A.cfg(rn_, ci)
        udp = rn_.params[1]
        okrets = [n for n in A.own_nodes(rn_) if isinstance(n, ast.Return) and isinstance(n.value, ast.Tuple)
                  and isinstance(n.value.elts[0], ast.Constant) and n.value.elts[0].value is True]
        run.check("R5", len(okrets) >= 1, f"{ci.name}.run reports success with the gathered heartbeat", key=f"{ci.name}.run|success-return", where=rn_.loc(),
                  message=f"{ci.name}.run has no `(True, {{..}})` return: a gathered heartbeat is never reported (the client always gets a device error)")
        for r in okrets:
            d = r.value.elts[1]
            want = {"pubKey": "self.send(Op.PUBKEY, self.NoData)[self.Offset.DATA:].hex()",
                    "message": "self.send(Op.GET_MESSAGE, self.NoData)[self.Offset.DATA:].hex()",
                    "tweak": "self.send(Op.APP_HASH, self.NoData)[self.Offset.DATA:].hex()",
                    "signature": "HSM2DongleSignature(self.send(Op.GET, self.NoData)[self.Offset.DATA:])"}
            for rnode in g.nodes_of(r):
                for k, v in zip(d.keys, d.values):
                    got = {_strip(x) for x in PV.expand_consistent(rn_, ci, v, rnode)}
                    run.check("R5", got == {_strip(want.get(k.value, "?"))}, f"{ci.name}: `{k.value}` from its own exchange",
                              key=f"{ci.name}.run|{k.value}|source", where=rn_.loc(r),
                              message=f"{ci.name}.run: `{k.value}` is {sorted(got)[:1]}, expected `{want.get(k.value)}`")
                sent = [c for c, dn in F.completed_calls(rn_, ci, rnode) if call_name(c) == "send"]
                first = sent[0] if sent else None
                run.check("R5", first is not None and norm(first) == f"self.send(Op.UD_VALUE, bytes.fromhex({udp}))",
                          f"{ci.name}: UD value sent first", key=f"{ci.name}.run|ud-first", where=rn_.loc(),
                          message=f"{ci.name}.run does not start by sending the user-defined value")
        dm = P.method(D, dname)
        rr = [n for n in A.own_nodes(dm) if isinstance(n, ast.Return)]
        run.check("R5", len(rr) == 1 and norm(rr[0].value) == f"{ci.name}(self).run({dm.params[1]})", f"{dname} delegates to {ci.name}",
                  key=f"HSM2Dongle.{dname}|expr", where=dm.loc(), message=f"{dname} changed")
    send = P.method(P.cls("ledger.hsm2dongle_cmds.command.HSM2DongleCommand"), "send")
    rr = [n for n in A.own_nodes(send) if isinstance(n, ast.Return)]
    run.check("R5", len(rr) == 1 and norm(rr[0].value) == "self.dongle.send_command(self.Command, op, data, timeout)",
              "command objects send (Command, op, data)", key="HSM2DongleCommand.send|expr", where=send.loc(), message="HSM2DongleCommand.send changed")
    sc = P.method(D, "send_command")
    rr = [n for n in A.own_nodes(sc) if isinstance(n, ast.Return)]
    run.check("R5", len(rr) == 1 and norm(rr[0].value) == "self._send_command(cmd, bytes([op]) + data, timeout)", "send_command frames op + data",
              key="HSM2Dongle.send_command|expr", where=sc.loc(), message="HSM2Dongle.send_command changed")


def _pubkey(run, PV, D):
    P, A = run.P, run.A
    run.rule("R6", "getPubKey: the reply's pubKey is the dongle's answer to GET_PUBLIC_KEY for the requested keyId's binary path.")
    for pc in protocol_classes(run):
        m = P.method(pc, "_get_pubkey")
        g = A.cfg(m, pc)
        for r in [n for n in A.own_nodes(m) if isinstance(n, ast.Return) and isinstance(n.value, ast.Tuple) and len(n.value.elts) == 2]:
            d = r.value.elts[1]
            for rn in g.nodes_of(r):
                try:
                    vs = {_strip(x) for x in values_at(A, m, pc, rn, d)}
                except AnalysisError:
                    vs = {_strip(x) for x in PV.expand_consistent(m, pc, d, rn, stop=("request",))}
                run.check("R6", vs == {_strip("{'pubKey': self.hsm2dongle.get_public_key(request['keyId'])}")}, f"{pc.name}: pubKey wiring",
                          key=f"{pc.name}._get_pubkey|wiring", where=m.loc(r), message=f"{pc.name}._get_pubkey reply is {sorted(vs)[:2]}")


def _dongle_pubkey(run, F, PV):
    """the dongle side of getPubKey and the signature parser used by every reply that carries a signature"""
    P, A = run.P, run.A
    from sa.decide import return_values
    from . import c01
    for dc in dongle_classes(run):
        r_ = dc.lookup("get_public_key")
        if r_ is None or r_[1] != "method" or r_[2].cls is not dc:
            continue
        m = r_[2]
        kp = m.params[1]
        vals = {_strip(x) for x in return_values(A, m, dc, PV)}
        want = _strip(f"self._send_command(self.CMD.GET_PUBLIC_KEY, {kp}.to_binary()).hex()")
        run.check("R6", vals == {want}, f"{dc.name}.get_public_key = hex of the answer to a fresh GET_PUBLIC_KEY exchange for this path",
                  key=f"{dc.name}.get_public_key|expr", where=m.loc(),
                  message=f"{dc.name}.get_public_key returns {sorted(vals)[:2]}; expected `{want}`: a stored, defaulted or re-keyed value is not what the "
                          "device holds for the requested path")
    run.rule("S.R5", "Signatures in replies (sign, heartbeats): HSM2DongleSignature slices r = b[4:4+b[3]] and s = b[6+rl:6+rl+b[5+rl]] after checking "
             "the DER header, markers and lengths, and its r / s properties return the hex of exactly those slices (rules shared with C01).")
    run.rid_prefix = "S."
    try:
        c01.signature_parser(run, F, PV, "R5")
    finally:
        run.rid_prefix = ""


def _ui_restores(run, F, PV, V2):
    P, A = run.P, run.A
    run.rule("R7", "uiHeartbeat started from the signer (partition initial_mode == SIGNER): every ERROR_CODE_OK return is "
             "dominated by `new_mode == MODE.SIGNER` where new_mode is read by get_current_mode() after the second "
             "exit_app()/_wait_and_reconnect() that follows the heartbeat gathering; every other outcome returns the device error.")
    m = P.method(V2, "_ui_heartbeat")
    g = A.cfg(m, V2)
    ek = _edge_ok_var(g, "initial_mode", "SIGNER")
    imd = defs_of(A, m, "initial_mode")
    run.require(len(imd) == 1 and call_name(imd[0].value) == "get_current_mode", "_ui_heartbeat: initial mode read vanished")
    oks = []
    for r in [n for n in A.own_nodes(m) if isinstance(n, ast.Return) and isinstance(n.value, ast.Tuple) and len(n.value.elts) == 2]:
        okv, v = try_fold(P, r.value.elts[0], m, V2)
        if okv and v == 0:
            oks.append(r)
    run.floor("R7", "OK returns in _ui_heartbeat", len(oks), 1)
    hb = [x for c in find_calls(A, m, "get_ui_heartbeat") for x in g.nodes_of(c)]
    run.require(len(hb) == 1, "_ui_heartbeat: get_ui_heartbeat call vanished")
    for r in oks:
        for rn in g.nodes_of(r):
            facts = _facts_under(run, F, m, g, rn, ek)
            good = None
            for f in facts:
                if f.kind == "cmp" and f.op == "==" and isinstance(f.left, ast.Name) and _mode_name(f.right) == "SIGNER" \
                        and f.left.id != "initial_mode":
                    # the mode variable must have been read after the heartbeat exchange and the exit
                    rds = PV.reaching(m, V2, f.left.id, f.node)
                    if len(rds) == 1 and rds[0].value is not None and call_name(rds[0].value) == "get_current_mode":
                        dn = rds[0].cnode
                        after_hb = g.dominates_under(hb[0], dn, ek)
                        exits = [x for c in find_calls(A, m, "exit_app") for x in g.nodes_of(c)
                                 if g.dominates_under(hb[0], x, ek) and x in g.reachable(hb[0])]
                        after_exit = any(g.dominates_under(x, dn, ek) for x in exits)
                        rec = [x for c in find_calls(A, m, "_wait_and_reconnect") for x in g.nodes_of(c)
                               if x in g.reachable(hb[0]) and g.dominates_under(x, dn, ek)]
                        if after_hb and after_exit and rec:
                            good = f
            run.check("R7", good is not None, "OK only after reading mode == SIGNER following the second exit",
                      key="HSM2ProtocolLedger._ui_heartbeat|OK|back-in-signer", where=m.loc(r),
                      message="uiHeartbeat started from the signer can answer errorcode 0 without having read "
                              "`mode == SIGNER` after leaving the UI heartbeat app: the device may be left in the "
                              "bootloader/unknown mode while the client is told all is well")
    # gathering happens in UI heartbeat mode on that partition
    for hn in hb:
        facts = _facts_under(run, F, m, g, hn, ek)
        ok = any(f.kind == "cmp" and f.op == "==" and _mode_name(f.right) == "UI_HEARTBEAT" for f in facts)
        run.check("R7", ok, "heartbeat gathered only after reading mode == UI_HEARTBEAT", key="HSM2ProtocolLedger._ui_heartbeat|gather|in-ui-heartbeat",
                  where=m.loc(), message="on the signer partition the UI heartbeat is gathered without having verified the device entered UI heartbeat mode")
