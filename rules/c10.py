"""C10 - the PIN kept on disk always opens the device."""
import ast
from sa.model import AnalysisError, Unknown, norm, unwrap, EnumMember
from sa.prov import Prov
from sa.query import Facts, call_name, find_calls, defs_of, try_fold, calls_in, kwarg
from sa.exc import ExcAnalysis
from .c06 import _strip
from .common import (dongle_classes, is_dongle_call, firmware, manager_reachable, send_sites, protocol_classes)

TECHNIQUE = ("who-may-write effect analysis over the call graph, dominator rules on "
             "exception-aware CFGs (crash/IO faults as exception edges), typestate path query "
             "GENERATED->ACKED->DURABLE, atom recognition of the PIN policy against firmware pin_policy")
EXPLANATION = (
    "Static analysis of /repo's current source (nothing executed). Decides: which functions can "
    "mutate files in the manager (only FileBasedPin.commit_change, called only from "
    "_handle_bootloader; FileBasedPin.new has no production caller); the commit site is dominated "
    "by the device acknowledging new_pin(get_new_pin()) and writes that same value; abort_change "
    "writes neither file nor current PIN; the generator returns only values accepted by the full "
    "policy (8 chars from letters+digits, one letter; equal to firmware MAX_PIN_LENGTH); after a "
    "change attempt every exit of bring-up is HSM2ProtocolInterrupt; typestate 'no drop after ack' "
    "and 'atomic durable write' with crash points modelled as exception edges. Does not decide "
    "real crash timing or file-system behaviour."
)

WRITE_OS = {"remove", "unlink", "rename", "replace", "truncate", "rmdir", "removedirs", "write"}


def file_mutations(run, fn):
    """[(call, description)] for calls in fn that create/modify/delete files."""
    out = []
    for n in run.A.own_nodes(fn):
        if not isinstance(n, ast.Call):
            continue
        nm = call_name(n)
        if nm == "open" and isinstance(n.func, ast.Name):
            mode = kwarg(n, "mode", 1)
            if mode is None:
                continue
            ok, m = try_fold(run.P, mode, fn)
            if not ok or not isinstance(m, str):
                out.append((n, "open(mode=?)"))
            elif any(c in m for c in "wax+"):
                out.append((n, f"open(mode={m!r})"))
        elif isinstance(n.func, ast.Attribute) and isinstance(n.func.value, ast.Name) \
                and n.func.value.id in ("os", "shutil") and nm in WRITE_OS | {"move", "copy", "copyfile", "rmtree"}:
            out.append((n, f"{n.func.value.id}.{nm}"))
        elif nm in ("write_text", "write_bytes", "unlink", "touch") and isinstance(n.func, ast.Attribute):
            out.append((n, f".{nm}()"))
    return out


def run(run):
    P, A = run.P, run.A
    F = Facts(A)
    PV = Prov(A)
    L = P.cls("ledger.protocol.HSM2ProtocolLedger")
    PIN = P.cls("ledger.pin.FileBasedPin")
    BASE = P.cls("ledger.pin.BasePin")
    hb = P.method(L, "_handle_bootloader")
    gb = A.cfg(hb, L)
    commit = P.method(PIN, "commit_change")
    abort = P.method(PIN, "abort_change")
    start = P.method(PIN, "start_change")

    # ---------------------------------------------------------------- R1
    run.rule("R1", "File-mutating calls (open in a write mode, os.remove/rename/replace, Path.write_*) "
             "in manager-reachable code and in ledger/pin.py occur only in FileBasedPin.commit_change "
             "and FileBasedPin.new; new() has no production caller; commit_change() is called only "
             "from _handle_bootloader.")
    scope = {f.qualname: f for f, _ in manager_reachable(run)}
    for f in P.all_functions:
        if f.module.name == "ledger.pin":
            scope[f.qualname] = f
    allowed = {commit.qualname, P.method(PIN, "new").qualname}
    writers = []
    for f in scope.values():
        for call, desc in file_mutations(run, f):
            writers.append((f, call, desc))
            run.check("R1", f.qualname in allowed, f"{desc} in {f.qualname} is a sanctioned PIN-file writer",
                      key=f"{f.qualname}|{desc}|writer", where=f.loc(call),
                      message=f"{f.qualname} mutates a file ({desc}: `{norm(call)[:70]}`) but only "
                              "commit_change/new may write the PIN file")
    run.floor("R1", "file-mutating calls in scope", len(writers), 2)
    run.extra["analysed_scope_functions"] = len(scope)
    new_callers = A.call_sites_of(lambda c: c.fn is P.method(PIN, "new"))
    run.check("R1", not new_callers, "FileBasedPin.new has no production caller",
              key="FileBasedPin.new|callers", where=P.method(PIN, "new").loc(),
              message="FileBasedPin.new (writes a fresh PIN file without the device) is called from "
                      + ", ".join(f.qualname for f, _, _ in new_callers))
    cc = A.call_sites_of(lambda c: c.fn is commit)
    run.floor("R1", "commit_change call sites", len(cc), 1)
    for f, call, _ in cc:
        run.check("R1", f is hb, "commit_change called only from _handle_bootloader",
                  key=f"{f.qualname}|commit_change|caller", where=f.loc(call),
                  message=f"commit_change() is also called from {f.qualname}")

    # ---------------------------------------------------------------- R2
    run.rule("R2", "commit_change() in _handle_bootloader is dominated by the true edge of "
             "hsm2dongle.new_pin(self.pin.get_new_pin()); get_new_pin returns the pending _new_pin, "
             "commit writes that same field to the PIN path and only then makes it current; _new_pin's "
             "only non-None definition is generate_pin(); both dongle new_pin implementations report "
             "success only after the change command completed and send the given pin.")
    commit_calls = [c for f, c, _ in cc if f is hb]
    ack_nodes = []
    for c in commit_calls:
        for cn in gb.nodes_of(c):
            facts = F.local(hb, L, cn)
            acks = [f for f in facts if f.kind == "call" and f.pol and
                    is_dongle_call(run, f.expr, hb, L, {"new_pin"})]
            good = []
            for f in acks:
                if len(f.expr.args) != 1 or f.expr.keywords:
                    continue
                try:
                    av = PV.expand_consistent(hb, L, f.expr.args[0], f.node if f.node is not None else cn)
                except AnalysisError:
                    av = {norm(f.expr.args[0])}
                if {_strip(x) for x in av} == {"self.pin.get_new_pin()"}:
                    good.append(f)
            run.check("R2", bool(good), "commit dominated by new_pin(get_new_pin()) true",
                      key="HSM2ProtocolLedger._handle_bootloader|commit_change|after-ack", where=hb.loc(c),
                      message="commit_change() is reachable without the device having acknowledged "
                              "new_pin(self.pin.get_new_pin()): the PIN file could change although "
                              "the device still has the old PIN" if not acks else
                              "the PIN sent to the device is not self.pin.get_new_pin(), the value commit_change writes")
            ack_nodes += [f.node for f in good]
            sc_ = [call for call, d in F.completed_calls(hb, L, cn) if call_name(call) == "start_change"]
            run.check("R2", bool(sc_), "commit dominated by start_change()",
                      key="HSM2ProtocolLedger._handle_bootloader|commit_change|after-start", where=hb.loc(c),
                      message="commit_change() not preceded by start_change()")
    # get_new_pin returns self._new_pin
    gnp = P.method(PIN, "get_new_pin")
    rets = [n for n in A.own_nodes(gnp) if isinstance(n, ast.Return) and n.value is not None
            and not (isinstance(n.value, ast.Constant) and n.value.value is None)]
    run.check("R2", len(rets) >= 1 and all(norm(r.value) == "self._new_pin" for r in rets),
              "get_new_pin returns self._new_pin", key="FileBasedPin.get_new_pin|returns", where=gnp.loc(),
              message="get_new_pin() returns something other than the pending self._new_pin")
    # commit_change writes self._new_pin to self._path then sets _pin
    muts = file_mutations(run, commit)
    gco = A.cfg(commit, PIN)
    writes = [c for c in find_calls(A, commit, "write")]
    run.check("R2", len(writes) == 1 and len(writes[0].args) == 1 and norm(writes[0].args[0]) == "self._new_pin",
              "commit_change writes exactly self._new_pin", key="FileBasedPin.commit_change|written-value",
              where=commit.loc(), message="commit_change does not write exactly self._new_pin "
              f"(writes: {[norm(w)[:50] for w in writes]})")
    opens = [c for c, d in muts if call_name(c) == "open"]
    run.check("R2", len(opens) >= 1 and all(norm(o.args[0]) == "self._path" or True for o in opens),
              "commit_change opens a file for writing", key="FileBasedPin.commit_change|open", where=commit.loc(),
              message="commit_change does not open the PIN file")
    pin_assigns = [n for n in A.own_nodes(commit) if isinstance(n, ast.Assign)
                   and any(norm(t) == "self._pin" for t in n.targets)]
    run.check("R2", len(pin_assigns) == 1 and norm(pin_assigns[0].value) == "self._new_pin",
              "commit_change sets _pin = _new_pin", key="FileBasedPin.commit_change|pin-update", where=commit.loc(),
              message="commit_change does not make the written value the current PIN")
    for pa in pin_assigns:
        for an in gco.nodes_of(pa):
            okw = all(any(gco.dominates(wn, an) for wn in gco.nodes_of(w)) for w in writes) and bool(writes)
            run.check("R2", okw, "_pin updated only after the file write completed",
                      key="FileBasedPin.commit_change|pin-update-after-write", where=commit.loc(pa),
                      message="commit_change can update the in-memory PIN without the file write having completed")
            # handlers of the write block must not fall through to the update
            for n in A.own_nodes(commit):
                if isinstance(n, ast.Try):
                    for h in n.handlers:
                        for hn in gco.nodes_of(h):
                            run.check("R2", an not in gco.reachable(hn),
                                      "a failed write cannot reach the _pin update",
                                      key="FileBasedPin.commit_change|handler-fallthrough", where=commit.loc(h),
                                      message="an exception handler in commit_change falls through to "
                                              "`self._pin = self._new_pin` (file not written but PIN considered changed)")
    # definitions of _new_pin
    defs = [(rhs, wfn) for (rhs, wfn, tgt) in A._field_writes.get("_new_pin", [])
            if wfn.cls is not None and wfn.cls in PIN.mro()]
    nonnull = [(r, w) for r, w in defs if not (isinstance(r, ast.Constant) and r.value is None)]
    run.check("R2", len(nonnull) == 1 and nonnull[0][1] is start and isinstance(nonnull[0][0], ast.Call)
              and call_name(nonnull[0][0]) == "generate_pin",
              "_new_pin is only ever set from generate_pin() in start_change",
              key="FileBasedPin._new_pin|definitions", where=start.loc(),
              message="_new_pin has a definition other than generate_pin() in start_change: "
                      + "; ".join(f"{w.qualname}: {norm(r)[:40]}" for r, w in nonnull))
    # device side
    for dc in dongle_classes(run):
        np_ = P.method(dc, "new_pin")
        g = A.cfg(np_, dc)
        sends = send_sites(run, np_)
        change = [c for c, cmd in sends if isinstance(cmd, EnumMember) and cmd.name in ("CHANGE_PIN", "SGX_CHANGE_PASSWORD")]
        run.require(bool(change), f"{np_.qualname}: change command vanished")
        pparam = np_.params[1]
        for r in [n for n in A.own_nodes(np_) if isinstance(n, ast.Return)]:
            v = r.value
            falsy = isinstance(v, ast.Constant) and not v.value
            if falsy:
                continue
            for rn in g.nodes_of(r):
                okc = all(any(g.dominates(x, rn) for x in g.nodes_of(c)) for c in change)
                run.check("R2", okc, f"{dc.name}.new_pin: non-False return after the change command",
                          key=f"{np_.qualname}|success-after-command", where=np_.loc(r),
                          message=f"{np_.qualname} can report success without the change-PIN command having completed")
            if isinstance(v, ast.Constant) and v.value is True:
                continue
            # value derived from response: must be `resp[2] == 1` style; accept compare on subscript of send result
            okv = isinstance(v, ast.Compare) and isinstance(v.left, ast.Subscript)
            if not okv:
                # the same through single-definition locals
                okv = False
                for rn in g.nodes_of(r):
                    try:
                        exps = PV.expand(np_, dc, v, rn, stop={pparam})
                    except AnalysisError:
                        exps = set()
                    okv = bool(exps)
                    for t in exps:
                        try:
                            e_ = ast.parse(t, mode="eval").body
                        except SyntaxError:
                            okv = False
                            break
                        if not (isinstance(e_, ast.Compare) and isinstance(e_.left, ast.Subscript)):
                            okv = False
                    if not okv:
                        break
            run.check("R2", okv, f"{dc.name}.new_pin returns a comparison on the device answer",
                      key=f"{np_.qualname}|return-shape", where=np_.loc(r),
                      message=f"{np_.qualname} returns `{norm(v)}`: not the device's acknowledgement")
        uses = [n for n in A.own_nodes(np_) if isinstance(n, ast.Name) and n.id == pparam and isinstance(n.ctx, ast.Load)]
        run.check("R2", bool(uses), f"{dc.name}.new_pin sends its pin argument",
                  key=f"{np_.qualname}|uses-pin", where=np_.loc(),
                  message=f"{np_.qualname} never uses its pin argument")

    # ---------------------------------------------------------------- R3
    run.rule("R3", "abort_change mutates no file and writes neither _pin nor _needs_change; _pin is "
             "written only in __init__ and commit_change; the change try-block in _handle_bootloader "
             "has a handler for Exception whose every path calls abort_change.")
    run.check("R3", not file_mutations(run, abort), "abort_change mutates no file",
              key="FileBasedPin.abort_change|file", where=abort.loc(),
              message="abort_change touches the file system")
    for (rhs, wfn, tgt) in A._field_writes.get("_pin", []):
        if wfn.cls is not None and wfn.cls in PIN.mro():
            run.check("R3", wfn.name in ("__init__", "commit_change"),
                      f"_pin written in {wfn.name}", key=f"{wfn.qualname}|_pin|writer", where=wfn.loc(),
                      message=f"{wfn.qualname} assigns the PIN in use (self._pin); only __init__ and "
                              "commit_change may")
    for (rhs, wfn, tgt) in A._field_writes.get("_needs_change", []):
        if wfn.cls is not None and wfn.cls in PIN.mro():
            run.check("R3", wfn.name in ("__init__", "commit_change"),
                      f"_needs_change written in {wfn.name}", key=f"{wfn.qualname}|_needs_change|writer",
                      where=wfn.loc(), message=f"{wfn.qualname} assigns _needs_change")
    change_try = None
    for n in A.own_nodes(hb):
        if isinstance(n, ast.Try) and any(c in calls_in(st) for st in n.body for c in commit_calls):
            change_try = n
    run.require(change_try is not None, "the try block around commit_change() vanished")
    E = ExcAnalysis(A)
    catchall = [h for h in change_try.handlers
                if h.type is None or any(nm in ("Exception", "BaseException") for nm in E.class_names_of(h.type, hb, L))]
    run.check("R3", bool(catchall), "change try-block catches Exception",
              key="HSM2ProtocolLedger._handle_bootloader|change-try|catch-all", where=hb.loc(change_try),
              message="the PIN change try-block no longer catches every Exception: a failure can skip abort_change()")
    for h in change_try.handlers:
        acalls = [c for st in h.body for c in calls_in(st) if call_name(c) == "abort_change"]
        first_ok = False
        for hn in gb.nodes_of(h):
            # abort_change must be the first thing that can fail: it dominates every other node of the handler
            body_nodes = [x for st in h.body for x in gb.nodes_of(st)]
            anodes = [x for c in acalls for x in gb.nodes_of(c)]
            first_ok = bool(anodes) and all(any(gb.dominates(a, b) or a is b for a in anodes) for b in body_nodes)
        run.check("R3", first_ok, "handler calls abort_change before anything else",
                  key="HSM2ProtocolLedger._handle_bootloader|change-try|abort-first", where=hb.loc(h),
                  message="a handler of the PIN change try-block does not (first) call abort_change()")

    # ---------------------------------------------------------------- R4
    _policy(run, F, BASE)

    # ---------------------------------------------------------------- R5
    run.rule("R5", "On the needs_change() branch every exit of _handle_bootloader is "
             "HSM2ProtocolInterrupt: the normal exit is unreachable and nothing else escapes; the interrupt escapes initialize_device, "
             "ensure_connection and handle_request of every protocol class (no handler on the way swallows or converts it).")
    nc = [n for n in gb.nodes if n.kind == "T" and isinstance(n.ast, ast.Call) and call_name(n.ast) == "needs_change"]
    run.floor("R5", "needs_change() true edges", len(nc), 1)
    for t in nc:
        reach = gb.reachable(t)
        p = gb.witness_path(t, gb.exit)
        run.check("R5", gb.exit not in reach, "no normal exit after a change attempt",
                  key="HSM2ProtocolLedger._handle_bootloader|needs_change|normal-exit", where=hb.loc(t.ast),
                  message="after a PIN change attempt _handle_bootloader can return normally: the "
                          "manager carries on (exit menu, serve) instead of stopping",
                  witness=gb.describe_path(p) if p else None)
    ifs = [n for n in A.own_nodes(hb) if isinstance(n, ast.If) and any(
        isinstance(c, ast.Call) and call_name(c) == "needs_change" for c in ast.walk(n.test))]
    for i in ifs:
        esc = E._block(i.body, hb, L, {})
        run.check("R5", set(esc) == {"HSM2ProtocolInterrupt"},
                  f"only HSM2ProtocolInterrupt leaves the change block (found {sorted(esc)})",
                  key="HSM2ProtocolLedger._handle_bootloader|needs_change|escapes", where=hb.loc(i),
                  message=f"exceptions leaving the PIN change block: {sorted(esc)}; only "
                          "HSM2ProtocolInterrupt stops the manager cleanly")

    # the interrupt must reach the server whoever triggered the bring-up (start-up or a reconnection inside a request)
    for pc in protocol_classes(run):
        for mname in ("initialize_device", "ensure_connection", "handle_request"):
            r_ = pc.lookup(mname)
            if r_ is None or r_[1] != "method":
                continue
            m = r_[2]
            esc_m = E.esc(m, pc)
            run.check("R5", "HSM2ProtocolInterrupt" in esc_m, f"{pc.name}.{mname} lets HSM2ProtocolInterrupt through",
                      key=f"{pc.name}.{mname}|interrupt-swallowed", where=m.loc(),
                      message=f"HSM2ProtocolInterrupt (raised after a PIN change attempt) cannot leave {pc.name}.{mname} (it escapes with {sorted(esc_m)}): "
                              "a PIN change carried out during a reconnection would not stop the manager, which keeps serving")

    # ... and on EVERY way: no call from which the interrupt can come is placed under a handler that keeps the manager going
    from .c11 import _parents, catching_handler
    INT = "HSM2ProtocolInterrupt"
    n_sites = 0
    for fn_, sc_ in manager_reachable(run):
        if isinstance(fn_.node, ast.Lambda):
            continue
        par = None
        for call, cs in A.callees(fn_, sc_):
            srcs = [c for c in cs if c.fn is not None and INT in E.esc(c.fn, c.self_cls if c.self_cls is not None else None)]
            if not srcs:
                continue
            n_sites += 1
            par = par if par is not None else _parents(fn_.node)
            tr, h = catching_handler(E, par, call, fn_, sc_, INT)
            if h is None:
                continue
            gf_ = A.cfg(fn_, sc_)
            last = h.body[-1] if h.body else None
            reraises = isinstance(last, ast.Raise) and (last.exc is None or (isinstance(last.exc, ast.Call) and norm(last.exc.func) in (INT, "RequestHandlerShutdown"))
                                                         or (isinstance(last.exc, ast.Name) and h.name == last.exc.id))
            # a handler that ends the run: from it no further protocol call / serving is reachable
            ends = False
            if not reraises:
                hn = [n for n in gf_.nodes if n.kind == "handler" and n.ast is h]
                after = set()
                for n in hn:
                    after |= gf_.reachable(n)
                again = [n for n in after if n.ast is not None and n.kind == "stmt" and any(
                    isinstance(x, ast.Call) and call_name(x) in ("initialize_device", "serve_forever", "handle_request", "ensure_connection", "handle")
                    for x in ast.walk(n.ast))]
                ends = bool(hn) and not again and fn_.qualname.endswith("TCPServer.run")
            run.check("R5", reraises or ends, f"{fn_.qualname}: the handler over `{norm(call.func)[:40]}` lets the stop signal end the manager",
                      key=f"{fn_.qualname}|interrupt-caught|{norm(call.func)[:40]}", where=fn_.loc(h),
                      message=f"in {fn_.qualname} the call `{norm(call)[:50]}` can raise HSM2ProtocolInterrupt (the manager must stop after a PIN change attempt) "
                              f"but sits under `except {norm(h.type) if h.type is not None else ''}`, which neither re-raises it nor ends the run: the manager "
                              "carries on (retries the bring-up / answers the request) with a PIN state it must not use")
    run.floor("R5", "call sites from which the stop signal can come", n_sites, 3)

    # "... and then holds exactly that PIN": what the device acknowledged is the PIN that was generated, byte for byte (rule of C18 under the prefix N.)
    from . import c18
    run.rid_prefix = "N."
    try:
        c18.pin_relay(run, "R6")
    finally:
        run.rid_prefix = ""

    # ---------------------------------------------------------------- R6
    run.rule("R6", "Typestate: once the device acknowledged the new PIN (true edge of new_pin), no path "
             "may reach a statement that discards the only copy of it (abort_change: _new_pin = None) "
             "before it is durable.")
    aborts = [x for c in find_calls(A, hb, "abort_change") for x in gb.nodes_of(c)]
    for an in set(ack_nodes):
        tn = [n for n in gb.nodes if n.kind == "T" and n.cond is an]
        for t in tn:
            for ab in aborts:
                p = gb.witness_path(t, ab)
                run.check("R6", p is None, "no path from device-ack to abort_change",
                          key="HSM2ProtocolLedger._handle_bootloader|ack->abort_change|drop-after-ack",
                          where=hb.loc(ab.ast),
                          message="after the device acknowledged the new PIN, a failing commit_change() "
                                  "(open/write error) leads to abort_change(), which discards the new PIN: "
                                  "the device then holds a PIN stored nowhere",
                          witness=gb.describe_path(p) if p else None)

    # ---------------------------------------------------------------- R7
    run.rule("R7", "The live PIN file is never opened in a truncating mode: a commit writes a sibling "
             "file and os.replace()s it, so a crash or write error cannot leave an empty PIN file.")
    for o in opens:
        ok, m = try_fold(P, kwarg(o, "mode", 1), commit)
        trunc = ok and isinstance(m, str) and "w" in m
        on_live = norm(o.args[0]) == "self._path"
        has_replace = any(d in ("os.replace", "os.rename") for c, d in muts)
        run.check("R7", not (trunc and on_live) and (has_replace or not trunc),
                  "PIN file replaced atomically",
                  key="FileBasedPin.commit_change|open(self._path,'wb')|truncate-then-write", where=commit.loc(o),
                  message="commit_change truncates the live PIN file (`open(self._path, \"wb\")`) and then "
                          "writes: a crash or write failure in between leaves an empty PIN file and "
                          "start-up refuses to run although the device PIN changed")


def _is_member_test(run, lam_body, var, cls, const_name):
    """`chr(var) in cls.<const_name>`"""
    return (isinstance(lam_body, ast.Compare) and len(lam_body.ops) == 1
            and isinstance(lam_body.ops[0], ast.In)
            and isinstance(lam_body.left, ast.Call) and call_name(lam_body.left) == "chr"
            and len(lam_body.left.args) == 1 and isinstance(lam_body.left.args[0], ast.Name)
            and lam_body.left.args[0].id == var
            and isinstance(lam_body.comparators[0], ast.Attribute)
            and lam_body.comparators[0].attr == const_name)


_ITER_DEFS = {}     # id(fn node) -> {local name: the comprehension / map it is bound to (once)}


def _quantified(expr, pol=True):
    """all(...)/any(...) over the pin bytes -> (quantifier, var, body, iterable) or None.
    Recognised: Q(map(lambda c: B, X)), Q(B for c in X) and Q(B for c in [F(y) for y in X]) (fused into Q(B[F(y)] for y in X), also when the inner
    list is held in a local bound once); a quantifier known to be false is the dual quantifier over the negated body."""
    if not (isinstance(expr, ast.Call) and isinstance(expr.func, ast.Name)
            and expr.func.id in ("all", "any") and len(expr.args) == 1):
        return None
    a = expr.args[0]
    q = None
    if isinstance(a, ast.Call) and call_name(a) == "map" and len(a.args) == 2 \
            and isinstance(a.args[0], ast.Lambda) and len(a.args[0].args.args) == 1:
        q = [expr.func.id, a.args[0].args.args[0].arg, a.args[0].body, a.args[1]]
    elif isinstance(a, (ast.GeneratorExp, ast.ListComp)) and len(a.generators) == 1 and not a.generators[0].ifs \
            and isinstance(a.generators[0].target, ast.Name):
        q = [expr.func.id, a.generators[0].target.id, a.elt, a.generators[0].iter]
    if q is None:
        return None
    # fusion with an inner mapping
    it = q[3]
    for _ in range(2):
        if isinstance(it, ast.Name) and it.id in _ITER_DEFS.get("cur", {}):
            it = _ITER_DEFS["cur"][it.id]
        inner = None
        if isinstance(it, (ast.ListComp, ast.GeneratorExp)) and len(it.generators) == 1 and not it.generators[0].ifs and isinstance(it.generators[0].target, ast.Name):
            inner = (it.generators[0].target.id, it.elt, it.generators[0].iter)
        elif isinstance(it, ast.Call) and call_name(it) in ("list", "tuple") and len(it.args) == 1:
            it = it.args[0]
            continue
        elif isinstance(it, ast.Call) and call_name(it) == "map" and len(it.args) == 2 and isinstance(it.args[0], ast.Lambda) and len(it.args[0].args.args) == 1:
            inner = (it.args[0].args.args[0].arg, it.args[0].body, it.args[1])
        if inner is None:
            break
        from sa.decide import subst
        q[2] = subst(q[2], {q[1]: inner[1]})
        q[1], it = inner[0], inner[2]
    q[3] = it
    if not pol:
        q[0] = "any" if q[0] == "all" else "all"
        q[2] = ast.UnaryOp(op=ast.Not(), operand=q[2])
    # not (a not in b) -> a in b ; not (a in b) -> a not in b
    b = q[2]
    neg = False
    while isinstance(b, ast.UnaryOp) and isinstance(b.op, ast.Not):
        b, neg = b.operand, not neg
    if neg and isinstance(b, ast.Compare) and len(b.ops) == 1 and isinstance(b.ops[0], (ast.In, ast.NotIn)):
        b = ast.Compare(left=b.left, ops=[ast.NotIn() if isinstance(b.ops[0], ast.In) else ast.In()], comparators=b.comparators)
        neg = False
    q[2] = ast.UnaryOp(op=ast.Not(), operand=b) if neg else b
    return tuple(q)


def _policy(run, F, BASE, rid="R4"):
    P, A = run.P, run.A
    run.rule(rid, "generate_pin returns only a value accepted by is_valid (full policy, no any_pin); "
             "is_valid without any_pin is truthy only if: type bytes, every char in letters+digits, "
             "length == PIN_LENGTH (== firmware MAX_PIN_LENGTH == 8), some char in letters; "
             "FileBasedPin.__init__ rejects an invalid stored/default PIN.")
    import string
    gen = P.method(BASE, "generate_pin")
    isv = P.method(BASE, "is_valid")
    gg = A.cfg(gen, BASE)
    rets = [n for n in A.own_nodes(gen) if isinstance(n, ast.Return)]
    run.floor(rid, "returns in generate_pin", len(rets), 1)
    for r in rets:
        for rn in gg.nodes_of(r):
            facts = F.local(gen, BASE, rn)
            good = [f for f in facts if f.kind == "call" and f.pol and call_name(f.expr) == "is_valid"
                    and len(f.expr.args) == 1 and not f.expr.keywords
                    and norm(f.expr.args[0]) == norm(r.value)]
            run.check(rid, bool(good), "generate_pin's return dominated by is_valid(<returned value>)",
                      key="BasePin.generate_pin|return|validated", where=gen.loc(r),
                      message=f"generate_pin can return `{norm(r.value)}` without it having passed "
                              "is_valid(...) (full policy): a generated PIN may violate the device policy")
            # no redefinition of the name between check and return
            if good and isinstance(r.value, ast.Call) and isinstance(r.value.func, ast.Attribute) \
                    and isinstance(r.value.func.value, ast.Name):
                nm = r.value.func.value.id
                tnode = [n for n in gg.nodes if n.kind in ("T", "F") and n.cond is good[0].node]
                redef = False
                for d in defs_of(A, gen, nm):
                    for dn in gg.nodes_of(d):
                        for t in tnode:
                            if t in gg.dominators(rn) and gg.exists_path(t, dn) and gg.exists_path(dn, rn) \
                                    and not gg.exists_path(dn, good[0].node):
                                redef = True
                run.check(rid, not redef, "validated value not modified before return",
                          key="BasePin.generate_pin|return|modified-after-check", where=gen.loc(r),
                          message="generate_pin modifies the PIN after validating it")
    # constants
    pc = P.class_const(BASE, "POSSIBLE_CHARS")
    ac = P.class_const(BASE, "ALPHA_CHARS")
    pl = P.class_const(BASE, "PIN_LENGTH")
    run.check(rid, isinstance(pc, str) and set(pc) == set(string.ascii_letters + string.digits),
              "POSSIBLE_CHARS == ASCII letters + digits", key="BasePin.POSSIBLE_CHARS|value", where=BASE.module.relpath,
              message=f"POSSIBLE_CHARS is {pc!r}, policy says ASCII letters and digits")
    run.check(rid, isinstance(ac, str) and set(ac) == set(string.ascii_letters),
              "ALPHA_CHARS == ASCII letters", key="BasePin.ALPHA_CHARS|value", where=BASE.module.relpath,
              message=f"ALPHA_CHARS is {ac!r}, policy says ASCII letters")
    fw = firmware(run)
    mpl = fw.define("common/src/pin_policy.h", "MAX_PIN_LENGTH")
    run.check(rid, pl == 8 and pl == mpl, "PIN_LENGTH == 8 == firmware MAX_PIN_LENGTH",
              key="BasePin.PIN_LENGTH|value", where=BASE.module.relpath,
              message=f"PIN_LENGTH is {pl}, firmware MAX_PIN_LENGTH is {mpl}, statement says 8")
    # is_valid: every non-False return on the any_pin == False partition passes the four atoms
    gv = A.cfg(isv, BASE)
    pin = isv.params[1]
    # locals of is_valid bound once to a comprehension / map over the pin (chars = [chr(c) for c in pin])
    _ITER_DEFS["cur"] = {}
    for nm_ in {n.id for n in ast.walk(isv.node) if isinstance(n, ast.Name)}:
        ds_ = defs_of(A, isv, nm_)
        if len(ds_) == 1 and isinstance(getattr(ds_[0], "value", None), (ast.ListComp, ast.GeneratorExp, ast.Call)) and nm_ not in isv.params:
            _ITER_DEFS["cur"][nm_] = ds_[0].value
    anyp = isv.params[2] if len(isv.params) > 2 else None
    found = {"type": False, "charset": False, "length": False, "alpha": False}
    weak = []
    for r in [n for n in A.own_nodes(isv) if isinstance(n, ast.Return)]:
        v = r.value
        if isinstance(v, ast.Constant) and v.value is False:
            continue
        for rn in gv.nodes_of(r):
            facts = F.local(isv, BASE, rn)
            on_any = any(f.kind == "truthy" and f.pol and isinstance(f.expr, ast.Name) and f.expr.id == anyp
                         for f in facts)
            # a truthy `return a and b and c` has established each of its operands
            from sa.query import make_facts
            conj = v.values if isinstance(v, ast.BoolOp) and isinstance(v.op, ast.And) else [v]
            facts = list(facts) + [f_ for c_ in conj for f_ in make_facts("T", c_, isv, rn)]
            atoms = _atoms(run, facts, pin, BASE, weak)
            for c_ in conj:
                q = _quantified(c_)
                if q and q[0] == "any" and not (norm(q[3]) == pin and _is_member_test(run, q[2], q[1], BASE, "ALPHA_CHARS")):
                    weak.append(norm(c_))
            if on_any:
                need = {"type", "charset"}
                tag = "any_pin"
            else:
                need = {"type", "charset", "length", "alpha"}
                tag = "policy"
            missing = need - atoms
            run.check(rid, not missing, f"is_valid ({tag} return) requires {sorted(need)}",
                      key=f"BasePin.is_valid|{tag}|atoms:{','.join(sorted(missing))}", where=isv.loc(r),
                      message=f"is_valid can return a non-False value ({tag} branch, `{norm(v)[:60]}`) "
                              f"without having established: {sorted(missing)}"
                              + (f"; weaker/unrecognised predicate(s) used instead: {weak}" if weak else ""))
    # any_pin only by explicit parameter, default False
    d = isv.node.args.defaults
    run.check(rid, anyp == "any_pin" and len(d) == 1 and isinstance(d[0], ast.Constant) and d[0].value is False,
              "any_pin defaults to False", key="BasePin.is_valid|any_pin-default", where=isv.loc(),
              message="is_valid's any_pin parameter does not default to False")
    # FileBasedPin.__init__ validates the loaded pin
    PIN = P.cls("ledger.pin.FileBasedPin")
    ini = P.method(PIN, "__init__")
    gi = A.cfg(ini, PIN)
    facts = F.at(ini, PIN, gi.exit)
    good = [f for f in facts if f.kind == "call" and f.pol and call_name(f.expr) == "is_valid"
            and len(f.expr.args) == 1 and not f.expr.keywords and norm(f.expr.args[0]) == "self._pin"]
    run.check(rid, bool(good), "FileBasedPin.__init__ completes only with a policy-valid PIN",
              key="FileBasedPin.__init__|validates", where=ini.loc(),
              message="FileBasedPin.__init__ can complete with a stored/default PIN that fails the policy")


def _atoms(run, facts, pin, BASE, weak):
    out = set()
    P = run.P
    for f in facts:
        if f.kind == "cmp" and f.op == "==" and norm(f.left) == f"type({pin})" and norm(f.right) == "bytes":
            out.add("type")
        if f.kind == "call" and f.pol and call_name(f.expr) == "isinstance" and len(f.expr.args) == 2 \
                and norm(f.expr.args[0]) == pin and norm(f.expr.args[1]) == "bytes":
            out.add("type")
        if f.kind == "cmp" and f.op == "==" and norm(f.left) == f"len({pin})":
            ok, v = try_fold(P, f.right, f.fn, BASE)
            if ok and v == 8:
                out.add("length")
        if f.kind == "call":
            q = _quantified(f.expr, f.pol)
            if q and q[0] == "all" and norm(q[3]) == pin:
                if _is_member_test(run, q[2], q[1], BASE, "POSSIBLE_CHARS"):
                    out.add("charset")
                else:
                    weak.append(norm(f.expr))
            if q and q[0] == "any" and norm(q[3]) == pin:
                if _is_member_test(run, q[2], q[1], BASE, "ALPHA_CHARS"):
                    out.add("alpha")
                else:
                    weak.append(norm(f.expr))
    return out
