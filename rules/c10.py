"""C10 - the PIN kept on disk always opens the device."""
import ast
import re
from sa.model import AnalysisError, Unknown, norm, unwrap, EnumMember
from sa.prov import Prov
from sa.query import Facts, call_name, find_calls, defs_of, try_fold, calls_in, kwarg
from sa.exc import ExcAnalysis
from .c06 import _strip
from .common import (dongle_classes, is_dongle_call, firmware, manager_reachable, send_sites, protocol_classes)

TECHNIQUE = ("who-may-write effect analysis over the call graph, dominator rules on "
             "exception-aware CFGs (crash/IO faults as exception edges), typestate path query "
             "GENERATED->ACKED->DURABLE, atom recognition of the PIN policy against firmware pin_policy")
EXPLANATION = (
    "Static analysis of /repo's current source (nothing executed). Decides: which functions can "
    "mutate files in the manager (only FileBasedPin.commit_change, called only from "
    "_handle_bootloader; FileBasedPin.new has no production caller); the commit site is dominated "
    "by the device acknowledging new_pin(get_new_pin()) and writes that same value; abort_change "
    "writes neither file nor current PIN; the generator returns only values accepted by the full "
    "policy (8 chars from letters+digits, one letter; equal to firmware MAX_PIN_LENGTH); after a "
    "change attempt every exit of bring-up is HSM2ProtocolInterrupt; typestate 'no drop after ack' "
    "the PIN object's state machine (changing / needs-change) as one decision table per method, __init__ loading the file's PIN or the default; is_valid accepts everything the policy allows; "
    "and 'atomic durable write' with crash points modelled as exception edges. Does not decide "
    "real crash timing or file-system behaviour."
)

WRITE_OS = {"remove", "unlink", "rename", "replace", "truncate", "rmdir", "removedirs", "write"}


def file_mutations(run, fn):
    """[(call, description)] for calls in fn that create/modify/delete files."""
    out = []
    for n in run.A.own_nodes(fn):
        if not isinstance(n, ast.Call):
            continue
        nm = call_name(n)
        if nm == "open" and isinstance(n.func, ast.Name):
            mode = kwarg(n, "mode", 1)
            if mode is None:
                continue
            ok, m = try_fold(run.P, mode, fn)
            if not ok or not isinstance(m, str):
                out.append((n, "open(mode=?)"))
            elif any(c in m for c in "wax+"):
                out.append((n, f"open(mode={m!r})"))
        elif isinstance(n.func, ast.Attribute) and isinstance(n.func.value, ast.Name) \
                and n.func.value.id in ("os", "shutil") and nm in WRITE_OS | {"move", "copy", "copyfile", "rmtree"}:
            out.append((n, f"{n.func.value.id}.{nm}"))
        elif nm in ("write_text", "write_bytes", "unlink", "touch") and isinstance(n.func, ast.Attribute):
            out.append((n, f".{nm}()"))
    return out


def run(run):
    P, A = run.P, run.A
    F = Facts(A)
    PV = Prov(A)
    L = P.cls("ledger.protocol.HSM2ProtocolLedger")
    PIN = P.cls("ledger.pin.FileBasedPin")
    BASE = P.cls("ledger.pin.BasePin")
    hb = P.method(L, "_handle_bootloader")
    gb = A.cfg(hb, L)
    commit = P.method(PIN, "commit_change")
    abort = P.method(PIN, "abort_change")
    start = P.method(PIN, "start_change")

    # ---------------------------------------------------------------- R1
    run.rule("R1", "File-mutating calls (open in a write mode, os.remove/rename/replace, Path.write_*) "
             "in manager-reachable code and in ledger/pin.py occur only in FileBasedPin.commit_change "
             "and FileBasedPin.new; new() has no production caller; commit_change() is called only "
             "from _handle_bootloader.")
    scope = {f.qualname: f for f, _ in manager_reachable(run)}
    for f in P.all_functions:
        if f.module.name == "ledger.pin":
            scope[f.qualname] = f
    allowed = {commit.qualname, P.method(PIN, "new").qualname}
    writers = []
    for f in scope.values():
        for call, desc in file_mutations(run, f):
            writers.append((f, call, desc))
            run.check("R1", f.qualname in allowed, f"{desc} in {f.qualname} is a sanctioned PIN-file writer",
                      key=f"{f.qualname}|{desc}|writer", where=f.loc(call),
                      message=f"{f.qualname} mutates a file ({desc}: `{norm(call)[:70]}`) but only "
                              "commit_change/new may write the PIN file")
    run.floor("R1", "file-mutating calls in scope", len(writers), 2)
    run.extra["analysed_scope_functions"] = len(scope)
    new_callers = A.call_sites_of(lambda c: c.fn is P.method(PIN, "new"))
    run.check("R1", not new_callers, "FileBasedPin.new has no production caller",
              key="FileBasedPin.new|callers", where=P.method(PIN, "new").loc(),
              message="FileBasedPin.new (writes a fresh PIN file without the device) is called from "
                      + ", ".join(f.qualname for f, _, _ in new_callers))
    cc = A.call_sites_of(lambda c: c.fn is commit)
    run.floor("R1", "commit_change call sites", len(cc), 1)
    for f, call, _ in cc:
        run.check("R1", f is hb, "commit_change called only from _handle_bootloader",
                  key=f"{f.qualname}|commit_change|caller", where=f.loc(call),
                  message=f"commit_change() is also called from {f.qualname}")

    # ---------------------------------------------------------------- R2
    run.rule("R2", "commit_change() in _handle_bootloader is dominated by the true edge of "
             "hsm2dongle.new_pin(self.pin.get_new_pin()); get_new_pin returns the pending _new_pin, "
             "commit writes that same field to the PIN path and only then makes it current; _new_pin's "
             "only non-None definition is generate_pin(); both dongle new_pin implementations report "
             "success only after the change command completed and send the given pin.")
    commit_calls = [c for f, c, _ in cc if f is hb]
    ack_nodes = []
    for c in commit_calls:
        for cn in gb.nodes_of(c):
            facts = F.local(hb, L, cn)
            acks = [f for f in facts if f.kind == "call" and f.pol and
                    is_dongle_call(run, f.expr, hb, L, {"new_pin"})]
            good = []
            for f in acks:
                if len(f.expr.args) != 1 or f.expr.keywords:
                    continue
                try:
                    av = PV.expand_consistent(hb, L, f.expr.args[0], f.node if f.node is not None else cn)
                except AnalysisError:
                    av = {norm(f.expr.args[0])}
                if {_strip(x) for x in av} == {"self.pin.get_new_pin()"}:
                    good.append(f)
            run.check("R2", bool(good), "commit dominated by new_pin(get_new_pin()) true",
                      key="HSM2ProtocolLedger._handle_bootloader|commit_change|after-ack", where=hb.loc(c),
                      message="commit_change() is reachable without the device having acknowledged "
                              "new_pin(self.pin.get_new_pin()): the PIN file could change although "
                              "the device still has the old PIN" if not acks else
                              "the PIN sent to the device is not self.pin.get_new_pin(), the value commit_change writes")
            ack_nodes += [f.node for f in good]
            sc_ = [call for call, d in F.completed_calls(hb, L, cn) if call_name(call) == "start_change"]
            run.check("R2", bool(sc_), "commit dominated by start_change()",
                      key="HSM2ProtocolLedger._handle_bootloader|commit_change|after-start", where=hb.loc(c),
                      message="commit_change() not preceded by start_change()")
    # get_new_pin returns self._new_pin
    gnp = P.method(PIN, "get_new_pin")
    rets = [n for n in A.own_nodes(gnp) if isinstance(n, ast.Return) and n.value is not None
            and not (isinstance(n.value, ast.Constant) and n.value.value is None)]
    run.check("R2", len(rets) >= 1 and all(norm(r.value) == "self._new_pin" for r in rets),
              "get_new_pin returns self._new_pin", key="FileBasedPin.get_new_pin|returns", where=gnp.loc(),
              message="get_new_pin() returns something other than the pending self._new_pin")
    # commit_change writes self._new_pin to self._path then sets _pin
    muts = file_mutations(run, commit)
    gco = A.cfg(commit, PIN)
    writes = [c for c in find_calls(A, commit, "write")]
    run.check("R2", len(writes) == 1 and len(writes[0].args) == 1 and norm(writes[0].args[0]) == "self._new_pin",
              "commit_change writes exactly self._new_pin", key="FileBasedPin.commit_change|written-value",
              where=commit.loc(), message="commit_change does not write exactly self._new_pin "
              f"(writes: {[norm(w)[:50] for w in writes]})")
    opens = [c for c, d in muts if call_name(c) == "open"]
    run.check("R2", len(opens) >= 1 and all(norm(o.args[0]) == "self._path" or True for o in opens),
              "commit_change opens a file for writing", key="FileBasedPin.commit_change|open", where=commit.loc(),
              message="commit_change does not open the PIN file")
    pin_assigns = [n for n in A.own_nodes(commit) if isinstance(n, ast.Assign)
                   and any(norm(t) == "self._pin" for t in n.targets)]
    run.check("R2", len(pin_assigns) == 1 and norm(pin_assigns[0].value) == "self._new_pin",
              "commit_change sets _pin = _new_pin", key="FileBasedPin.commit_change|pin-update", where=commit.loc(),
              message="commit_change does not make the written value the current PIN")
    for pa in pin_assigns:
        for an in gco.nodes_of(pa):
            okw = all(any(gco.dominates(wn, an) for wn in gco.nodes_of(w)) for w in writes) and bool(writes)
            run.check("R2", okw, "_pin updated only after the file write completed",
                      key="FileBasedPin.commit_change|pin-update-after-write", where=commit.loc(pa),
                      message="commit_change can update the in-memory PIN without the file write having completed")
            # handlers of the write block must not fall through to the update
            for n in A.own_nodes(commit):
                if isinstance(n, ast.Try):
                    for h in n.handlers:
                        for hn in gco.nodes_of(h):
                            run.check("R2", an not in gco.reachable(hn),
                                      "a failed write cannot reach the _pin update",
                                      key="FileBasedPin.commit_change|handler-fallthrough", where=commit.loc(h),
                                      message="an exception handler in commit_change falls through to "
                                              "`self._pin = self._new_pin` (file not written but PIN considered changed)")
    # definitions of _new_pin
    defs = [(rhs, wfn) for (rhs, wfn, tgt) in A._field_writes.get("_new_pin", [])
            if wfn.cls is not None and wfn.cls in PIN.mro()]
    nonnull = [(r, w) for r, w in defs if not (isinstance(r, ast.Constant) and r.value is None)]
    run.check("R2", len(nonnull) == 1 and nonnull[0][1] is start and isinstance(nonnull[0][0], ast.Call)
              and call_name(nonnull[0][0]) == "generate_pin",
              "_new_pin is only ever set from generate_pin() in start_change",
              key="FileBasedPin._new_pin|definitions", where=start.loc(),
              message="_new_pin has a definition other than generate_pin() in start_change: "
                      + "; ".join(f"{w.qualname}: {norm(r)[:40]}" for r, w in nonnull))
    # device side
    for dc in dongle_classes(run):
        np_ = P.method(dc, "new_pin")
        g = A.cfg(np_, dc)
        sends = send_sites(run, np_)
        change = [c for c, cmd in sends if isinstance(cmd, EnumMember) and cmd.name in ("CHANGE_PIN", "SGX_CHANGE_PASSWORD")]
        run.require(bool(change), f"{np_.qualname}: change command vanished")
        pparam = np_.params[1]
        for r in [n for n in A.own_nodes(np_) if isinstance(n, ast.Return)]:
            v = r.value
            falsy = isinstance(v, ast.Constant) and not v.value
            if falsy:
                continue
            for rn in g.nodes_of(r):
                okc = all(any(g.dominates(x, rn) for x in g.nodes_of(c)) for c in change)
                run.check("R2", okc, f"{dc.name}.new_pin: non-False return after the change command",
                          key=f"{np_.qualname}|success-after-command", where=np_.loc(r),
                          message=f"{np_.qualname} can report success without the change-PIN command having completed")
            if isinstance(v, ast.Constant) and v.value is True:
                continue
            # value derived from response: must be `resp[2] == 1` style; accept compare on subscript of send result
            okv = isinstance(v, ast.Compare) and isinstance(v.left, ast.Subscript)
            if not okv:
                # the same through single-definition locals
                okv = False
                for rn in g.nodes_of(r):
                    try:
                        exps = PV.expand(np_, dc, v, rn, stop={pparam})
                    except AnalysisError:
                        exps = set()
                    okv = bool(exps)
                    if exps and exps <= {"True", "False"}:
                        # a verdict variable set to a constant on each path: the dominance check above is what matters
                        break
                    for t in exps:
                        try:
                            e_ = ast.parse(t, mode="eval").body
                        except SyntaxError:
                            okv = False
                            break
                        if not (isinstance(e_, ast.Compare) and isinstance(e_.left, ast.Subscript)):
                            okv = False
                    if not okv:
                        break
            run.check("R2", okv, f"{dc.name}.new_pin returns a comparison on the device answer",
                      key=f"{np_.qualname}|return-shape", where=np_.loc(r),
                      message=f"{np_.qualname} returns `{norm(v)}`: not the device's acknowledgement")
        uses = [n for n in A.own_nodes(np_) if isinstance(n, ast.Name) and n.id == pparam and isinstance(n.ctx, ast.Load)]
        run.check("R2", bool(uses), f"{dc.name}.new_pin sends its pin argument",
                  key=f"{np_.qualname}|uses-pin", where=np_.loc(),
                  message=f"{np_.qualname} never uses its pin argument")

    # ---------------------------------------------------------------- R3
    run.rule("R3", "abort_change mutates no file and writes neither _pin nor _needs_change; _pin is "
             "written only in __init__ and commit_change; the change try-block in _handle_bootloader "
             "has a handler for Exception whose every path calls abort_change.")
    run.check("R3", not file_mutations(run, abort), "abort_change mutates no file",
              key="FileBasedPin.abort_change|file", where=abort.loc(),
              message="abort_change touches the file system")
    for (rhs, wfn, tgt) in A._field_writes.get("_pin", []):
        if wfn.cls is not None and wfn.cls in PIN.mro():
            run.check("R3", wfn.name in ("__init__", "commit_change"),
                      f"_pin written in {wfn.name}", key=f"{wfn.qualname}|_pin|writer", where=wfn.loc(),
                      message=f"{wfn.qualname} assigns the PIN in use (self._pin); only __init__ and "
                              "commit_change may")
    for (rhs, wfn, tgt) in A._field_writes.get("_needs_change", []):
        if wfn.cls is not None and wfn.cls in PIN.mro():
            run.check("R3", wfn.name in ("__init__", "commit_change"),
                      f"_needs_change written in {wfn.name}", key=f"{wfn.qualname}|_needs_change|writer",
                      where=wfn.loc(), message=f"{wfn.qualname} assigns _needs_change")
    change_try = None
    for n in A.own_nodes(hb):
        if isinstance(n, ast.Try) and any(c in calls_in(st) for st in n.body for c in commit_calls):
            change_try = n
    run.require(change_try is not None, "the try block around commit_change() vanished")
    E = ExcAnalysis(A)
    catchall = [h for h in change_try.handlers
                if h.type is None or any(nm in ("Exception", "BaseException") for nm in E.class_names_of(h.type, hb, L))]
    run.check("R3", bool(catchall), "change try-block catches Exception",
              key="HSM2ProtocolLedger._handle_bootloader|change-try|catch-all", where=hb.loc(change_try),
              message="the PIN change try-block no longer catches every Exception: a failure can skip abort_change()")
    for h in change_try.handlers:
        acalls = [c for st in h.body for c in calls_in(st) if call_name(c) == "abort_change"]
        first_ok = False
        for hn in gb.nodes_of(h):
            # abort_change must be the first thing that can fail: it dominates every other node of the handler
            body_nodes = [x for st in h.body for x in gb.nodes_of(st)]
            anodes = [x for c in acalls for x in gb.nodes_of(c)]
            first_ok = bool(anodes) and all(any(gb.dominates(a, b) or a is b for a in anodes) for b in body_nodes)
        run.check("R3", first_ok, "handler calls abort_change before anything else",
                  key="HSM2ProtocolLedger._handle_bootloader|change-try|abort-first", where=hb.loc(h),
                  message="a handler of the PIN change try-block does not (first) call abort_change()")

    # ---------------------------------------------------------------- R4
    _policy(run, F, BASE)
    _pin_states(run, PIN)
    # "the PIN file changes only after the device has acknowledged a new PIN": what new_pin of each dongle class reports (rule R7 of C18, prefix D.)
    from . import c18
    run.rid_prefix = "D."
    try:
        c18.new_pin_verdicts(run, "R7")
    finally:
        run.rid_prefix = ""

    # ---------------------------------------------------------------- R5
    run.rule("R5", "On the needs_change() branch every exit of _handle_bootloader is "
             "HSM2ProtocolInterrupt: the normal exit is unreachable and nothing else escapes; the interrupt escapes initialize_device, "
             "ensure_connection and handle_request of every protocol class (no handler on the way swallows or converts it).")
    nc = [n for n in gb.nodes if n.kind == "T" and isinstance(n.ast, ast.Call) and call_name(n.ast) == "needs_change"]
    run.floor("R5", "needs_change() true edges", len(nc), 1)
    for t in nc:
        reach = gb.reachable(t)
        p = gb.witness_path(t, gb.exit)
        run.check("R5", gb.exit not in reach, "no normal exit after a change attempt",
                  key="HSM2ProtocolLedger._handle_bootloader|needs_change|normal-exit", where=hb.loc(t.ast),
                  message="after a PIN change attempt _handle_bootloader can return normally: the "
                          "manager carries on (exit menu, serve) instead of stopping",
                  witness=gb.describe_path(p) if p else None)
    ifs = [n for n in A.own_nodes(hb) if isinstance(n, ast.If) and any(
        isinstance(c, ast.Call) and call_name(c) == "needs_change" for c in ast.walk(n.test))]
    for i in ifs:
        esc = E._block(i.body, hb, L, {})
        run.check("R5", set(esc) == {"HSM2ProtocolInterrupt"},
                  f"only HSM2ProtocolInterrupt leaves the change block (found {sorted(esc)})",
                  key="HSM2ProtocolLedger._handle_bootloader|needs_change|escapes", where=hb.loc(i),
                  message=f"exceptions leaving the PIN change block: {sorted(esc)}; only "
                          "HSM2ProtocolInterrupt stops the manager cleanly")

    # the interrupt must reach the server whoever triggered the bring-up (start-up or a reconnection inside a request)
    for pc in protocol_classes(run):
        for mname in ("initialize_device", "ensure_connection", "handle_request"):
            r_ = pc.lookup(mname)
            if r_ is None or r_[1] != "method":
                continue
            m = r_[2]
            esc_m = E.esc(m, pc)
            run.check("R5", "HSM2ProtocolInterrupt" in esc_m, f"{pc.name}.{mname} lets HSM2ProtocolInterrupt through",
                      key=f"{pc.name}.{mname}|interrupt-swallowed", where=m.loc(),
                      message=f"HSM2ProtocolInterrupt (raised after a PIN change attempt) cannot leave {pc.name}.{mname} (it escapes with {sorted(esc_m)}): "
                              "a PIN change carried out during a reconnection would not stop the manager, which keeps serving")

    # ... and on EVERY way: no call from which the interrupt can come is placed under a handler that keeps the manager going
    from .c11 import _parents, catching_handler
    INT = "HSM2ProtocolInterrupt"
    n_sites = 0
    for fn_, sc_ in manager_reachable(run):
        if isinstance(fn_.node, ast.Lambda):
            continue
        par = None
        for call, cs in A.callees(fn_, sc_):
            srcs = [c for c in cs if c.fn is not None and INT in E.esc(c.fn, c.self_cls if c.self_cls is not None else None)]
            if not srcs:
                continue
            n_sites += 1
            par = par if par is not None else _parents(fn_.node)
            tr, h = catching_handler(E, par, call, fn_, sc_, INT)
            if h is None:
                continue
            gf_ = A.cfg(fn_, sc_)
            last = h.body[-1] if h.body else None
            reraises = isinstance(last, ast.Raise) and (last.exc is None or (isinstance(last.exc, ast.Call) and norm(last.exc.func) in (INT, "RequestHandlerShutdown"))
                                                         or (isinstance(last.exc, ast.Name) and h.name == last.exc.id))
            # a handler that ends the run: from it no further protocol call / serving is reachable
            ends = False
            if not reraises:
                hn = [n for n in gf_.nodes if n.kind == "handler" and n.ast is h]
                after = set()
                for n in hn:
                    after |= gf_.reachable(n)
                again = [n for n in after if n.ast is not None and n.kind == "stmt" and any(
                    isinstance(x, ast.Call) and call_name(x) in ("initialize_device", "serve_forever", "handle_request", "ensure_connection", "handle")
                    for x in ast.walk(n.ast))]
                ends = bool(hn) and not again and fn_.qualname.endswith("TCPServer.run")
            run.check("R5", reraises or ends, f"{fn_.qualname}: the handler over `{norm(call.func)[:40]}` lets the stop signal end the manager",
                      key=f"{fn_.qualname}|interrupt-caught|{norm(call.func)[:40]}", where=fn_.loc(h),
                      message=f"in {fn_.qualname} the call `{norm(call)[:50]}` can raise HSM2ProtocolInterrupt (the manager must stop after a PIN change attempt) "
                              f"but sits under `except {norm(h.type) if h.type is not None else ''}`, which neither re-raises it nor ends the run: the manager "
                              "carries on (retries the bring-up / answers the request) with a PIN state it must not use")
    run.floor("R5", "call sites from which the stop signal can come", n_sites, 3)

    # "... and then holds exactly that PIN": what the device acknowledged is the PIN that was generated, byte for byte (rule of C18 under the prefix N.)
    from . import c18
    run.rid_prefix = "N."
    try:
        c18.pin_relay(run, "R6")
    finally:
        run.rid_prefix = ""

    # ---------------------------------------------------------------- R6
    run.rule("R6", "Typestate: once the device acknowledged the new PIN (true edge of new_pin), no path "
             "may reach a statement that discards the only copy of it (abort_change: _new_pin = None) "
             "before it is durable.")
    aborts = [x for c in find_calls(A, hb, "abort_change") for x in gb.nodes_of(c)]
    for an in set(ack_nodes):
        tn = [n for n in gb.nodes if n.kind == "T" and n.cond is an]
        for t in tn:
            for ab in aborts:
                p = gb.witness_path(t, ab)
                run.check("R6", p is None, "no path from device-ack to abort_change",
                          key="HSM2ProtocolLedger._handle_bootloader|ack->abort_change|drop-after-ack",
                          where=hb.loc(ab.ast),
                          message="after the device acknowledged the new PIN, a failing commit_change() "
                                  "(open/write error) leads to abort_change(), which discards the new PIN: "
                                  "the device then holds a PIN stored nowhere",
                          witness=gb.describe_path(p) if p else None)

    # ---------------------------------------------------------------- R7
    run.rule("R7", "The live PIN file is never opened in a truncating mode: a commit writes a sibling "
             "file and os.replace()s it, so a crash or write error cannot leave an empty PIN file.")
    for o in opens:
        ok, m = try_fold(P, kwarg(o, "mode", 1), commit)
        trunc = ok and isinstance(m, str) and "w" in m
        on_live = norm(o.args[0]) == "self._path"
        has_replace = any(d in ("os.replace", "os.rename") for c, d in muts)
        run.check("R7", not (trunc and on_live) and (has_replace or not trunc),
                  "PIN file replaced atomically",
                  key="FileBasedPin.commit_change|open(self._path,'wb')|truncate-then-write", where=commit.loc(o),
                  message="commit_change truncates the live PIN file (`open(self._path, \"wb\")`) and then "
                          "writes: a crash or write failure in between leaves an empty PIN file and "
                          "start-up refuses to run although the device PIN changed")


def _is_member_test(run, lam_body, var, cls, const_name):
    """`chr(var) in cls.<const_name>`"""
    return (isinstance(lam_body, ast.Compare) and len(lam_body.ops) == 1
            and isinstance(lam_body.ops[0], ast.In)
            and isinstance(lam_body.left, ast.Call) and call_name(lam_body.left) == "chr"
            and len(lam_body.left.args) == 1 and isinstance(lam_body.left.args[0], ast.Name)
            and lam_body.left.args[0].id == var
            and isinstance(lam_body.comparators[0], ast.Attribute)
            and lam_body.comparators[0].attr == const_name)


def _set_pred(e, pin):
    """The character-class tests written on sets of byte values: -> ("CHARSET" | "ALPHA", value of e when the class test holds) or None.
       set(pin) <= S(POSSIBLE) / set(pin).issubset(S | map(ord, POSSIBLE)) / S.issuperset(pin)      every byte is a possible character
       S(ALPHA).isdisjoint(pin) / set(pin).isdisjoint(S | map(ord, ALPHA))                            no byte is a letter (ALPHA is its negation)
    with S(X) = set / frozenset of map(ord, cls.X), {ord(c) for c in cls.X} or cls.X.encode(); locals bound once stand for their value."""
    defs = _ITER_DEFS.get("cur", {})

    def rs(x, depth=0):
        while isinstance(x, ast.Name) and x.id in defs and depth < 4:
            x, depth = defs[x.id], depth + 1
        return x

    def wrapped(x):
        x = rs(x)
        if isinstance(x, ast.Call) and isinstance(x.func, ast.Name) and x.func.id in ("set", "frozenset") and len(x.args) == 1 and not x.keywords:
            return rs(x.args[0])
        return None

    def pinset(x, need_wrap):
        w = wrapped(x)
        if w is not None:
            return isinstance(w, ast.Name) and w.id == pin
        x = rs(x)
        return (not need_wrap) and isinstance(x, ast.Name) and x.id == pin

    def codes(x):
        """x = the byte values of cls.<NAME> as an iterable -> NAME"""
        x = rs(x)
        if isinstance(x, ast.Call) and call_name(x) == "map" and len(x.args) == 2 and norm(x.args[0]) == "ord" and isinstance(x.args[1], ast.Attribute):
            return x.args[1].attr
        if isinstance(x, ast.Call) and call_name(x) == "encode" and isinstance(x.func, ast.Attribute) and isinstance(x.func.value, ast.Attribute) and not x.args:
            return x.func.value.attr
        if isinstance(x, (ast.SetComp, ast.GeneratorExp, ast.ListComp)) and len(x.generators) == 1 and not x.generators[0].ifs \
                and isinstance(x.generators[0].target, ast.Name) and isinstance(x.generators[0].iter, ast.Attribute) \
                and norm(x.elt) == f"ord({x.generators[0].target.id})":
            return x.generators[0].iter.attr
        return None

    def charset(x, need_wrap):
        w = wrapped(x)
        if w is not None:
            return codes(w)
        x = rs(x)
        if isinstance(x, ast.SetComp):
            return codes(x)
        return None if need_wrap else codes(x)
    e = rs(e)
    if isinstance(e, ast.Compare) and len(e.ops) == 1 and isinstance(e.ops[0], (ast.LtE, ast.GtE)):
        a, b = (e.left, e.comparators[0]) if isinstance(e.ops[0], ast.LtE) else (e.comparators[0], e.left)
        if pinset(a, True) and charset(b, True) == "POSSIBLE_CHARS":
            return ("CHARSET", True)
    if isinstance(e, ast.Call) and isinstance(e.func, ast.Attribute) and len(e.args) == 1 and not e.keywords:
        recv, arg, m = e.func.value, e.args[0], e.func.attr
        if m == "issubset" and pinset(recv, True) and charset(arg, False) == "POSSIBLE_CHARS":
            return ("CHARSET", True)
        if m == "issuperset" and charset(recv, True) == "POSSIBLE_CHARS" and pinset(arg, False):
            return ("CHARSET", True)
        if m == "isdisjoint" and ((pinset(recv, True) and charset(arg, False) == "ALPHA_CHARS") or (charset(recv, True) == "ALPHA_CHARS" and pinset(arg, False))):
            return ("ALPHA", False)
    return None


_ITER_DEFS = {}     # id(fn node) -> {local name: the comprehension / map it is bound to (once)}


def _quantified(expr, pol=True):
    """all(...)/any(...) over the pin bytes -> (quantifier, var, body, iterable) or None.
    Recognised: Q(map(lambda c: B, X)), Q(B for c in X) and Q(B for c in [F(y) for y in X]) (fused into Q(B[F(y)] for y in X), also when the inner
    list is held in a local bound once); a quantifier known to be false is the dual quantifier over the negated body."""
    if not (isinstance(expr, ast.Call) and isinstance(expr.func, ast.Name)
            and expr.func.id in ("all", "any") and len(expr.args) == 1):
        return None
    a = expr.args[0]
    q = None
    if isinstance(a, ast.Call) and call_name(a) == "map" and len(a.args) == 2 \
            and isinstance(a.args[0], ast.Lambda) and len(a.args[0].args.args) == 1:
        q = [expr.func.id, a.args[0].args.args[0].arg, a.args[0].body, a.args[1]]
    elif isinstance(a, (ast.GeneratorExp, ast.ListComp)) and len(a.generators) == 1 and not a.generators[0].ifs \
            and isinstance(a.generators[0].target, ast.Name):
        q = [expr.func.id, a.generators[0].target.id, a.elt, a.generators[0].iter]
    if q is None:
        return None
    # fusion with an inner mapping
    it = q[3]
    for _ in range(2):
        if isinstance(it, ast.Name) and it.id in _ITER_DEFS.get("cur", {}):
            it = _ITER_DEFS["cur"][it.id]
        inner = None
        if isinstance(it, (ast.ListComp, ast.GeneratorExp)) and len(it.generators) == 1 and not it.generators[0].ifs and isinstance(it.generators[0].target, ast.Name):
            inner = (it.generators[0].target.id, it.elt, it.generators[0].iter)
        elif isinstance(it, ast.Call) and call_name(it) in ("list", "tuple") and len(it.args) == 1:
            it = it.args[0]
            continue
        elif isinstance(it, ast.Call) and call_name(it) == "map" and len(it.args) == 2 and isinstance(it.args[0], ast.Lambda) and len(it.args[0].args.args) == 1:
            inner = (it.args[0].args.args[0].arg, it.args[0].body, it.args[1])
        if inner is None:
            break
        from sa.decide import subst
        q[2] = subst(q[2], {q[1]: inner[1]})
        q[1], it = inner[0], inner[2]
    q[3] = it
    if not pol:
        q[0] = "any" if q[0] == "all" else "all"
        q[2] = ast.UnaryOp(op=ast.Not(), operand=q[2])
    # not (a not in b) -> a in b ; not (a in b) -> a not in b
    b = q[2]
    neg = False
    while isinstance(b, ast.UnaryOp) and isinstance(b.op, ast.Not):
        b, neg = b.operand, not neg
    if neg and isinstance(b, ast.Compare) and len(b.ops) == 1 and isinstance(b.ops[0], (ast.In, ast.NotIn)):
        b = ast.Compare(left=b.left, ops=[ast.NotIn() if isinstance(b.ops[0], ast.In) else ast.In()], comparators=b.comparators)
        neg = False
    q[2] = ast.UnaryOp(op=ast.Not(), operand=b) if neg else b
    return tuple(q)


def _pin_states(run, PIN):
    """R8: the PIN object's state machine, one decision table per method."""
    P, A = run.P, run.A
    from sa.decide import Walker, cmp_parts, completions, subst
    run.rule("R8", "State machine of FileBasedPin over (CH = _changing, NC = _needs_change), each method decided on its decision table: __init__ loads the stored PIN "
             "(file content, stripped) when the PIN file exists and the configured default otherwise, sets NC = force_change or no file, CH = False; start_change does "
             "nothing when CH or not NC, otherwise CH = True and _new_pin = generate_pin(); get_new_pin answers _new_pin iff CH (None otherwise); commit_change does "
             "nothing when not CH, otherwise writes _new_pin to the PIN path and then _pin = _new_pin, _new_pin = None, CH = False, NC = False; abort_change does "
             "nothing when not CH, otherwise _new_pin = None, CH = False (and leaves _pin, NC alone); needs_change answers NC, get_pin answers _pin.")

    noret = {}

    def table(mname, atoms_extra=None, through_with=True):
        fn = P.method(PIN, mname)
        g = A.cfg(fn, PIN)

        def atom(e):
            if isinstance(e, ast.Attribute) and isinstance(e.value, ast.Name) and e.value.id == "self" and e.attr in ("_changing", "_needs_change"):
                return ("CH" if e.attr == "_changing" else "NC", True)
            if atoms_extra is not None:
                return atoms_extra(e, fn)
            return None
        out = []
        W = Walker(A, fn, PIN, atom, max_leaves=128, through_with=through_with)
        for lf in W.walk(g.entry):
            # a call of a method of the class that never returns (`self._error(msg)`: log and raise) ends the path
            dead = False
            for k_, st_, v_ in lf.effects:
                if k_ == "expr" and isinstance(v_, ast.Call) and isinstance(v_.func, ast.Attribute) and isinstance(v_.func.value, ast.Name) and v_.func.value.id == "self":
                    r_ = PIN.lookup(v_.func.attr)
                    if r_ is not None and r_[1] == "method" and r_[2].qualname not in noret:
                        m_ = r_[2]
                        gm_ = A.cfg(m_, PIN)
                        try:
                            noret[m_.qualname] = all(l_.kind == "raise" for l_ in Walker(A, m_, PIN, lambda e: None, max_leaves=32).walk(gm_.entry))
                        except AnalysisError:
                            noret[m_.qualname] = False
                    if r_ is not None and r_[1] == "method" and noret.get(r_[2].qualname):
                        dead = True
            if dead:
                out.append((lf, dict(lf.pc), [], [], "raise"))
                continue
            stores = []
            for k_, st_, v_ in lf.effects:
                if k_ == "assign":
                    for t_ in st_.targets:
                        if isinstance(t_, ast.Attribute) and isinstance(t_.value, ast.Name) and t_.value.id == "self":
                            stores.append((t_.attr, _strip(norm(lf.deep(st_.value)))))
            calls = [_strip(norm(lf.deep(v_))) for k_, st_, v_ in lf.effects if k_ in ("expr", "with") and isinstance(v_, ast.Call) and call_name(v_) not in ("info", "debug", "error", "warning")]
            ret = None
            if lf.kind == "return":
                ret = _strip(norm(lf.deep(lf.node.ast.value))) if lf.node.ast.value is not None else "None"
            elif lf.kind == "exit":
                ret = "None"
            out.append((lf, dict(lf.pc), stores, calls, ret if lf.kind in ("return", "exit") else lf.kind))
        return fn, out

    def expect(mname, fn, rows, atoms, want):
        n = 0
        for lf, pc, stores, calls, ret in rows:
            unknown = sorted(k[1:] for k in pc if isinstance(k, str) and k.startswith("?"))
            where = fn.loc(lf.node.ast) if lf.node.ast is not None else fn.loc()
            run.check("R8", not unknown, f"{mname} decides on the change state only", key=f"FileBasedPin.{mname}|extra|{';'.join(unknown)[:50]}", where=where,
                      message=f"FileBasedPin.{mname} decides on `{'`, `'.join(unknown)[:100]}`, which is not part of the PIN change state")
            if unknown:
                continue
            for val in completions({k: b for k, b in pc.items() if k in atoms}, atoms):
                n += 1
                w = want(val)
                got = (sorted(stores), calls, ret)
                desc = ", ".join(f"{a}={'T' if val[a] else 'F'}" for a in atoms)
                run.check("R8", got == (sorted(w[0]), w[1], w[2]) and all(a in pc for a in w[3]), f"{mname} [{desc}]", key=f"FileBasedPin.{mname}|{desc}", where=where,
                          message=f"FileBasedPin.{mname}, case [{desc}]: stores {sorted(stores)}, calls {calls}, result `{ret}`; the PIN change protocol requires stores {sorted(w[0])}, "
                                  f"calls {w[1]}, result `{w[2]}` (deciding on {w[3]}): the PIN in use, the pending PIN or the need to change it would get out of step with the device")
        run.floor("R8", f"cases of FileBasedPin.{mname}", n, 1)

    fn, rows = table("start_change")
    expect("start_change", fn, rows, ["CH", "NC"],
           lambda v: ([], [], "None", ["CH"] if v["CH"] else ["CH", "NC"]) if (v["CH"] or not v["NC"]) else ([("_changing", "True"), ("_new_pin", "self.generate_pin()")], [], "None", ["CH", "NC"]))
    fn, rows = table("get_new_pin")
    expect("get_new_pin", fn, rows, ["CH"], lambda v: ([], [], "self._new_pin" if v["CH"] else "None", ["CH"]))
    fn, rows = table("abort_change")
    expect("abort_change", fn, rows, ["CH"], lambda v: ([("_changing", "False"), ("_new_pin", "None")] if v["CH"] else [], [], "None", ["CH"]))
    fn, rows = table("needs_change")
    expect("needs_change", fn, rows, [], lambda v: ([], [], "self._needs_change", []))
    fn, rows = table("get_pin")
    expect("get_pin", fn, rows, [], lambda v: ([], [], "self._pin", []))
    # commit_change: the write and the state update (R2 / R7 decide the order and the mode of the write)
    fn, rows = table("commit_change")
    n = 0
    for lf, pc, stores, calls, ret in rows:
        where = fn.loc(lf.node.ast) if lf.node.ast is not None else fn.loc()
        unknown = sorted(k[1:] for k in pc if isinstance(k, str) and k.startswith("?"))
        run.check("R8", not unknown, "commit_change decides on the change state only", key=f"FileBasedPin.commit_change|extra|{';'.join(unknown)[:50]}", where=where,
                  message=f"FileBasedPin.commit_change decides on `{'`, `'.join(unknown)[:100]}`")
        if unknown:
            continue
        n += 1
        ch = pc.get("CH")
        if ch is False:
            ok = not stores and not calls and ret == "None"
            w = "nothing (no change in progress)"
        else:
            want_st = sorted([("_pin", "self._new_pin"), ("_new_pin", "None"), ("_changing", "False"), ("_needs_change", "False")])
            wrote = [c for c in calls if re.fullmatch(r"\w+\.write\(self\._new_pin\)", c) or ".write(self._new_pin)" in c]
            to_path = any(c.startswith("open(self._path,") for c in calls) or any(c.startswith("os.replace(") and c.rstrip(")").endswith("self._path") for c in calls)
            ok = ch is True and sorted(stores) == want_st and len(wrote) >= 1 and to_path and ret == "None" \
                and [s_[0] for s_ in stores].index("_pin") < [s_[0] for s_ in stores].index("_new_pin")
            w = f"write _new_pin to the PIN path (self._path), then {want_st}"
        run.check("R8", ok and set(k for k in pc) <= {"CH"}, f"commit_change [CH={'T' if ch else 'F'}]", key=f"FileBasedPin.commit_change|{ch}", where=where,
                  message=f"FileBasedPin.commit_change, case [CH={ch}]: stores {stores}, calls {calls[:3]}, result `{ret}`; expected {w}")
    run.floor("R8", "cases of FileBasedPin.commit_change", n, 2)
    # __init__
    ini = P.method(PIN, "__init__")
    pathp, defp, forcep = ini.params[1], ini.params[2], ini.params[3]

    def ini_atoms(e, fn):
        x = e
        if isinstance(x, ast.Name) and x.id == forcep:
            return ("FORCE", True)
        if isinstance(x, ast.Call) and _strip(norm(x)) == f"os.path.isfile({pathp})":
            return ("EXISTS", True)
        if isinstance(x, ast.Call) and call_name(x) == "is_valid":
            return ("VALID", True)
        return None
    fn, rows = table("__init__", ini_atoms)
    n = 0
    for lf, pc, stores, calls, ret in rows:
        where = fn.loc(lf.node.ast) if lf.node.ast is not None else fn.loc()
        unknown = sorted(k[1:] for k in pc if isinstance(k, str) and k.startswith("?"))
        run.check("R8", not unknown, "__init__ decides on the file's existence, the PIN's validity and force_change only", key=f"FileBasedPin.__init__|extra|{';'.join(unknown)[:50]}", where=where,
                  message=f"FileBasedPin.__init__ decides on `{'`, `'.join(unknown)[:100]}`")
        if unknown or ret in ("raise",):
            continue
        ex = pc.get("EXISTS")
        st = dict(stores)
        n += 1
        want_pin = "file.read().strip()" if ex else defp
        pin_src = st.get("_pin", "")
        okp = (ex is True and re.fullmatch(rf"open\({pathp}, 'rb?'\)\.read\(\)\.strip\(\)", pin_src) is not None) or (ex is False and pin_src == defp)
        for val in completions({k: b for k, b in pc.items() if k == "FORCE"}, ["FORCE"]):
            want_nc = "True" if (val["FORCE"] or not ex) else "False"
            nc = st.get("_needs_change", "")
            # force_change or not exists, written with the atoms decided on this path
            def bev(e_):
                # the stored flag as a boolean expression over force_change and the file's existence
                if isinstance(e_, ast.Constant) and isinstance(e_.value, bool):
                    return e_.value
                if isinstance(e_, ast.Name) and e_.id == forcep:
                    return val["FORCE"]
                if isinstance(e_, ast.Call) and _strip(norm(e_)) == f"os.path.isfile({pathp})":
                    return ex
                if isinstance(e_, ast.UnaryOp) and isinstance(e_.op, ast.Not):
                    x_ = bev(e_.operand)
                    return None if x_ is None else not x_
                if isinstance(e_, ast.BoolOp):
                    xs_ = [bev(x_) for x_ in e_.values]
                    if any(x_ is None for x_ in xs_):
                        return None
                    return all(xs_) if isinstance(e_.op, ast.And) else any(xs_)
                return None
            try:
                okn = bev(ast.parse(nc, mode="eval").body) is (want_nc == "True")
            except SyntaxError:
                okn = False
            run.check("R8", ex is not None and okp and okn and st.get("_changing") == "False" and pc.get("VALID") is True,
                      f"__init__ [file {'exists' if ex else 'missing'}, force_change={val['FORCE']}]", key=f"FileBasedPin.__init__|{ex}|{val['FORCE']}", where=where,
                      message=f"FileBasedPin.__init__, case [PIN file {'exists' if ex else 'missing'}, force_change={val['FORCE']}]: _pin = `{pin_src}`, _needs_change = `{nc}`, "
                              f"_changing = `{st.get('_changing')}`, validity checked: {pc.get('VALID')}; expected _pin = {'the stripped file content' if ex else 'the default PIN'}, "
                              f"_needs_change = {want_nc}, _changing = False, after is_valid(_pin): the manager would unlock with, or overwrite, the wrong PIN")
    run.floor("R8", "cases of FileBasedPin.__init__", n, 2)


def _policy(run, F, BASE, rid="R4"):
    P, A = run.P, run.A
    run.rule(rid, "generate_pin returns only a value accepted by is_valid (full policy, no any_pin); "
             "is_valid without any_pin is truthy only if: type bytes, every char in letters+digits, "
             "length == PIN_LENGTH (== firmware MAX_PIN_LENGTH == 8), some char in letters; "
             "FileBasedPin.__init__ rejects an invalid stored/default PIN.")
    import string
    gen = P.method(BASE, "generate_pin")
    isv = P.method(BASE, "is_valid")
    gg = A.cfg(gen, BASE)
    rets = [n for n in A.own_nodes(gen) if isinstance(n, ast.Return)]
    run.floor(rid, "returns in generate_pin", len(rets), 1)
    for r in rets:
        for rn in gg.nodes_of(r):
            facts = F.local(gen, BASE, rn)
            good = [f for f in facts if f.kind == "call" and f.pol and call_name(f.expr) == "is_valid"
                    and len(f.expr.args) == 1 and not f.expr.keywords
                    and norm(f.expr.args[0]) == norm(r.value)]
            run.check(rid, bool(good), "generate_pin's return dominated by is_valid(<returned value>)",
                      key="BasePin.generate_pin|return|validated", where=gen.loc(r),
                      message=f"generate_pin can return `{norm(r.value)}` without it having passed "
                              "is_valid(...) (full policy): a generated PIN may violate the device policy")
            # no redefinition of the name between check and return
            if good and isinstance(r.value, ast.Call) and isinstance(r.value.func, ast.Attribute) \
                    and isinstance(r.value.func.value, ast.Name):
                nm = r.value.func.value.id
                tnode = [n for n in gg.nodes if n.kind in ("T", "F") and n.cond is good[0].node]
                redef = False
                for d in defs_of(A, gen, nm):
                    for dn in gg.nodes_of(d):
                        for t in tnode:
                            if t in gg.dominators(rn) and gg.exists_path(t, dn) and gg.exists_path(dn, rn) \
                                    and not gg.exists_path(dn, good[0].node):
                                redef = True
                run.check(rid, not redef, "validated value not modified before return",
                          key="BasePin.generate_pin|return|modified-after-check", where=gen.loc(r),
                          message="generate_pin modifies the PIN after validating it")
    # constants
    pc = P.class_const(BASE, "POSSIBLE_CHARS")
    ac = P.class_const(BASE, "ALPHA_CHARS")
    pl = P.class_const(BASE, "PIN_LENGTH")
    run.check(rid, isinstance(pc, str) and set(pc) == set(string.ascii_letters + string.digits),
              "POSSIBLE_CHARS == ASCII letters + digits", key="BasePin.POSSIBLE_CHARS|value", where=BASE.module.relpath,
              message=f"POSSIBLE_CHARS is {pc!r}, policy says ASCII letters and digits")
    run.check(rid, isinstance(ac, str) and set(ac) == set(string.ascii_letters),
              "ALPHA_CHARS == ASCII letters", key="BasePin.ALPHA_CHARS|value", where=BASE.module.relpath,
              message=f"ALPHA_CHARS is {ac!r}, policy says ASCII letters")
    fw = firmware(run)
    mpl = fw.define("common/src/pin_policy.h", "MAX_PIN_LENGTH")
    run.check(rid, pl == 8 and pl == mpl, "PIN_LENGTH == 8 == firmware MAX_PIN_LENGTH",
              key="BasePin.PIN_LENGTH|value", where=BASE.module.relpath,
              message=f"PIN_LENGTH is {pl}, firmware MAX_PIN_LENGTH is {mpl}, statement says 8")
    # is_valid: every non-False return on the any_pin == False partition passes the four atoms
    gv = A.cfg(isv, BASE)
    pin = isv.params[1]
    # locals of is_valid bound once to a comprehension / map over the pin (chars = [chr(c) for c in pin])
    _ITER_DEFS["cur"] = {}
    for nm_ in {n.id for n in ast.walk(isv.node) if isinstance(n, ast.Name)}:
        ds_ = defs_of(A, isv, nm_)
        if len(ds_) == 1 and isinstance(getattr(ds_[0], "value", None), (ast.ListComp, ast.GeneratorExp, ast.Call)) and nm_ not in isv.params:
            _ITER_DEFS["cur"][nm_] = ds_[0].value
    anyp = isv.params[2] if len(isv.params) > 2 else None
    found = {"type": False, "charset": False, "length": False, "alpha": False}
    weak = []
    for r in [n for n in A.own_nodes(isv) if isinstance(n, ast.Return)]:
        v = r.value
        if isinstance(v, ast.Constant) and v.value is False:
            continue
        for rn in gv.nodes_of(r):
            facts = F.local(isv, BASE, rn)
            on_any = any(f.kind == "truthy" and f.pol and isinstance(f.expr, ast.Name) and f.expr.id == anyp
                         for f in facts)
            # a truthy `return a and b and c` has established each of its operands
            from sa.query import make_facts
            conj = v.values if isinstance(v, ast.BoolOp) and isinstance(v.op, ast.And) else [v]
            facts = list(facts) + [f_ for c_ in conj for f_ in make_facts("T", c_, isv, rn)]
            atoms = _atoms(run, facts, pin, BASE, weak)
            for c_ in conj:
                q = _quantified(c_)
                if q and q[0] == "any" and not (norm(q[3]) == pin and _is_member_test(run, q[2], q[1], BASE, "ALPHA_CHARS")):
                    weak.append(norm(c_))
            if on_any:
                need = {"type", "charset"}
                tag = "any_pin"
            else:
                need = {"type", "charset", "length", "alpha"}
                tag = "policy"
            missing = need - atoms
            run.check(rid, not missing, f"is_valid ({tag} return) requires {sorted(need)}",
                      key=f"BasePin.is_valid|{tag}|atoms:{','.join(sorted(missing))}", where=isv.loc(r),
                      message=f"is_valid can return a non-False value ({tag} branch, `{norm(v)[:60]}`) "
                              f"without having established: {sorted(missing)}"
                              + (f"; weaker/unrecognised predicate(s) used instead: {weak}" if weak else ""))
    # ... and the converse: is_valid rejects nothing else (a PIN the policy allows - or, with any_pin, any alphanumeric bytes - is accepted)
    from sa.decide import Walker, cmp_parts, completions

    def patom(e):
        cp = cmp_parts(e)
        if cp is not None:
            l, op, r = cp
            if op in ("==", "!=") and norm(l) == f"type({pin})" and norm(r) == "bytes":
                return ("TYPE", op == "==")
            if op in ("==", "!=") and norm(l) == f"len({pin})":
                ok_, v_ = try_fold(P, r, isv, BASE)
                if ok_ and v_ == 8:
                    return ("LEN", op == "==")
        if isinstance(e, ast.Name) and e.id == anyp:
            return ("ANY", True)
        if isinstance(e, ast.Call) and call_name(e) == "isinstance" and len(e.args) == 2 and norm(e.args[0]) == pin and norm(e.args[1]) == "bytes":
            return ("TYPE", True)
        sp_ = _set_pred(e, pin)
        if sp_ is not None:
            return sp_
        for pol_ in (True,):
            q = _quantified(e, pol_)
            if q and norm(q[3]) == pin:
                if q[0] == "all" and _is_member_test(run, q[2], q[1], BASE, "POSSIBLE_CHARS"):
                    return ("CHARSET", True)
                if q[0] == "any" and _is_member_test(run, q[2], q[1], BASE, "ALPHA_CHARS"):
                    return ("ALPHA", True)
        return None
    PATOMS = ["TYPE", "CHARSET", "ANY", "LEN", "ALPHA"]
    ncomp = 0
    Wp = Walker(A, isv, BASE, patom, max_leaves=256)
    for lf in Wp.walk(gv.entry):
        if lf.kind != "return" or lf.node.ast.value is None:
            continue
        unknown = sorted(k[1:] for k in lf.pc if isinstance(k, str) and k.startswith("?"))
        v_ = lf.deep(lf.node.ast.value)

        def bev(e_, val):
            if isinstance(e_, ast.Constant):
                return bool(e_.value)
            if isinstance(e_, ast.UnaryOp) and isinstance(e_.op, ast.Not):
                x_ = bev(e_.operand, val)
                return None if x_ is None else not x_
            if isinstance(e_, ast.BoolOp):
                xs_ = [bev(x_, val) for x_ in e_.values]
                if isinstance(e_.op, ast.And):
                    return False if any(x_ is False for x_ in xs_) else (None if any(x_ is None for x_ in xs_) else True)
                return True if any(x_ is True for x_ in xs_) else (None if any(x_ is None for x_ in xs_) else False)
            a_ = patom(e_)
            return (val[a_[0]] == a_[1]) if a_ is not None else None
        if unknown:
            continue        # the `must` half above names what such a condition fails to establish
        for val in completions({k: b for k, b in lf.pc.items() if k in PATOMS}, PATOMS):
            got = bev(v_, val)
            want_ = val["TYPE"] and val["CHARSET"] and (val["ANY"] or (val["LEN"] and val["ALPHA"]))
            ncomp += 1
            if want_ and got is not True:
                desc = ", ".join(f"{a}={'T' if val[a] else 'F'}" for a in PATOMS)
                run.check(rid, False, "is_valid accepts what the policy allows", key=f"BasePin.is_valid|rejects|{desc}", where=isv.loc(lf.node.ast),
                          message=f"is_valid, case [{desc}]: returns `{norm(v_)[:50]}` ({got}) for a PIN the policy allows" + (" once any_pin is given" if val["ANY"] else "") +
                                  ": the operator's (or the generated) PIN would be refused and the operation not carried out")
    run.floor(rid, "is_valid acceptance cases", ncomp, 16)
    # any_pin only by explicit parameter, default False
    d = isv.node.args.defaults
    run.check(rid, anyp == "any_pin" and len(d) == 1 and isinstance(d[0], ast.Constant) and d[0].value is False,
              "any_pin defaults to False", key="BasePin.is_valid|any_pin-default", where=isv.loc(),
              message="is_valid's any_pin parameter does not default to False")
    # FileBasedPin.__init__ validates the loaded pin
    PIN = P.cls("ledger.pin.FileBasedPin")
    ini = P.method(PIN, "__init__")
    gi = A.cfg(ini, PIN)
    facts = F.at(ini, PIN, gi.exit)
    good = [f for f in facts if f.kind == "call" and f.pol and call_name(f.expr) == "is_valid"
            and len(f.expr.args) == 1 and not f.expr.keywords and norm(f.expr.args[0]) == "self._pin"]
    run.check(rid, bool(good), "FileBasedPin.__init__ completes only with a policy-valid PIN",
              key="FileBasedPin.__init__|validates", where=ini.loc(),
              message="FileBasedPin.__init__ can complete with a stored/default PIN that fails the policy")


def _atoms(run, facts, pin, BASE, weak):
    out = set()
    P = run.P
    for f in facts:
        if f.kind == "cmp" and f.op == "==" and norm(f.left) == f"type({pin})" and norm(f.right) == "bytes":
            out.add("type")
        if f.kind == "call" and f.pol and call_name(f.expr) == "isinstance" and len(f.expr.args) == 2 \
                and norm(f.expr.args[0]) == pin and norm(f.expr.args[1]) == "bytes":
            out.add("type")
        if f.kind == "cmp" and f.op == "==" and norm(f.left) == f"len({pin})":
            ok, v = try_fold(P, f.right, f.fn, BASE)
            if ok and v == 8:
                out.add("length")
        # the same class tests on sets of byte values
        sp_ = None
        if f.kind == "call":
            sp_ = _set_pred(f.expr, pin)
            sp_ = (sp_[0], sp_[1] == f.pol) if sp_ is not None else None
        elif f.kind == "cmp" and f.op in ("<=", ">="):
            sp_ = _set_pred(ast.Compare(left=f.left, ops=[ast.LtE() if f.op == "<=" else ast.GtE()], comparators=[f.right]), pin)
        if sp_ == ("CHARSET", True):
            out.add("charset")
        if sp_ == ("ALPHA", True):
            out.add("alpha")
        if f.kind == "call":
            q = _quantified(f.expr, f.pol)
            if q and q[0] == "all" and norm(q[3]) == pin:
                if _is_member_test(run, q[2], q[1], BASE, "POSSIBLE_CHARS"):
                    out.add("charset")
                else:
                    weak.append(norm(f.expr))
            if q and q[0] == "any" and norm(q[3]) == pin:
                if _is_member_test(run, q[2], q[1], BASE, "ALPHA_CHARS"):
                    out.add("alpha")
                else:
                    weak.append(norm(f.expr))
    return out
