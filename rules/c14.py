"""C14 - clearing of signature placeholders: the frame around the transformation."""
import ast
from sa.model import AnalysisError, Unknown, norm, unwrap
from sa.query import Facts, call_name, find_calls, try_fold, calls_in, defs_of
from sa.prov import Prov
from sa.exc import ExcAnalysis
from .common import device_touching
from .c06 import _strip
from .c11 import _parents, catching_handler
from sa.canon import canon_list, canon_list_text, fold_consts
from sa.decide import Walker, completions, values_at, completed_on_all_paths

TECHNIQUE = ('effect confinement (which attributes of the transaction the unsign path may write, only locally '
             'created lists mutated), canonical list forms for the rebuilt inputs and the blanked script, decision '
             'table of get_unsigned_tx, path-sensitive value of what is relayed to the device and path-sensitive '
             'must-precede of every device call by the completed decoding, decision walk of the decoding handler '
             'for the -102 mapping')
EXPLANATION = (
    "Static analysis of /repo's current source (nothing executed). Decides only the frame around the "
    "transformation: the unsign path writes nothing but tx.vin and, on a copy obtained with "
    "CMutableTxIn.from_txin(txin) (which keeps outpoint and sequence), the scriptSig; the new script is "
    "CScript([0] * (len(ops) - 1) + [ops[-1]]) with ops = list(<copy>.scriptSig); get_unsigned_tx returns the "
    "serialisation of that same transaction object; sign_authorized receives exactly that value; the decoding "
    "sits in a handler for Exception that answers (ERROR_CODE_INVALID_MESSAGE,), and both dominate "
    "ensure_connection and every dongle call. NOT decided: canonical push encoding, idempotence and "
    "independence from existing signatures - those are python-bitcoinlib's CScript semantics, and that library "
    "is not even installed here."
)


def _single_def(PV, fn, cls, name, at):
    rds = PV.reaching(fn, cls, name, at)
    return rds[0] if len(rds) == 1 else None


def _fresh_list(PV, fn, cls, name, at):
    """Is local `name` (at node) only ever a list built inside this function (display, comprehension, list(..))?"""
    ds = PV.defs(fn, cls).get(name, [])
    if not ds or name in fn.params:
        return False
    for d in ds:
        if d.kind == "aug":
            continue
        v = d.value
        if not (isinstance(v, (ast.List, ast.ListComp)) or (isinstance(v, ast.Call) and isinstance(v.func, ast.Name) and v.func.id == "list")
                or (isinstance(v, ast.BinOp) and canon_list(v) is not None)):
            return False
    return True


def scriptsig_rules(run, PV):
    """R1/R2 for comm.bitcoin (shared with C01 under a prefix)."""
    P, A = run.P, run.A
    un = P.func("comm.bitcoin._unsign_tx")
    cl = P.func("comm.bitcoin._clear_all_but_last_op_from_scriptsig")
    gu = P.func("comm.bitcoin.get_unsigned_tx")
    ds = P.func("comm.bitcoin._deserialize_tx")

    # ---------------------------------------------------------------- R1
    run.rule("R1", "Effect confinement: on the unsign path the only attribute written on the deserialised transaction is .vin, whose "
             "new value is one _clear_all_but_last_op_from_scriptsig(input) per element of the old tx.vin, in order (list(map(..)), a "
             "comprehension or an append loop are the same thing); _unsign_tx returns that transaction object, obtained from "
             "_deserialize_tx(<its parameter>); the clearing function writes only .scriptSig of a copy obtained with "
             "bitcoin.core.CMutableTxIn.from_txin(<its parameter>) (keeps outpoint and sequence) and returns that copy; only lists "
             "created locally are mutated; _deserialize_tx = bitcoin.core.CMutableTransaction.deserialize(bytes.fromhex(raw)).")

    def effects(fn):
        """[(kind, target AST, value AST|None, stmt)] for attribute/subscript stores and mutating calls"""
        out = []
        g = A.cfg(fn, None)
        for n in A.own_nodes(fn):
            tg = []
            val = None
            if isinstance(n, ast.Assign):
                tg, val = n.targets, n.value
            elif isinstance(n, (ast.AugAssign, ast.AnnAssign)):
                tg, val = [n.target], n.value
            elif isinstance(n, ast.Delete):
                tg = n.targets
            for t in tg:
                if isinstance(t, (ast.Attribute, ast.Subscript)):
                    out.append(("store", t, val, n))
            if isinstance(n, ast.Call) and isinstance(n.func, ast.Attribute) and n.func.attr in (
                    "append", "extend", "insert", "pop", "remove", "clear", "sort", "reverse", "__setattr__", "update", "setdefault"):
                recv = n.func.value
                cns = g.nodes_of(n)
                if isinstance(recv, ast.Name) and cns and all(_fresh_list(PV, fn, None, recv.id, cn) for cn in cns):
                    continue
                out.append(("mutate", recv, None, n))
            if isinstance(n, ast.Call) and isinstance(n.func, ast.Name) and n.func.id in ("setattr", "delattr"):
                out.append(("mutate", n, None, n))
        return out

    g = A.cfg(un, None)
    eu = effects(un)
    vin = [e for e in eu if e[0] == "store" and isinstance(e[1], ast.Attribute) and e[1].attr == "vin" and isinstance(e[1].value, ast.Name)]
    other = [e for e in eu if e not in vin]
    run.check("R1", len(vin) == 1 and not other, "_unsign_tx writes only <tx>.vin", key="_unsign_tx|writes", where=un.loc(),
              message=f"_unsign_tx writes {[norm(e[3])[:60] for e in eu]}: anything beyond tx.vin (version, outputs, lock time) changes what the device signs")
    p = un.params[0]
    if len(vin) == 1:
        _, tgt, val, st = vin[0]
        txv = tgt.value.id
        for cn in g.nodes_of(st):
            forms = set()
            for x in PV.expand_consistent(un, None, val, cn, stop=(txv,)):
                cl_ = canon_list_text(x)
                forms.add(tuple(cl_) if cl_ is not None else ("?" + x,))
            want = (f"map(_clear_all_but_last_op_from_scriptsig(ELEM({txv}.vin)))",)
            forms = {v for v in forms if not any(o != v and o[:len(v)] == v and all(x.startswith("map(") for x in o[len(v):]) for o in forms)}
            run.check("R1", forms == {want}, "every input goes through the clearing function, in order", key="_unsign_tx|vin-expr", where=un.loc(st),
                      message=f"tx.vin is rebuilt as {sorted(forms)}; expected one _clear_all_but_last_op_from_scriptsig(input) per input, in order")
            d = _single_def(PV, un, None, txv, cn)
            run.check("R1", d is not None and d.value is not None and norm(d.value) == f"_deserialize_tx({p})", "tx is the deserialised request transaction",
                      key="_unsign_tx|tx-source", where=un.loc(), message=f"`{txv}` is not _deserialize_tx({p})")
        rr = [n for n in A.own_nodes(un) if isinstance(n, ast.Return)]
        okr = bool(rr)
        for r in rr:
            for rn in g.nodes_of(r):
                vals = PV.expand_consistent(un, None, r.value, rn, stop=(txv,))
                okr = okr and vals == {txv} and any(g.dominates(x, rn) for x in g.nodes_of(st))
        run.check("R1", okr, "returns that transaction, after the rewrite", key="_unsign_tx|return", where=un.loc(),
                  message="_unsign_tx does not return the transaction it modified (or returns before rewriting the inputs)")
    gc = A.cfg(cl, None)
    ec = effects(cl)
    ssig = [e for e in ec if e[0] == "store" and isinstance(e[1], ast.Attribute) and e[1].attr == "scriptSig" and isinstance(e[1].value, ast.Name)]
    otherc = [e for e in ec if e not in ssig]
    run.check("R1", len(ssig) == 1 and not otherc, "clearing writes only the copy's scriptSig", key="_clear|writes", where=cl.loc(),
              message=f"_clear_all_but_last_op_from_scriptsig writes {[norm(e[3])[:60] for e in ec]}")
    cp = cl.params[0]
    copyv = ssig[0][1].value.id if len(ssig) == 1 else None
    okc = False
    if copyv:
        for cn in gc.nodes_of(ssig[0][3]):
            d = _single_def(PV, cl, None, copyv, cn)
            okc = d is not None and d.value is not None and norm(d.value) == f"bitcoin.core.CMutableTxIn.from_txin({cp})"
    run.check("R1", okc, "the input is copied with from_txin (outpoint and sequence preserved)", key="_clear|copy", where=cl.loc(),
              message="the object whose scriptSig is rewritten is not a bitcoin.core.CMutableTxIn.from_txin(<input>) copy: the request's own "
                      "input would be modified, or fields such as nSequence reset to their defaults")
    rr = [n for n in A.own_nodes(cl) if isinstance(n, ast.Return)]
    okr = bool(rr) and copyv is not None
    for r in rr:
        for rn in gc.nodes_of(r):
            okr = okr and PV.expand_consistent(cl, None, r.value, rn, stop=(copyv,)) == {copyv} \
                and any(gc.dominates(x, rn) for x in gc.nodes_of(ssig[0][3]))
    run.check("R1", okr, "returns the copy, after the rewrite", key="_clear|return", where=cl.loc(),
              message="_clear_all_but_last_op_from_scriptsig does not return the modified copy")
    gd = A.cfg(ds, None)
    dvals = set()
    for r in [n for n in A.own_nodes(ds) if isinstance(n, ast.Return)]:
        for rn in gd.nodes_of(r):
            dvals |= {_strip(x) for x in PV.expand_consistent(ds, None, r.value, rn)}
    wantd = _strip(f"bitcoin.core.CMutableTransaction.deserialize(bytes.fromhex({ds.params[0]}))")
    run.check("R1", dvals == {wantd}, "the whole request transaction is deserialised", key="_deserialize_tx|expr", where=ds.loc(),
              message=f"_deserialize_tx returns {sorted(dvals)[:2]}; expected `{wantd}` (which also rejects trailing bytes)")

    # ---------------------------------------------------------------- R2
    run.rule("R2", "Shape: the new script is bitcoin.core.CScript(L) where L is len(ops)-1 copies of 0 followed by ops[-1], with ops = "
             "list(<copy>.scriptSig) (constants folded; [0]*(n-1), a comprehension over ops[:-1] or an append are the same list); an "
             "empty script makes ops[-1] raise (kept: it is what becomes -102); get_unsigned_tx(raw, hex) returns "
             "_unsign_tx(raw).serialize().hex() when hex is truthy and _unsign_tx(raw).serialize() otherwise.")
    if copyv:
        st = ssig[0][3]
        locs = set(PV.defs(cl, None)) | set(cl.params)

        def text(e):
            return norm(fold_consts(P, e, cl, None, locals_=locs))
        for cn in gc.nodes_of(st):
            got = set()
            for x in PV.expand_consistent(cl, None, ssig[0][2], cn, stop=(copyv,)):
                e = ast.parse(x, mode="eval").body
                if isinstance(e, ast.Call) and norm(e.func) == "bitcoin.core.CScript" and len(e.args) == 1 and not e.keywords:
                    segs = canon_list(e.args[0], text)
                    got.add(tuple(segs) if segs is not None else ("?" + x,))
                else:
                    got.add(("?" + x,))
            ops = f"list({copyv}.scriptSig)"
            want = (f"rep(0, len({ops})-1)", f"item({ops}[-1])")
            run.check("R2", got == {want}, "script = zeros for all but the last op, then the last op", key="_clear|script-expr",
                      where=cl.loc(st), message=f"the cleared script is built as {sorted(got)[:2]}; expected CScript of {want}")
    ggu = A.cfg(gu, None)
    pr, ph = gu.params[0], gu.params[1] if len(gu.params) > 1 else None
    run.require(ph is not None, "get_unsigned_tx: second parameter vanished")

    def atom(e):
        if isinstance(e, ast.Name) and e.id == ph:
            return ("HEX", True)
        return None
    table = {}
    for lf in Walker(A, gu, None, atom).walk(ggu.entry):
        if lf.kind == "return":
            for v in completions({k: b for k, b in lf.pc.items() if k == "HEX"}, ["HEX"]):
                table.setdefault(v["HEX"], set()).add(_strip(norm(lf.deep(lf.node.ast.value))))
        elif lf.kind not in ("raise",):
            table.setdefault(None, set()).add(lf.kind)
    wantt = {True: {_strip(f"_unsign_tx({pr}).serialize().hex()")}, False: {_strip(f"_unsign_tx({pr}).serialize()")}}
    run.check("R2", table == wantt, "get_unsigned_tx = serialisation of the unsigned transaction (hex or raw)", key="get_unsigned_tx|expr", where=gu.loc(),
              message=f"get_unsigned_tx returns {({k: sorted(v) for k, v in table.items()})}")


def run(run):
    P, A = run.P, run.A
    F = Facts(A)
    PV = Prov(A)
    E = ExcAnalysis(A)
    scriptsig_rules(run, PV)
    # the cleared transaction reaches the device byte-exact under any chunk-request pattern: the chunk loop's decision table (rule R3 of C01) under K.
    from . import c01
    D_ = P.cls("ledger.hsm2dongle.HSM2Dongle")
    sdc_ = P.method(D_, "_send_data_in_chunks")
    dflt = {}
    a__ = sdc_.node.args
    ps__ = [x.arg for x in a__.args]
    for nm__, dv__ in zip(ps__[len(ps__) - len(a__.defaults):], a__.defaults):
        dflt[nm__] = dv__
    run.rid_prefix = "K."
    try:
        c01._chunk_loop(run, Prov(A, max_variants=64), D_, sdc_, dflt)
    finally:
        run.rid_prefix = ""

    # ---------------------------------------------------------------- R3
    run.rule("R3", "Use and failure mapping in HSM2ProtocolLedger._sign: on every path to the sign_authorized call its btc_tx argument is "
             "get_unsigned_tx(request['message']['tx']); if that call raises any Exception, every path from the handler ends in "
             "return (ERROR_CODE_INVALID_MESSAGE,) without a device call; ensure_connection() and every dongle call of the "
             "authorized branch are dominated by the call's normal completion.")
    V2 = P.cls("ledger.protocol.HSM2ProtocolLedger")
    sg = P.method(V2, "_sign")
    g = A.cfg(sg, V2)
    sa = find_calls(A, sg, "sign_authorized")
    run.require(len(sa) == 1, "_sign: sign_authorized call vanished")
    btc = [k.value for k in sa[0].keywords if k.arg == "btc_tx"]
    run.require(len(btc) == 1, "_sign: btc_tx keyword vanished")
    for cn in g.nodes_of(sa[0]):
        try:
            got = {_strip(x) for x in values_at(A, sg, V2, cn, btc[0])}
        except AnalysisError:
            got = {_strip(x) for x in PV.expand_consistent(sg, V2, btc[0], cn, stop=("request",))}
        run.check("R3", got == {_strip("get_unsigned_tx(request['message']['tx'])")}, "the device receives the unsigned transaction",
                  key="_sign|btc_tx-source", where=sg.loc(sa[0]),
                  message=f"sign_authorized is given btc_tx = {sorted(got)[:2]}: the transaction relayed for signing is not "
                          "get_unsigned_tx(message.tx)")
    gut = find_calls(A, sg, "get_unsigned_tx")
    run.require(len(gut) == 1, "_sign: get_unsigned_tx call vanished")
    par = _parents(sg.node)
    tr, h = catching_handler(E, par, gut[0], sg, V2, "Exception")
    dev = device_touching(run)
    ens = P.method(V2, "ensure_connection")
    okh = h is not None
    why = "get_unsigned_tx() is not inside a handler for Exception"
    if okh:
        want_code = P.class_const(V2, "ERROR_CODE_INVALID_MESSAGE")
        for hn in g.nodes_of(h):
            for lf in Walker(A, sg, V2, lambda e: None).walk(hn):
                if lf.kind != "return":
                    okh, why = False, f"a path from the handler ends in `{lf.kind}` at line {lf.node.lineno}"
                    continue
                v = lf.deep(lf.node.ast.value) if lf.node.ast.value is not None else None
                okv = isinstance(v, ast.Tuple) and len(v.elts) == 1
                if okv:
                    okf, val = try_fold(P, v.elts[0], sg, V2)
                    okv = okf and val == want_code
                if not okv:
                    okh, why = False, f"a path from the handler returns `{norm(v) if v is not None else None}`"
                for kind, st, val in lf.effects:
                    for c in ([n for n in ast.walk(st) if isinstance(n, ast.Call)] if isinstance(st, ast.AST) else []):
                        cs = A.resolve_call(c, sg, V2)
                        if any(x.fn is not None and (x.fn.qualname in dev or x.fn is ens) for x in cs):
                            okh, why = False, f"a path from the handler reaches the device (`{norm(c)[:40]}`)"
    run.check("R3", bool(okh), "any decoding failure is answered (ERROR_CODE_INVALID_MESSAGE,)", key="_sign|get_unsigned_tx|handler",
              where=sg.loc(gut[0]), message=f"{why}: an undecodable transaction or an input with an empty script (IndexError, "
              "script decoding errors) would not be answered -102")
    for call, cs in A.callees(sg, V2):
        if not any(c.fn is not None and (c.fn.qualname in dev or c.fn is ens) for c in cs):
            continue
        for cn in g.nodes_of(call):
            hashed = any(f.kind == "cmp" and f.op == "in" and "hash" in norm(f.left) for f in F.local(sg, V2, cn))
            if hashed:
                continue
            dom = any(g.dominates(x, cn) for x in g.nodes_of(gut[0]))
            if not dom:
                # the decoding may sit in a helper that reports failure through its result: decide on feasible paths
                try:
                    dom, _w = completed_on_all_paths(A, sg, V2, cn, gut[0])
                except AnalysisError:
                    pass
            # and not reachable from the decoding handler
            from_h = any(cn in g.reachable(hn) for hh in (tr.handlers if tr else []) for hn in g.nodes_of(hh))
            if from_h:
                try:
                    from_h = any(lf.kind == "stop" for hh in tr.handlers for hn in g.nodes_of(hh)
                                 for lf in Walker(A, sg, V2, lambda e: None, follow_exc=True).walk(hn, stops={cn}))
                except AnalysisError:
                    pass
            run.check("R3", dom and not from_h, f"`{norm(call.func)}` only after the transaction decoded",
                      key=f"_sign|{norm(call.func)}|before-decode", where=sg.loc(call),
                      message=f"in the authorized branch `{norm(call)[:50]}` is not dominated by the completed "
                              "get_unsigned_tx(): the device could be contacted for a transaction that cannot be decoded")
