"""C14 - clearing of signature placeholders: the frame around the transformation."""
import ast
from sa.model import AnalysisError, Unknown, norm, unwrap
from sa.query import Facts, call_name, find_calls, try_fold, calls_in, defs_of
from sa.prov import Prov
from sa.exc import ExcAnalysis
from .common import device_touching
from .c06 import _strip
from .c11 import _parents, catching_handler

TECHNIQUE = ("effect confinement (which attributes of the transaction the unsign path may write), provenance "
             "expansion of the rebuilt script and of the value relayed to the device, dominance of every device "
             "call by the completed decoding, handler shape for the -102 mapping")
EXPLANATION = (
    "Static analysis of /repo's current source (nothing executed). Decides only the frame around the "
    "transformation: the unsign path writes nothing but tx.vin and, on a copy obtained with "
    "CMutableTxIn.from_txin(txin) (which keeps outpoint and sequence), the scriptSig; the new script is "
    "CScript([0] * (len(ops) - 1) + [ops[-1]]) with ops = list(<copy>.scriptSig); get_unsigned_tx returns the "
    "serialisation of that same transaction object; sign_authorized receives exactly that value; the decoding "
    "sits in a handler for Exception that answers (ERROR_CODE_INVALID_MESSAGE,), and both dominate "
    "ensure_connection and every dongle call. NOT decided: canonical push encoding, idempotence and "
    "independence from existing signatures - those are python-bitcoinlib's CScript semantics, and that library "
    "is not even installed here."
)


def run(run):
    P, A = run.P, run.A
    F = Facts(A)
    PV = Prov(A)
    E = ExcAnalysis(A)
    un = P.func("comm.bitcoin._unsign_tx")
    cl = P.func("comm.bitcoin._clear_all_but_last_op_from_scriptsig")
    gu = P.func("comm.bitcoin.get_unsigned_tx")

    # ---------------------------------------------------------------- R1
    run.rule("R1", "Effect confinement: _unsign_tx writes only tx.vin (= list(map(_clear_all_but_last_op_from_scriptsig, "
             "tx.vin)) of the transaction it deserialised and returns that object; _clear_all_but_last_op_from_scriptsig "
             "writes only <copy>.scriptSig where <copy> = bitcoin.core.CMutableTxIn.from_txin(txin) and returns the copy; "
             "no other attribute or item of the transaction, its inputs or outputs is written on the unsign path.")
    def attr_writes(fn):
        out = []
        for n in A.own_nodes(fn):
            tg = []
            if isinstance(n, ast.Assign):
                tg = n.targets
            elif isinstance(n, (ast.AugAssign, ast.AnnAssign)):
                tg = [n.target]
            elif isinstance(n, ast.Delete):
                tg = n.targets
            for t in tg:
                if isinstance(t, (ast.Attribute, ast.Subscript)):
                    out.append(norm(t))
            if isinstance(n, ast.Call) and isinstance(n.func, ast.Attribute) and n.func.attr in (
                    "append", "extend", "insert", "pop", "remove", "clear", "sort", "reverse", "__setattr__") \
                    and not norm(n.func.value).startswith(("ops", "new_ops")):
                out.append(norm(n) + " (mutating call)")
            if isinstance(n, ast.Call) and isinstance(n.func, ast.Name) and n.func.id == "setattr":
                out.append(norm(n))
        return out
    wu = attr_writes(un)
    run.check("R1", wu == ["tx.vin"], "_unsign_tx writes only tx.vin", key="_unsign_tx|writes", where=un.loc(),
              message=f"_unsign_tx writes {wu}: anything beyond tx.vin (version, outputs, lock time) changes what the device signs")
    g = A.cfg(un, None)
    for n in A.own_nodes(un):
        if isinstance(n, ast.Assign) and norm(n.targets[0]) == "tx.vin":
            run.check("R1", norm(n.value) == "list(map(_clear_all_but_last_op_from_scriptsig, tx.vin))",
                      "every input goes through the clearing function, in order", key="_unsign_tx|vin-expr", where=un.loc(n),
                      message=f"tx.vin is rebuilt as `{norm(n.value)}`")
    td = defs_of(A, un, "tx")
    p = un.params[0]
    run.check("R1", len(td) == 1 and norm(td[0].value) == f"_deserialize_tx({p})", "tx is the deserialised request transaction",
              key="_unsign_tx|tx-source", where=un.loc(), message="`tx` is not _deserialize_tx(raw_tx_hex)")
    rr = [n for n in A.own_nodes(un) if isinstance(n, ast.Return)]
    run.check("R1", len(rr) == 1 and norm(rr[0].value) == "tx", "returns that transaction", key="_unsign_tx|return", where=un.loc(),
              message="_unsign_tx does not return the transaction it modified")
    wc = attr_writes(cl)
    run.check("R1", wc == ["new_txin.scriptSig"], "clearing writes only the copy's scriptSig", key="_clear|writes", where=cl.loc(),
              message=f"_clear_all_but_last_op_from_scriptsig writes {wc}")
    cd = defs_of(A, cl, "new_txin")
    run.check("R1", len(cd) == 1 and norm(cd[0].value) == f"bitcoin.core.CMutableTxIn.from_txin({cl.params[0]})",
              "the input is copied with from_txin (outpoint and sequence preserved)", key="_clear|copy", where=cl.loc(),
              message=f"the cleared input is built as `{norm(cd[0].value) if cd else None}`, not as a from_txin copy: fields such as "
                      "nSequence would be reset to their defaults")
    rr = [n for n in A.own_nodes(cl) if isinstance(n, ast.Return)]
    run.check("R1", len(rr) == 1 and norm(rr[0].value) == "new_txin", "returns the copy", key="_clear|return", where=cl.loc(),
              message="_clear_all_but_last_op_from_scriptsig does not return the modified copy")
    ds = P.func("comm.bitcoin._deserialize_tx")
    des = [n for n in A.own_nodes(ds) if isinstance(n, ast.Call) and "deserialize" in norm(n.func)]
    run.check("R1", len(des) == 1 and norm(des[0]) == f"bitcoin.core.CMutableTransaction.deserialize(bytes.fromhex({ds.params[0]}))",
              "the whole request transaction is deserialised", key="_deserialize_tx|expr", where=ds.loc(), message="_deserialize_tx changed")

    # ---------------------------------------------------------------- R2
    run.rule("R2", "Shape: the new script is bitcoin.core.CScript([0] * (len(ops) - 1) + [ops[-1]]) with ops = "
             "list(new_txin.scriptSig); an empty script makes ops[-1] raise (kept: it is what becomes -102).")
    gc = A.cfg(cl, None)
    for n in A.own_nodes(cl):
        if isinstance(n, ast.Assign) and norm(n.targets[0]) == "new_txin.scriptSig":
            for cn in gc.nodes_of(n):
                got = {_strip(x) for x in PV.expand_consistent(cl, None, n.value, cn, stop=("new_txin",))}
                want = _strip("bitcoin.core.CScript([0] * (len(list(new_txin.scriptSig)) - 1) + [list(new_txin.scriptSig)[-1]])")
                run.check("R2", got == {want}, "script = zeros for all but the last op, then the last op", key="_clear|script-expr",
                          where=cl.loc(n), message=f"the cleared script is {sorted(got)[:1]}; expected `{want}`")
    rr = [n for n in A.own_nodes(gu) if isinstance(n, ast.Return)]
    ggu = A.cfg(gu, None)
    vals = set()
    for r in rr:
        for rn in ggu.nodes_of(r):
            vals |= {_strip(x) for x in PV.expand_consistent(gu, None, r.value, rn)}
    p = gu.params[0]
    run.check("R2", vals == {_strip(f"_unsign_tx({p}).serialize().hex()"), _strip(f"_unsign_tx({p}).serialize()")},
              "get_unsigned_tx = serialisation of the unsigned transaction", key="get_unsigned_tx|expr", where=gu.loc(),
              message=f"get_unsigned_tx returns {sorted(vals)}")

    # ---------------------------------------------------------------- R3
    run.rule("R3", "Use and failure mapping in HSM2ProtocolLedger._sign: btc_tx passed to sign_authorized is the value of "
             "get_unsigned_tx(<message>['tx']); that call lies in a handler for Exception whose body ends in "
             "return (ERROR_CODE_INVALID_MESSAGE,); ensure_connection() and every dongle call of the authorized branch are "
             "dominated by the call's normal completion.")
    V2 = P.cls("ledger.protocol.HSM2ProtocolLedger")
    sg = P.method(V2, "_sign")
    g = A.cfg(sg, V2)
    sa = find_calls(A, sg, "sign_authorized")
    run.require(len(sa) == 1, "_sign: sign_authorized call vanished")
    btc = [k.value for k in sa[0].keywords if k.arg == "btc_tx"]
    run.require(len(btc) == 1, "_sign: btc_tx keyword vanished")
    for cn in g.nodes_of(sa[0]):
        got = {_strip(x) for x in PV.expand_consistent(sg, V2, btc[0], cn, stop=("msg", "request"))}
        ok = got in ({_strip("get_unsigned_tx(msg['tx'])")}, {_strip("get_unsigned_tx(request['message']['tx'])")})
        run.check("R3", ok, "the device receives the unsigned transaction", key="_sign|btc_tx-source", where=sg.loc(sa[0]),
                  message=f"sign_authorized is given btc_tx = {sorted(got)[:1]}: the transaction relayed for signing is not "
                          "get_unsigned_tx(message.tx)")
    md = defs_of(A, sg, "msg")
    run.check("R3", len(md) == 1 and norm(md[0].value) == "request['message']", "msg is the request's message", key="_sign|msg-source",
              where=sg.loc(), message="`msg` is not request['message']")
    gut = find_calls(A, sg, "get_unsigned_tx")
    run.require(len(gut) == 1, "_sign: get_unsigned_tx call vanished")
    par = _parents(sg.node)
    tr, h = catching_handler(E, par, gut[0], sg, V2, "Exception")
    okh = h is not None and isinstance(h.body[-1], ast.Return) and isinstance(h.body[-1].value, ast.Tuple) \
        and len(h.body[-1].value.elts) == 1
    if okh:
        okv, v = try_fold(P, h.body[-1].value.elts[0], sg, V2)
        okh = okv and v == P.class_const(V2, "ERROR_CODE_INVALID_MESSAGE") and not any(isinstance(x, ast.Raise) for x in ast.walk(h))
    run.check("R3", bool(okh), "any decoding failure is answered (ERROR_CODE_INVALID_MESSAGE,)", key="_sign|get_unsigned_tx|handler",
              where=sg.loc(gut[0]), message="get_unsigned_tx() is not guarded by a handler for Exception that returns "
              "(ERROR_CODE_INVALID_MESSAGE,): an undecodable transaction or an input with an empty script (IndexError, "
              "script decoding errors) would not be answered -102")
    dev = device_touching(run)
    ens = P.method(V2, "ensure_connection")
    for call, cs in A.callees(sg, V2):
        if not any(c.fn is not None and (c.fn.qualname in dev or c.fn is ens) for c in cs):
            continue
        for cn in g.nodes_of(call):
            hashed = any(f.kind == "cmp" and f.op == "in" and "hash" in norm(f.left) for f in F.local(sg, V2, cn))
            if hashed:
                continue
            dom = any(g.dominates(x, cn) for x in g.nodes_of(gut[0]))
            # and not reachable from the decoding handler
            from_h = any(cn in g.reachable(hn) for hh in (tr.handlers if tr else []) for hn in g.nodes_of(hh))
            run.check("R3", dom and not from_h, f"`{norm(call.func)}` only after the transaction decoded",
                      key=f"_sign|{norm(call.func)}|before-decode", where=sg.loc(call),
                      message=f"in the authorized branch `{norm(call)[:50]}` is not dominated by the completed "
                              "get_unsigned_tx(): the device could be contacted for a transaction that cannot be decoded")
