"""C17 - signer authorizations contain what the device will check."""
import ast
import re
from sa.model import AnalysisError, Unknown, norm, unwrap, EnumMember
from sa.query import Facts, call_name, find_calls, try_fold, calls_in, defs_of
from sa.prov import Prov
from sa.layout import Layout
from .common import dongle_classes, send_sites, firmware, fold_local, answer_field
from sa.canon import fold_consts, template_parts
from sa.decide import Walker, completions, return_values
from .c06 import _strip

TECHNIQUE = ("literal agreement of the message template and EIP-191 prefix with the firmware headers, "
             "dominance facts (constants folded, local names expanded) for the bounds of SignerVersion / SignerAuthorization constructors, byte-layout "
             "normalisation of the authorize exchange, path rules for early stop and failure, writer/reader "
             "key agreement of the authorization file")
EXPLANATION = (
    "Static analysis of /repo's current source (nothing executed). Decides: SignerVersion.msg is the "
    "firmware's RSK_SIGNER_VERSION_MSG_P1 + lower-case hash + P2 + decimal iteration; encode_eth_message "
    "is ETHEREUM_MSG_PREFIX + decimal length + message in ASCII and the digest is keccak_256 of it; the "
    "constructor completes only for a 32-byte hex hash and an int 0 <= iteration < 2^16 (strings go "
    "through the hex/decimal parser first, then through the same bounds); every signature is "
    "DER-validated on load and on add; authorize_signer sends OP_SIGVER|hash|u16be(iteration), then "
    "OP_SIGN|signature in list order, returns as soon as the device answers SUCCESS and raises when the "
    "signatures run out; ops/results/command equal signer_authorization.h; to_dict keys equal the keys "
    "signapp per operation (walk of main() with the operation fixed): what key / eth sign, verify and store and where, manual, hash, message; the printable form of the message; "
    "from_jsonfile reads; signapp signs/verifies the digest of the version it stores. Does not decide "
    "that produced signatures verify (ECDSA library)."
)


def run(run):
    P, A = run.P, run.A
    F = Facts(A)
    PV = Prov(A)
    fw = firmware(run)
    SV = P.cls("admin.signer_authorization.SignerVersion")
    SA = P.cls("admin.signer_authorization.SignerAuthorization")
    D = P.cls("ledger.hsm2dongle.HSM2Dongle")

    # ---------------------------------------------------------------- R1
    run.rule("R1", "Message: SignerVersion.msg == P1 + self._hash + P2 + str(self._iteration) with P1/P2 the firmware's "
             "RSK_SIGNER_VERSION_MSG_P1/P2; _hash is hash.lower(); encode_eth_message(msg) == (ETHEREUM_MSG_PREFIX + "
             "str(len(msg)) + msg).encode('ascii'); get_authorization_digest == keccak_256(encode_eth_message(self.msg)).")
    msg = P.method(SV, "msg")
    # what msg returns, as a template: literal and value parts whatever the formatting idiom (f-string, .format, %, +), constants folded
    def template_of(fn, cls, unwrap_call=None):
        rv = return_values(A, fn, cls, PV)
        if len(rv) != 1:
            return None, None
        try:
            e = fold_consts(P, ast.parse(next(iter(rv)), mode="eval").body, fn, cls, locals_=set(fn.params))
        except SyntaxError:
            return None, None
        outer = None
        if unwrap_call is not None:
            if not (isinstance(e, ast.Call) and isinstance(e.func, ast.Attribute) and e.func.attr == unwrap_call):
                return None, None
            outer, e = e, e.func.value
        return template_parts(e), outer
    parts, _ = template_of(msg, SV)
    run.require(parts is not None, "SignerVersion.msg is not a string template (f-string, .format, % or + of literals and values)")
    p1 = fw.define("ledger/ui/src/signer_authorization.h", "RSK_SIGNER_VERSION_MSG_P1")
    p2 = fw.define("ledger/ui/src/signer_authorization.h", "RSK_SIGNER_VERSION_MSG_P2")
    want = [("lit", p1), ("expr", "self._hash"), ("lit", p2), ("expr", "self._iteration")]
    run.check("R1", parts == want, "msg template == firmware literals around hash and decimal iteration",
              key="SignerVersion.msg|template", where=msg.loc(),
              message=f"SignerVersion.msg is built from {parts}; the firmware checks `{p1}<hash>{p2}<iteration>`")
    ini = P.method(SV, "__init__")
    hs = [n for n in A.own_nodes(ini) if isinstance(n, ast.Assign) and norm(n.targets[0]) == "self._hash"]
    run.check("R1", len(hs) == 1 and norm(hs[0].value) == f"{ini.params[1]}.lower()", "hash stored lower-case",
              key="SignerVersion.__init__|hash-lower", where=ini.loc(), message="the hash is not stored in lower case (firmware prints lower-case hex)")
    its = [n for n in A.own_nodes(ini) if isinstance(n, ast.Assign) and norm(n.targets[0]) == "self._iteration"]
    run.check("R1", len(its) == 1 and norm(its[0].value) == ini.params[2], "iteration stored as validated",
              key="SignerVersion.__init__|iteration-store", where=ini.loc(), message="the stored iteration is not the validated value")
    ee = P.func("admin.ledger_utils.encode_eth_message")
    rr = [n for n in A.own_nodes(ee) if isinstance(n, ast.Return)]
    pre = fw.define("common/src/eth.h", "ETHEREUM_MSG_PREFIX")
    pp, outer = template_of(ee, None, unwrap_call="encode")
    p = ee.params[0]
    okp = pp == [("lit", pre), ("expr", f"len({p})"), ("expr", p)] and outer is not None and [norm(a) for a in outer.args] == ["'ascii'"] and not outer.keywords
    run.check("R1", okp, "EIP-191 wrapping == firmware ETHEREUM_MSG_PREFIX + decimal length + message",
              key="encode_eth_message|template", where=ee.loc(), message="encode_eth_message does not build "
              f"{pre!r} + str(len(msg)) + msg encoded as ASCII")
    gm = P.method(SV, "get_authorization_msg")
    gd = P.method(SV, "get_authorization_digest")
    r1 = [n for n in A.own_nodes(gm) if isinstance(n, ast.Return)]
    r2 = [n for n in A.own_nodes(gd) if isinstance(n, ast.Return)]
    run.check("R1", len(r1) == 1 and norm(r1[0].value) == "encode_eth_message(self.msg)" and len(r2) == 1
              and norm(r2[0].value) == "keccak_256(self.get_authorization_msg())", "digest = keccak_256(eth message of msg)",
              key="SignerVersion.digest|chain", where=gd.loc(), message="the authorization digest is not keccak_256(encode_eth_message(msg))")
    kk = P.func("admin.utils.keccak_256")
    rk = [n for n in A.own_nodes(kk) if isinstance(n, ast.Return)]
    run.check("R1", len(rk) == 1 and norm(rk[0].value) == "keccak.new(digest_bits=256).update(bs).digest()".replace("bs", kk.params[0]),
              "keccak_256 is one-round Keccak-256", key="keccak_256|expr", where=kk.loc(), message="keccak_256 changed")

    # ---------------------------------------------------------------- R2
    run.rule("R2", "Bounds: SignerVersion.__init__ completes only if is_hex_string_of_length(hash, 32), and type(iteration) "
             "== int, iteration >= 0, iteration < 2**16 hold on the value that is stored (strings converted first by "
             "hex_or_decimal_string_to_int, then checked); SignerAuthorization validates every signature by DER "
             "deserialisation on construction and on add_signature; from_jsonfile requires a dict with version == 1.")
    g = A.cfg(ini, SV)
    hp, ip = ini.params[1], ini.params[2]
    locs_i = set(PV.defs(ini, SV)) | set(ini.params)

    def folded(x, fn_=ini, cls_=SV, locs=locs_i):
        try:
            return _strip(norm(fold_consts(P, ast.parse(x, mode="eval").body, fn_, cls_, locals_=locs)))
        except SyntaxError:
            return x
    wanted = ((f"is_hex_string_of_length({hp}, 32)", "32-byte hex hash"), (f"type({ip}) == int", "int iteration"),
              (f"{ip} >= 0", "iteration >= 0"), (f"{ip} < 65536", "iteration < 2^16"))
    for sn in [x for n in its for x in g.nodes_of(n)]:
        facts = {folded(t) for t in F.expanded(ini, SV, sn, PV, stop=(ip, hp))}
        for w, what in wanted:
            run.check("R2", w in facts, f"stored only with {what}", key=f"SignerVersion.__init__|{what}", where=ini.loc(),
                      message=f"SignerVersion can be constructed without `{w}` holding for the stored value: the tool would "
                              "build and sign a message the device can never accept (and to_bytes(2) fails later)")
    conv = [n for n in A.own_nodes(ini) if isinstance(n, ast.Assign) and norm(n.targets[0]) == ini.params[2]]
    run.check("R2", len(conv) == 1 and norm(conv[0].value) == f"hex_or_decimal_string_to_int({ini.params[2]})",
              "string iterations parsed as decimal / 0x-hex", key="SignerVersion.__init__|string-conversion", where=ini.loc(),
              message="string iterations are not converted by hex_or_decimal_string_to_int")
    for cn in [x for n in conv for x in g.nodes_of(n)]:
        facts = {f.text() for f in F.local(ini, SV, cn)}
        run.check("R2", f"type({ini.params[2]}) == str" in facts, "conversion only for strings", key="SignerVersion.__init__|conversion-guard",
                  where=ini.loc(), message="the string conversion is applied to non-strings")
    # bounds are checked *after* the conversion on every path: the bound conditions are not skipped on the string path
    from sa.query import make_facts
    bnd = {}
    for n in g.nodes:
        if n.kind != "cond":
            continue
        ts = {folded(f.text()) for pol in ("T", "F") for f in make_facts(pol, n.ast, ini, n)}
        for w, what in wanted[1:]:
            if w in ts:
                bnd.setdefault(w, []).append(n)
    for cn in [x for n in conv for x in g.nodes_of(n)]:
        for sn in [x for n in its for x in g.nodes_of(n)]:
            for w, bs in bnd.items():
                run.check("R2", g.all_paths_pass(cn, sn, set(bs)), f"converted iteration still passes `{w}`",
                          key=f"SignerVersion.__init__|converted-skips|{w}", where=ini.loc(bs[0].ast),
                          message=f"an iteration given as a string skips the check `{w}` (e.g. '65536', '0x10000', '-1' accepted)")
    run.floor("R2", "iteration bound conditions", len(bnd), 3)
    # the string parser itself: 0x-prefixed -> base 16, anything else -> base 10
    hd = P.func("comm.utils.hex_or_decimal_string_to_int")
    vp = hd.params[0]

    def hatom(e):
        if isinstance(e, ast.Call) and call_name(e) == "startswith" and norm(e.func.value) == vp and len(e.args) == 1 \
                and isinstance(e.args[0], ast.Constant) and e.args[0].value == "0x":
            return ("HEX", True)
        return None
    table = {}
    for lf in Walker(A, hd, None, hatom).walk(A.cfg(hd, None).entry):
        if lf.kind == "return" and lf.node.ast.value is not None:
            for v in completions({k: b for k, b in lf.pc.items() if k == "HEX"}, ["HEX"]):
                table.setdefault(v["HEX"], set()).add(_strip(norm(lf.deep(lf.node.ast.value))))
    run.check("R2", table == {True: {f"int({vp}, 16)"}, False: {f"int({vp}, 10)"}}, "string iterations: 0x.. base 16, otherwise base 10",
              key="hex_or_decimal_string_to_int|table", where=hd.loc(),
              message=f"hex_or_decimal_string_to_int computes {({k: sorted(v) for k, v in table.items()})}; expected int(v, 16) for a 0x prefix and int(v, 10) "
                      "otherwise (other bases or leniency change which iteration strings are accepted)")
    av = P.method(SA, "_assert_signature_valid")
    des = [n for n in A.own_nodes(av) if isinstance(n, ast.Call) and call_name(n) == "ecdsa_deserialize"]
    run.check("R2", len(des) == 1 and norm(des[0].args[0]) == f"bytes.fromhex({av.params[1]})", "signatures DER-parsed",
              key="SignerAuthorization._assert_signature_valid|parse", where=av.loc(), message="signature validation no longer DER-deserialises the hex signature")
    tr = [n for n in A.own_nodes(av) if isinstance(n, ast.Try)]
    run.check("R2", len(tr) == 1 and any(isinstance(x, ast.Raise) for h in tr[0].handlers for x in ast.walk(h)),
              "malformed signature raises ValueError", key="SignerAuthorization._assert_signature_valid|raises", where=av.loc(),
              message="a malformed signature no longer raises")
    sa_ini = P.method(SA, "__init__")
    gi = A.cfg(sa_ini, SA)
    loops = [n for n in ast.walk(sa_ini.node) if isinstance(n, ast.For)]
    okl = len(loops) == 1 and norm(loops[0].iter) == sa_ini.params[2] and any(
        isinstance(c, ast.Call) and call_name(c) == "_assert_signature_valid" for c in ast.walk(loops[0]))
    run.check("R2", okl, "constructor validates every signature", key="SignerAuthorization.__init__|validate-all", where=sa_ini.loc(),
              message="SignerAuthorization.__init__ does not validate every given signature")
    ef = {f.text() for f in F.exit_facts(sa_ini, SA)}
    # the stored field and the parameter it was stored from are the same value
    sv_stores = [n for n in A.own_nodes(sa_ini) if isinstance(n, ast.Assign) and any(norm(t) == "self._signer_version" for t in n.targets)]
    sv_texts = {"type(self._signer_version) == SignerVersion"}
    if sv_stores and all(isinstance(n.value, ast.Name) and n.value.id == sa_ini.params[1] for n in sv_stores) \
            and not any(isinstance(n, ast.Name) and n.id == sa_ini.params[1] and isinstance(n.ctx, ast.Store) for n in A.own_nodes(sa_ini)):
        sv_texts.add(f"type({sa_ini.params[1]}) == SignerVersion")
    run.check("R2", bool(sv_texts & ef) and f"type({sa_ini.params[2]}) == list" in ef,
              "constructor requires a SignerVersion and a list", key="SignerAuthorization.__init__|types", where=sa_ini.loc(),
              message="SignerAuthorization.__init__ type checks changed")
    ad = P.method(SA, "add_signature")
    ga = A.cfg(ad, SA)
    app = [x for c in find_calls(A, ad, "append") for x in ga.nodes_of(c)]
    val = [x for c in find_calls(A, ad, "_assert_signature_valid") for x in ga.nodes_of(c)]
    run.check("R2", bool(app) and bool(val) and all(any(ga.dominates(v, a) for v in val) for a in app), "add_signature validates before appending",
              key="SignerAuthorization.add_signature|validate-first", where=ad.loc(), message="add_signature appends an unvalidated signature")
    fj = P.method(SA, "from_jsonfile")
    gj = A.cfg(fj, SA)
    for r in [n for n in A.own_nodes(fj) if isinstance(n, ast.Return)]:
        for rn in gj.nodes_of(r):
            facts = {f.text() for f in F.local(fj, SA, rn)} | set(F.expanded(fj, SA, rn, PV, stop=("signer_auth_map",)))
            run.check("R2", "type(signer_auth_map) == dict" in facts and "signer_auth_map['version'] == SignerAuthorization.VERSION" in facts,
                      "file must be a dict with the supported version", key="SignerAuthorization.from_jsonfile|guards", where=fj.loc(r),
                      message="from_jsonfile accepts a document that is not a version-1 object")

    # ---------------------------------------------------------------- R3
    run.rule("R3", "authorize_signer: first message OP_SIGVER | hexdecode(hash) | u16be(iteration); then for the signatures "
             "in list order OP_SIGN | hexdecode(signature); returns True as soon as the answer's data byte is "
             "OP_SIGN_RES_SUCCESS; leaving the loop otherwise raises HSM2DongleError; ops/results/command == "
             "signer_authorization.h / ui_instructions.h.")
    au = P.method(D, "authorize_signer")
    g = A.cfg(au, D)
    L = Layout(lambda e: try_fold(P, e, au, D))
    sends = send_sites(run, au)
    run.floor("R3", "sends in authorize_signer", len(sends), 2)
    p = au.params[1]
    lay = []
    for c, cmd in sends:
        run.check("R3", isinstance(cmd, EnumMember) and cmd.name == "SIGNER_AUTH", "command is SIGNER_AUTH", key="authorize_signer|command",
                  where=au.loc(c), message=f"authorize_signer sends command {cmd}")
        for cn in g.nodes_of(c):
            for v in PV.expand_consistent(au, D, c.args[1], cn):
                lay.append(L.canon(v))
    want1 = f"u8(1) | hex({p}.signer_version.hash) | u16be({p}.signer_version.iteration)"
    want2 = f"u8(2) | hex(ELEM({p}.signatures))"
    run.check("R3", lay == [want1, want2], "exchange layout", key="authorize_signer|layout", where=au.loc(),
              message=f"authorize_signer sends {lay}; the device expects [{want1}] then [{want2}] per signature")
    so = P.enum_members(P.cls("ledger.hsm2dongle._SignerAuthorizationOps"))
    h = fw.file("ledger/ui/src/signer_authorization.h").all_enum_members()
    for py, c in (("OP_SIGVER", "OP_SIGAUT_SIGVER"), ("OP_SIGN", "OP_SIGAUT_SIGN"), ("OP_SIGN_RES_MORE", "RES_SIGAUT_MORE"),
                  ("OP_SIGN_RES_SUCCESS", "RES_SIGAUT_SUCCESS")):
        run.require(c in h, f"signer_authorization.h: {c} vanished")
        run.check("R3", so[py].value == h[c], f"{py} == {c}", key=f"_SignerAuthorizationOps|{py}", where="middleware/ledger/hsm2dongle.py",
                  message=f"_SignerAuthorizationOps.{py} = {so[py].value}, firmware {c} = {h[c]}")
    run.check("R3", P.class_const(D, "SIGNER_AUTH_ITERATION_SIZE") == 2, "iteration sent in 2 bytes", key="SIGNER_AUTH_ITERATION_SIZE",
              where="middleware/ledger/hsm2dongle.py", message="SIGNER_AUTH_ITERATION_SIZE != 2")
    loops = [n for n in ast.walk(au.node) if isinstance(n, ast.For)]
    run.check("R3", len(loops) == 1 and norm(loops[0].iter) == f"{p}.signatures", "signatures sent in file order",
              key="authorize_signer|order", where=au.loc(), message=f"signatures are iterated as `{norm(loops[0].iter) if loops else None}`")
    # success only under `<data byte of the answer to OP_SIGN> == OP_SIGN_RES_SUCCESS`, and as soon as that holds
    rets = [n for n in A.own_nodes(au) if isinstance(n, ast.Return)]
    sign_send = sends[1][0] if len(sends) > 1 else None
    okd_, DAI = try_fold(P, ast.parse("self.OFF.DATA", mode="eval").body, au, D)
    succ = so["OP_SIGN_RES_SUCCESS"].value

    def success_fact(rn):
        for f in F.local(au, D, rn):
            if f.kind != "cmp" or f.op != "==":
                continue
            for a, b in ((f.left, f.right), (f.right, f.left)):
                okc, cv = fold_local(run, PV, au, D, b, f.node if f.node is not None else rn)
                if not (okc and cv == succ):
                    continue
                call, idx = answer_field(run, PV, au, D, a, f.node if f.node is not None else rn, ignore_const_defs=True)
                if call is sign_send and idx == [DAI]:
                    return f
        return None
    ok_early = False
    live = g.reachable(g.entry)
    noexc_ = lambda a, b: not g.is_exc_edge(a, b)   # noqa: E731
    send_nodes = set(g.nodes_of(sign_send)) if sign_send is not None else set()
    # inside the loop, once the answer is known to be SUCCESS nothing is sent any more (early return, break, flag + break ...)
    in_loop_success = [n_ for n_ in g.nodes if n_.kind == "stmt" and n_ in live and g.in_loop(n_) is not None and n_ not in send_nodes
                       and success_fact(n_) is not None]
    ok_early = bool(in_loop_success) and not any(sn in g.reachable(n_, edge_ok=noexc_) for n_ in in_loop_success for sn in send_nodes)
    for r in rets:
        if isinstance(r.value, ast.Constant) and r.value.value is True:
            for rn in g.nodes_of(r):
                if rn not in live:
                    continue        # unreachable code
                sf = success_fact(rn)
                run.check("R3", sf is not None, "success only when the device said so",
                          key=f"authorize_signer|return-True|guard", where=au.loc(r),
                          message="authorize_signer can return True although the device never answered SUCCESS (e.g. no "
                                  "signatures given, or an answer that is neither MORE nor SUCCESS)")
        else:
            run.fail("R3", f"authorize_signer|return {norm(r.value)}", au.loc(r), f"authorize_signer returns `{norm(r.value)}`")
    run.check("R3", ok_early, "stops sending once the device reports the signer authorized", key="authorize_signer|early-stop",
              where=au.loc(), message="authorize_signer keeps sending signatures after the device answered SUCCESS")
    raises = [n for n in A.own_nodes(au) if isinstance(n, ast.Raise)]
    run.check("R3", len(raises) >= 1 and all("HSM2DongleError" in norm(x.exc) for x in raises), "running out of signatures raises HSM2DongleError",
              key="authorize_signer|failure", where=au.loc(), message="authorize_signer does not raise HSM2DongleError when the signatures run out")
    ad_ = P.func("admin.authorize_signer.do_authorize_signer")
    calls = find_calls(A, ad_, "authorize_signer")
    run.check("R3", len(calls) == 1 and norm(calls[0].args[0]) == "signer_authorization", "admin command sends the loaded authorization",
              key="do_authorize_signer|argument", where=ad_.loc(), message="do_authorize_signer does not pass the loaded authorization")
    sd = defs_of(A, ad_, "signer_authorization")
    run.check("R3", len(sd) == 1 and "SignerAuthorization.from_jsonfile(options.signer_authorization_file_path)" in norm(sd[0].value),
              "authorization loaded from the given file", key="do_authorize_signer|source", where=ad_.loc(), message="authorization source changed")

    # ---------------------------------------------------------------- R4
    run.rule("R4", "File agreement: SignerAuthorization.to_dict emits version / signer{hash, iteration} / signatures, the keys "
             "from_jsonfile reads; signapp signs get_authorization_digest() of the signer_version it stores in the file, with the "
             "operator-provided key on secp256k1, DER-encoded; the eth path verifies the dongle's signature over the same digest.")
    td = P.method(SA, "to_dict")
    d = [n for n in A.own_nodes(td) if isinstance(n, ast.Dict)][0]
    from .common import prop_expand
    got = {k.value: prop_expand(run, PV, SA, norm(v)) for k, v in zip(d.keys, d.values)}
    run.check("R4", got == {"version": "self.VERSION", "signer": "self._signer_version.to_dict()", "signatures": "self._signatures[:]"},
              "authorization to_dict", key="SignerAuthorization.to_dict|shape", where=td.loc(), message=f"SignerAuthorization.to_dict is {got}")
    tv = P.method(SV, "to_dict")
    d = [n for n in A.own_nodes(tv) if isinstance(n, ast.Dict)][0]
    got = {k.value: norm(v) for k, v in zip(d.keys, d.values)}
    run.check("R4", got == {"hash": "self.hash", "iteration": "self.iteration"}, "version to_dict", key="SignerVersion.to_dict|shape",
              where=tv.loc(), message=f"SignerVersion.to_dict is {got}")
    # every subscript expression of the loader, with locals (e.g. a name for the `signer` sub-map) expanded to what they stand for
    gfj = A.cfg(fj, SA)
    src = set()
    for n_ in A.own_nodes(fj):
        if isinstance(n_, ast.Subscript) and isinstance(n_.ctx, ast.Load):
            for cn_ in gfj.nodes_of(n_):
                try:
                    src |= {_strip(x) for x in PV.expand_consistent(fj, SA, n_, cn_, stop=("signer_auth_map",))}
                except AnalysisError:
                    src.add(_strip(norm(n_)))
    for k in ("signer_auth_map['signer']['hash']", "signer_auth_map['signer']['iteration']", "signer_auth_map['signatures']", "signer_auth_map['version']"):
        run.check("R4", _strip(k) in src, f"loader reads {k}", key=f"SignerAuthorization.from_jsonfile|reads|{k}", where=fj.loc(),
                  message=f"from_jsonfile no longer reads {k}")
    for prop, fld in (("hash", "_hash"), ("iteration", "_iteration")):
        pf = P.method(SV, prop)
        rr = [n for n in A.own_nodes(pf) if isinstance(n, ast.Return)]
        run.check("R4", len(rr) == 1 and norm(rr[0].value) == f"self.{fld}", f"{prop} getter", key=f"SignerVersion.{prop}|getter", where=pf.loc(),
                  message=f"SignerVersion.{prop} does not return self.{fld}")
    _signapp_operations(run, PV)
    # `message` writes / prints the authorization of the image and iteration given, not of an existing file (rule R1 of C19, prefix M.)
    from . import c19
    run.rid_prefix = "M."
    try:
        c19.signapp_message_rule(run, PV, "R1")
    finally:
        run.rid_prefix = ""
    # the text shown to the operator for signing elsewhere is the message itself, control characters escaped
    ep = P.func("admin.ledger_utils.eth_message_to_printable")
    def _fc(x):
        try:
            return _strip(norm(fold_consts(P, ast.parse(x, mode="eval").body, ep, None, locals_=set(ep.params))))
        except SyntaxError:
            return _strip(x)
    rv_ = {_fc(x) for x in return_values(A, ep, None, PV)}
    run.check("R4", rv_ == {_strip(f"repr({ep.params[0]}.decode('ascii'))[1:-1]")}, "the printable form of the message is its repr without the quotes", key="eth_message_to_printable|expr",
              where=ep.loc(), message=f"eth_message_to_printable returns {sorted(rv_)[:2]}; expected repr(msg.decode('ascii'))[1:-1]: the text the operator is given to sign "
              "(with another tool) would not be the Ethereum personal message whose digest signapp and the device use")


def _signapp_operations(run, PV):
    """R5: what each operation of signapp signs, verifies and stores - decided on the walk of main() with the operation fixed."""
    P, A = run.P, run.A
    from sa.decide import cmp_parts
    run.rule("R5", "signapp, per operation (the walk of main() with options.operation fixed; V = the signer version: the one of the existing output file, or "
             "SignerVersion(compute_app_hash(app path).hex(), iteration)): `key` completes only with a 32-byte hex key and stores, in the authorization of V, "
             "SigningKey.from_string(key, SECP256k1).sign_digest(V.get_authorization_digest(), DER), hex, and saves it to the output path; `eth` stores the "
             "dongle's signature over V.msg for the given path, only if it verifies (DER) under the public key the dongle reported for that path against "
             "V.get_authorization_digest(); `manual` adds the given signature to the existing file; `hash` prints compute_app_hash(app path). Every completed "
             "run that stores a signature ends with add_signature, save_to_jsonfile(output path), exit 0.")
    mn = P.func("signapp.main")
    g = A.cfg(mn, None)
    locs = set(PV.defs(mn, None)) | set(mn.params)
    SV_FILE = _strip("SignerAuthorization.from_jsonfile(options.output_path).signer_version")
    SV_NEW = _strip("SignerVersion(compute_app_hash(options.app_path).hex(), options.iteration)")
    SA_OF = {SV_FILE: _strip("SignerAuthorization.from_jsonfile(options.output_path)"), SV_NEW: _strip(f"SignerAuthorization.for_signer_version({SV_NEW})")}
    n_done = 0
    done_per_op = {}
    for op in ("key", "eth", "manual", "hash"):
        def atom(e, op=op):
            e = fold_consts(P, e, mn, None, locals_=locs)
            cp = cmp_parts(e)
            if cp is None:
                return None
            l, o, r = cp
            if norm(l) == "options.operation":
                if o in ("==", "!=") and isinstance(r, ast.Constant):
                    return ((op == r.value) == (o == "=="), True)
                if o in ("in", "not in") and isinstance(r, (ast.List, ast.Tuple, ast.Set)) and all(isinstance(x, ast.Constant) for x in r.elts):
                    return ((op in [x.value for x in r.elts]) == (o == "in"), True)
            return None
        for lf in Walker(A, mn, None, atom, max_leaves=4000, max_steps=400000, through_with=True).walk(g.entry):
            calls = [(st_, v_) for k_, st_, v_ in lf.effects if k_ == "expr" and isinstance(v_, ast.Call)]
            if lf.kind != "dead" or not calls or _strip(norm(calls[-1][1])) != "sys.exit(0)":
                continue
            done_per_op[op] = done_per_op.get(op, 0) + (0 if (op == "eth" and lf.pc.get("?options.pubkey") is True) else 1)
            work = [(st_, v_) for st_, v_ in calls if call_name(v_) not in ("info", "head", "exit", "disable", "add_argument")]
            where = mn.loc(calls[-1][0])
            pcs = {k[1:]: b for k, b in lf.pc.items() if isinstance(k, str) and k.startswith("?")}

            def D(e):
                return _strip(norm(lf.deep(e, stop=("options",))))
            if op == "hash":
                infos = [v_ for st_, v_ in calls if call_name(v_) == "info"]
                last = D(infos[-1].args[0]) if infos and infos[-1].args else None
                n_done += 1
                run.check("R5", last is not None and "compute_app_hash(options.app_path).hex()" in last and not work, "`hash` prints the hash of the given image",
                          key="signapp|hash|printed", where=where, message=f"signapp hash ends printing `{last}` (other work: {[norm(v_)[:40] for _, v_ in work]}); expected the "
                          "hex of compute_app_hash(options.app_path)")
                continue
            if op == "eth" and pcs.get("options.pubkey") is True:
                continue        # only the public key is asked for
            adds = [v_ for st_, v_ in work if call_name(v_) == "add_signature"]
            saves = [v_ for st_, v_ in work if call_name(v_) == "save_to_jsonfile"]
            n_done += 1
            oks = len(adds) == 1 and len(saves) == 1 and work and work[-1][1] is saves[0] and any(v_ is adds[0] for _, v_ in work[-2:-1]) \
                and len(saves[0].args) == 1 and D(saves[0].args[0]) == "options.output_path" and D(saves[0].func.value) == D(adds[0].func.value)
            run.check("R5", oks, f"`{op}`: ends with add_signature, then save to the output path, of one authorization", key=f"signapp|{op}|tail", where=where,
                      message=f"signapp {op} completes with {[norm(v_)[:50] for _, v_ in work[-3:]]}; expected <authorization>.add_signature(..) then the same "
                              "authorization's save_to_jsonfile(options.output_path)")
            if not oks:
                continue
            sa_t = D(adds[0].func.value)
            sig_t = D(adds[0].args[0]) if adds[0].args else ""
            if op == "manual":
                run.check("R5", sa_t == SA_OF[SV_FILE] and sig_t == "options.signature", "`manual`: the given signature is added to the existing file", key="signapp|manual|what", where=where,
                          message=f"signapp manual adds `{sig_t[:80]}` to `{sa_t[:80]}`; expected options.signature added to the authorization loaded from the output path")
                continue
            hit = None
            for sv_t, sa_want in SA_OF.items():
                if op == "key":
                    want_sig = _strip(f"ecdsa.SigningKey.from_string(bytes.fromhex(options.key), curve=ecdsa.SECP256k1).sign_digest({sv_t}.get_authorization_digest(), "
                                      "sigencode=ecdsa.util.sigencode_der).hex()")
                else:
                    want_sig = _strip(f"get_eth_dongle(options.verbose).sign(BIP32Path(options.path), {sv_t}.msg.encode('ascii')).hex()")
                if sig_t == want_sig and sa_t == sa_want:
                    hit = sv_t
            run.check("R5", hit is not None, f"`{op}`: the signature stored is the one over the stored version's message, in that version's authorization", key=f"signapp|{op}|signature", where=where,
                      message=f"signapp {op} stores `{sig_t[:200]}` in `{sa_t[:120]}`; expected the signature over V's authorization digest / message with V the version of the "
                              "authorization it is stored in (the device checks signatures against the hash and iteration in the same file)")
            if hit is None:
                continue
            if op == "key":
                okk = pcs.get("options.key is None") is False and any(k.startswith("is_hex_string_of_length(options.key, 32") and b for k, b in pcs.items())
                run.check("R5", okk, "`key`: a 32-byte hex key is required", key="signapp|key|key-checked", where=where,
                          message=f"signapp key completes under {sorted(pcs.items())[:6]} without the key having been checked to be a 32-byte hex string")
            else:
                sig_raw = sig_t[:-len(".hex()")]
                want_v = _strip(f"ecdsa.VerifyingKey.from_string(get_eth_dongle(options.verbose).get_pubkey(BIP32Path(options.path)), curve=ecdsa.SECP256k1)"
                                f".verify_digest({sig_raw}, {hit}.get_authorization_digest(), sigdecode=ecdsa.util.sigdecode_der)")
                okv = False
                for k, b in pcs.items():
                    try:
                        t_ = _strip(norm(lf.deep(ast.parse(k, mode='eval').body, stop=('options',))))
                    except SyntaxError:
                        continue
                    # the verdict itself, or a flag holding its negation
                    if (t_ in (want_v, f"bool({want_v})") and b) or (t_ in (f"not {want_v}", f"not bool({want_v})") and not b):
                        okv = True
                run.check("R5", okv, "`eth`: stored only if it verifies under the dongle's key for that path", key="signapp|eth|verified", where=where,
                          message="signapp eth stores the dongle's signature without it having verified (DER) against the authorization digest under the public key the dongle "
                                  f"reported for the same path (conditions on the path: {[k[:60] for k, b in pcs.items() if 'verify' in k]})")
    for op in ("key", "eth", "manual", "hash"):
        run.check("R5", done_per_op.get(op, 0) >= 1, f"`{op}` can be carried out", key=f"signapp|{op}|completes", where=mn.loc(),
                  message=f"with operation `{op}` no run of signapp's main() ends in exit 0: the operation can no longer be carried out")
    run.floor("R5", "completed runs of signapp examined", n_done, 8)
