"""C19 - app hashing and one-time signing bind to the application's actual code."""
import ast
import re
from sa.model import AnalysisError, Unknown, norm, unwrap
from sa.query import Facts, call_name, find_calls, try_fold, calls_in, defs_of
from sa.prov import Prov
from sa.cfg import walk_no_nested
from .c06 import _strip
from .c01 import _fold_rep
from sa.layout import Layout
from sa.decide import Walker, cmp_parts
from sa.canon import fold_consts

TECHNIQUE = ("hash-stream canonical form of the hash computation, operation-indexed decision walk of signapp, no-skip path rule of the signing loop, provenance expansion and of every value written to disk, "
             "taint-style confinement of the one-time key (which calls may receive it), module-state and "
             "caching census for key freshness")
EXPLANATION = (
    "Static analysis of /repo's current source (nothing executed). Decides: compute_app_hash feeds one "
    "fresh SHA-256 object with the full `data` of every area returned by IntelHexParser(path).getAreas(), "
    "in iteration order, unfiltered and unsliced, and returns that object's digest; the one-time key is "
    "generated inside main() by SigningKey.generate(curve=SECP256k1) with no seed argument, is not cached "
    "or stored in module/global state, and flows only into get_verifying_key() and sign_digest(); for each "
    "app of the loop the digest signed is compute_app_hash of that same path, the signature (DER, hex) goes "
    "to '<that path>.sig', and the public key file holds the uncompressed verifying key of the same key; "
    "signapp's hash operation prints the same function's result. Area ordering itself (ledgerblue's "
    "insertAreaSorted) and ECDSA are trusted."
)


def run(run):
    P, A = run.P, run.A
    F = Facts(A)
    PV = Prov(A)
    # ---------------------------------------------------------------- R1
    run.rule("R1", "compute_app_hash(path): one sha256() object; for every element a of IntelHexParser(path).getAreas(), in "
             "iteration order, update(a.data) with no filter, slice or condition; return that object's digest().")
    fn = P.func("admin.ledger_utils.compute_app_hash")
    g = A.cfg(fn, None)
    p = fn.params[0]
    L = Layout(lambda e: try_fold(P, e, fn, None))

    def stream(x):
        """canonical `H | <bytes fed>` of a hash-object expression: sha256(X) and sha256() + updates are the same stream"""
        e = ast.parse(x, mode="eval").body
        if isinstance(e, ast.Call) and norm(e.func) in ("sha256", "hashlib.sha256") and len(e.args) == 1 and not e.keywords:
            return f"sha256() | {L.canon(e.args[0])}"
        return L.canon(e)
    got = set()
    n_ret = 0
    for r in [n for n in A.own_nodes(fn) if isinstance(n, ast.Return)]:
        n_ret += 1
        v = r.value
        if not (isinstance(v, ast.Call) and isinstance(v.func, ast.Attribute) and v.func.attr == "digest" and not v.args):
            got.add("?" + norm(v))
            continue
        for rn in g.nodes_of(r):
            got |= _fold_rep({stream(x) for x in PV.expand_consistent(fn, None, v.func.value, rn)})
    want = f"sha256() | repeat(ELEM(IntelHexParser({p}).getAreas()).data)"
    run.floor("R1", "returns of compute_app_hash", n_ret, 1)
    run.check("R1", got == {want}, "digest of one fresh sha256 fed with area.data of every area, in getAreas() order", key="compute_app_hash|update-expr",
              where=fn.loc(), message=f"compute_app_hash returns the digest of {sorted(got)[:2]}, expected `{want}`: part of the image would not be covered by the "
              "hash (slice/filter) or another object is hashed")
    for u in [n for n in A.own_nodes(fn) if isinstance(n, ast.Call) and call_name(n) == "update"]:
        for un in g.nodes_of(u):
            conds = [f for f in F.local(fn, None, un)]
            run.check("R1", not conds, "every area is hashed unconditionally", key="compute_app_hash|conditional-update", where=fn.loc(u),
                      message=f"the digest update is conditional on {[c.text() for c in conds]}")
    for lp in [n for n in A.own_nodes(fn) if isinstance(n, (ast.For, ast.While))]:
        exits = [n for n in ast.walk(lp) if isinstance(n, (ast.Break, ast.Continue, ast.Return))]
        run.check("R1", isinstance(lp, ast.For) and not exits, "the area loop has no early exit", key="compute_app_hash|loop-body", where=fn.loc(lp),
                  message="the area loop can stop or skip (break / continue / return / while): not every area is hashed")
    imp = fn.module.imports.get("sha256")
    run.check("R1", imp == ("from", "hashlib", "sha256"), "sha256 is hashlib's", key="ledger_utils|sha256-import", where=fn.module.relpath,
              message=f"`sha256` in ledger_utils is imported from {imp}")
    sm = P.func("signapp.main")
    gsm = A.cfg(sm, None)
    hv = set()
    for c_ in find_calls(A, sm, "SignerVersion"):
        for cn in gsm.nodes_of(c_):
            if c_.args:
                hv |= {_strip(x) for x in PV.expand_consistent(sm, None, c_.args[0], cn, stop=("options",))}
    run.check("R1", hv == {"compute_app_hash(options.app_path).hex()"}, "signapp hash = compute_app_hash(app path)", key="signapp|hash-source",
              where=sm.loc(), message=f"signapp builds the signer version from the hash {sorted(hv)[:2]}")
    signapp_message_rule(run, PV, "R1")

    # ---------------------------------------------------------------- R2
    run.rule("R2", "One-time key: defined once, inside main(), as ecdsa.SigningKey.generate(curve=ecdsa.SECP256k1) with no "
             "entropy/seed argument; not produced by a cached/memoised helper nor kept in module, class or function-attribute "
             "state; the key flows only into .get_verifying_key() and .sign_digest(...).")
    so = P.func("signonetime.main")
    g = A.cfg(so, None)
    mod = so.module
    gens = []
    for f in P.all_functions:
        if f.module is mod:
            for n in A.own_nodes(f):
                if isinstance(n, ast.Call) and call_name(n) == "generate":
                    gens.append((f, n))
    module_level = [n for n in ast.walk(ast.Module(body=[s_ for s_ in mod.tree.body if not isinstance(s_, (ast.FunctionDef, ast.ClassDef))],
                                                   type_ignores=[])) if isinstance(n, ast.Call) and call_name(n) == "generate"]
    run.check("R2", len(gens) == 1 and not module_level, "key generated at one site, inside a function run by main()",
              key="signonetime|generate-site", where=so.loc(),
              message=f"{len(gens)} key generation sites in functions, {len(module_level)} at module level: the key must be "
                      "generated afresh inside every run")
    helper = gens[0][0] if gens and gens[0][0] is not so else None
    for f, n in gens:
        kws = {k.arg: norm(k.value) for k in n.keywords}
        run.check("R2", norm(n.func) == "ecdsa.SigningKey.generate" and kws == {"curve": "ecdsa.SECP256k1"} and not n.args,
                  "SigningKey.generate(curve=SECP256k1), default entropy", key="signonetime|generate-args", where=f.loc(n),
                  message=f"key generation is `{norm(n)}`: a fixed entropy/seed or another curve makes the key predictable or unusable")
        decos = [norm(d) for d in getattr(f.node, "decorator_list", [])]
        run.check("R2", not decos, "generator function not decorated (no caching)", key=f"signonetime|{f.name}|decorators", where=f.loc(),
                  message=f"{f.qualname} is decorated with {decos}: a cached key survives across runs in one process")
    # module-level / global state
    glob = [n for n in ast.walk(mod.tree) if isinstance(n, (ast.Global, ast.Nonlocal))]
    run.check("R2", not glob, "no global state in signonetime", key="signonetime|global", where=mod.relpath,
              message="signonetime uses global/nonlocal state: the key may be kept between runs")
    # a name bound once, at module level, to a literal text / number is a constant, not a place where a key could stay
    def _literal_const(n):
        if not (isinstance(n, ast.Assign) and len(n.targets) == 1 and isinstance(n.targets[0], ast.Name) and isinstance(n.value, ast.Constant)
                and isinstance(n.value.value, (str, int, float, bytes, bool, type(None)))):
            return False
        nm = n.targets[0].id
        return sum(1 for x in ast.walk(mod.tree) if isinstance(x, ast.Name) and x.id == nm and isinstance(x.ctx, (ast.Store, ast.Del))) == 1
    topassign = [n for n in mod.tree.body if isinstance(n, (ast.Assign, ast.AnnAssign)) and not _literal_const(n)]
    run.check("R2", not topassign, "no module-level variables", key="signonetime|module-vars", where=mod.relpath,
              message=f"signonetime has module-level variables: {[norm(n)[:40] for n in topassign]}")
    imports_cache = [k for k, v in mod.imports.items() if "functools" in str(v) or "cache" in k.lower()]
    run.check("R2", not imports_cache, "no caching helpers imported", key="signonetime|cache-imports", where=mod.relpath,
              message=f"signonetime imports caching helpers: {imports_cache}")
    # confinement
    skd = defs_of(A, so, "sk")
    run.check("R2", len(skd) == 1 and isinstance(skd[0].value, ast.Call) and
              (call_name(skd[0].value) == "generate" or (helper is not None and call_name(skd[0].value) == helper.name
                                                         and not skd[0].value.args and not skd[0].value.keywords)),
              "sk defined once from generate()", key="signonetime|sk-definitions", where=so.loc(),
              message=f"`sk` definitions: {[norm(d.value)[:50] for d in skd]}")
    par = {}
    for x in ast.walk(so.node):
        for c in ast.iter_child_nodes(x):
            par[id(c)] = x
    aliases = {"sk"}
    changed = True
    while changed:          # plain copies of the key (e.g. the parameter of an inlined helper) are the key too
        changed = False
        for n in A.own_nodes(so):
            if isinstance(n, ast.Assign) and isinstance(n.value, ast.Name) and n.value.id in aliases:
                for t in n.targets:
                    if isinstance(t, ast.Name) and t.id not in aliases:
                        aliases.add(t.id)
                        changed = True
    uses = [n for n in walk_no_nested(so.node) if isinstance(n, ast.Name) and n.id in aliases and isinstance(n.ctx, ast.Load)]
    bad = []
    for u in uses:
        pn = par.get(id(u))
        ok = isinstance(pn, ast.Attribute) and pn.attr in ("get_verifying_key", "sign_digest") and isinstance(par.get(id(pn)), ast.Call) \
            and par[id(pn)].func is pn
        ok = ok or (isinstance(pn, ast.Assign) and pn.value is u and all(isinstance(t, ast.Name) for t in pn.targets))
        if not ok:
            bad.append(u)
    run.floor("R2", "uses of sk", len(uses), 2)
    run.check("R2", not bad, "the private key flows only into get_verifying_key() and sign_digest()", key="signonetime|sk-confinement",
              where=so.loc(bad[0]) if bad else so.loc(),
              message="the one-time private key is used in `" + "`, `".join(norm(par.get(id(u), u))[:60] for u in bad) +
                      "`: it must never be logged, serialised or written")

    # ---------------------------------------------------------------- R3
    run.rule("R3", "Binding: for each app_path of the loop the signed digest is compute_app_hash(that app_path), DER-encoded; the "
             "file written is f'{app_path}.sig' and receives that signature's hex; the public key file receives the uncompressed "
             "verifying key (hex) of the same sk.")
    loops = [n for n in A.own_nodes(so) if isinstance(n, ast.For)]
    run.check("R3", len(loops) == 1 and norm(loops[0].iter) == "options.app_path.split(',')", "loop over the given apps", key="signonetime|loop",
              where=so.loc(), message="the app loop changed")
    sg = [c for c in find_calls(A, so, "sign_digest")]
    run.check("R3", len(sg) == 1, "one signing site", key="signonetime|sign-sites", where=so.loc(), message=f"{len(sg)} sign_digest sites")
    app = "ELEM(options.app_path.split(',')).strip()"
    STOP = ("sk", "options")
    # every listed image is signed and written: no way round the signing / writing inside an iteration
    for lp in loops:
        fh = [n for n in g.nodes if n.kind == "for" and n.ast is lp]
        ft = [n for n in g.nodes if n.kind == "T" and n.note == "has-item" and n.cond in fh]
        wr_nodes = [x for n in ast.walk(lp) if isinstance(n, ast.Call) and call_name(n) == "write" for x in g.nodes_of(n)]
        sg_nodes = [x for c in sg for x in g.nodes_of(c)]
        for t in ft:
            for what, nodes in (("signed", sg_nodes), ("written", wr_nodes)):
                p_ = g.witness_path(t, fh[0], avoid=set(nodes), edge_ok=lambda a, b: not g.is_exc_edge(a, b)) if nodes else [t]
                run.check("R3", p_ is None, f"every listed image is {what}", key=f"signonetime|loop|skip-{what}", where=so.loc(lp),
                          message=f"an iteration of the app loop can finish without the image being {what} (skip / continue): its .sig file would be missing or "
                                  "left over from another key", witness=g.describe_path(p_) if p_ and len(p_) > 1 else None)
    for c in sg:
        for cn in g.nodes_of(c):
            got = {_strip(x) for x in PV.expand_consistent(so, None, c.args[0], cn, stop=STOP)}
            run.check("R3", got == {_strip(f"compute_app_hash({app})")}, "signs the hash of the current app", key="signonetime|signed-digest",
                      where=so.loc(c), message=f"the signed digest is {sorted(got)[:1]}, expected compute_app_hash of the app being processed")
            run.check("R3", any(k.arg == "sigencode" and {_strip(x) for x in PV.expand_consistent(so, None, k.value, cn, stop=STOP)} == {"ecdsa.util.sigencode_der"}
                                for k in c.keywords), "DER signature",
                      key="signonetime|der", where=so.loc(c), message="the signature is not DER-encoded")
    opens = [n for n in A.own_nodes(so) if isinstance(n, ast.Call) and call_name(n) == "open"]
    withs = [n for n in A.own_nodes(so) if isinstance(n, ast.With)]
    pairs = []
    for w in withs:
        o = w.items[0].context_expr
        wr = [c for c in ast.walk(w) if isinstance(c, ast.Call) and call_name(c) == "write"]
        if isinstance(o, ast.Call) and call_name(o) == "open" and wr:
            for on in g.nodes_of(o):
                path = {_strip(x) for x in PV.expand_consistent(so, None, o.args[0], on)}
            for wn in g.nodes_of(wr[0]):
                data = {_strip(x) for x in PV.expand_consistent(so, None, wr[0].args[0], wn)}
            pairs.append((path, data, w))
    run.floor("R3", "files written", len(pairs), 2)
    want_sig = ({_strip(f"f'{{{app}}}.sig'")},
                {_strip(f"sk.sign_digest(compute_app_hash({app}), sigencode=ecdsa.util.sigencode_der).hex().encode()")})
    want_pub = ({"options.publickey_path.strip()"},
                {_strip("sk.get_verifying_key().to_string('uncompressed').hex().encode()")})
    stop_pairs = []
    for w in withs:
        o = w.items[0].context_expr
        wr = [c for c in ast.walk(w) if isinstance(c, ast.Call) and call_name(c) == "write"]
        if isinstance(o, ast.Call) and call_name(o) == "open" and wr:
            path = data = None
            for on in g.nodes_of(o):
                path = {_strip(x) for x in PV.expand_consistent(so, None, o.args[0], on, stop=STOP)}
            for wn in g.nodes_of(wr[0]):
                data = {_strip(x) for x in PV.expand_consistent(so, None, wr[0].args[0], wn, stop=STOP)}
            stop_pairs.append((path, data, w))
    from sa.canon import template_parts
    locs_so = set(PV.defs(so, None)) | set(so.params)

    def tpl(t):
        """a file name built as f"{x}.sig", x + ".sig", "%s.sig" % x or with a module constant for the suffix is one template"""
        try:
            e = fold_consts(P, ast.parse(t, mode="eval").body, so, None, locals_=locs_so)
        except SyntaxError:
            return t
        parts = template_parts(e, strip_str=False)
        if not parts or not any(k == "lit" for k, _ in parts):
            return t
        merged = []
        for k, v in parts:
            if k == "lit" and merged and merged[-1][0] == "lit":
                merged[-1] = ("lit", merged[-1][1] + v)
            elif not (k == "lit" and v == ""):
                merged.append((k, _strip(v) if k == "expr" else v))
        return "TEMPLATE" + repr(merged)
    stop_pairs = [({tpl(x) for x in p[0]}, p[1], p[2]) for p in stop_pairs]
    want_sig = ({tpl(x) for x in want_sig[0]}, want_sig[1])
    found_sig = [p for p in stop_pairs if p[0] == want_sig[0]]
    found_pub = [p for p in stop_pairs if p[0] == want_pub[0]]
    run.check("R3", len(found_sig) == 1 and found_sig[0][1] == want_sig[1], "'<app>.sig' receives that app's signature (hex)",
              key="signonetime|sig-file", where=so.loc(), message="the file '<app_path>.sig' does not receive the DER signature of "
              f"that app's hash: files written {[(sorted(p[0])[:1], sorted(p[1])[:1]) for p in stop_pairs]}")
    run.check("R3", len(found_pub) == 1 and found_pub[0][1] == want_pub[1], "public key file receives the uncompressed verifying key of sk",
              key="signonetime|pubkey-file", where=so.loc(), message="the public key file does not receive sk's uncompressed verifying key (hex)")
    run.check("R3", len(stop_pairs) == 2, "exactly two kinds of files are written", key="signonetime|files", where=so.loc(),
              message=f"signonetime writes {len(stop_pairs)} kinds of files")


def signapp_message_rule(run, PV, rid="R1"):
    """`signapp message` describes the image and iteration given on the command line (shared with C17 under a prefix)."""
    P, A = run.P, run.A
    sm = P.func("signapp.main")
    gsm = A.cfg(sm, None)
    # `message` (and every operation without an existing authorization file) describes the image given on the command line
    ops = ["hash", "message", "key", "eth", "manual"]
    fresh = _strip("SignerAuthorization.for_signer_version(SignerVersion(compute_app_hash(options.app_path).hex(), options.iteration))")
    sm_locals = set(PV.defs(sm, None)) | set(sm.params)
    for op in ("message",):
        def atom(e, op=op):
            # named operation constants (module level) count as the literals they stand for
            e = fold_consts(P, e, sm, None, locals_=sm_locals)
            cp = cmp_parts(e)
            if cp is None:
                return None
            l, o, r = cp
            if norm(l) == "options.operation":
                if o in ("==", "!=") and isinstance(r, ast.Constant):
                    return ((op == r.value) == (o == "=="), True)
                if o in ("in", "not in") and isinstance(r, (ast.List, ast.Tuple, ast.Set)) and all(isinstance(x, ast.Constant) for x in r.elts):
                    return ((op in [x.value for x in r.elts]) == (o == "in"), True)
            return None
        n_sites = 0
        for lf in Walker(A, sm, None, atom, max_leaves=2000, max_steps=60000).walk(gsm.entry):
            for k, st, v in lf.effects:
                for c_ in ([x for x in ast.walk(v) if isinstance(x, ast.Call)] if isinstance(v, ast.AST) else []):
                    if call_name(c_) in ("save_to_jsonfile", "get_authorization_msg") and isinstance(c_.func, ast.Attribute):
                        n_sites += 1
                        recv = _strip(norm(lf.deep(c_.func.value, stop=("options",))))
                        okv = recv == fresh if call_name(c_) == "save_to_jsonfile" else recv == _strip(
                            "SignerVersion(compute_app_hash(options.app_path).hex(), options.iteration)")
                        run.check(rid, okv, f"`{op}`: the authorization written / printed is the one of the given image and iteration",
                                  key=f"signapp|{op}|{call_name(c_)}-source", where=sm.loc(st),
                                  message=f"signapp {op}: `{call_name(c_)}` is applied to `{recv[:160]}`, not to the authorization freshly computed from the "
                                          "image and iteration given on the command line (an existing output file would be re-used: hash of another image)")
        run.floor(rid, f"authorization uses on the `{op}` paths", n_sites, 2)
