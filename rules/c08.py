"""C08 - the verify commands vouch only for the operator's keys and a
well-formed message."""
import ast
import re
from sa.model import AnalysisError, Unknown, norm, unwrap, Obj
from sa.query import Facts, call_name, find_calls, try_fold, calls_in, defs_of
from sa.prov import Prov
from sa.exc import ExcAnalysis
from .c06 import _strip
from .c07 import struct_table
from .common import firmware, doc

TECHNIQUE = ("must-pass-through (dominance) of every normal exit of the two verify commands by the "
             "full list of checks, each failing edge leading only to AdminError; provenance expansion "
             "of compared and printed values to slices of verified messages; struct/regex/constant "
             "agreement with docs/attestation.md and the firmware headers")
EXPLANATION = (
    "Static analysis of /repo's current source (nothing executed). Decides: every normal return of "
    "the Ledger and SGX do_verify_attestation is dominated by root-of-trust parsing (SGX: and "
    "self-validation), certificate loading, presence and validity of the ui/signer (quote) targets, "
    "header matches, UI key equality with the operator's BTC key, exact-length parsing of the "
    "powHSM message (legacy: nothing after the 32-byte hash) and equality of the reported keys hash "
    "with SHA-256 over the operator's uncompressed keys in sorted path order; the other outcome of "
    "each check can only raise; printed values are slices at the documented offsets of messages "
    "taken from valid verdicts; the message struct, header patterns and UI slice sizes agree with "
    "docs/attestation.md and the firmware. Does not decide the exact stdout text."
)


def _mconsts(run, modname):
    mod = run.P.module(modname)
    out = {}
    for k, v in mod.assigns.items():
        ok, val = run.P.try_eval(v, mod)
        if ok and isinstance(val, int) and not isinstance(val, bool):
            out[k] = val
    return out


def _fold_names(s, consts):
    for k, v in consts.items():
        s = re.sub(rf"\b{k}\b", str(v), s)
    try:
        e = ast.parse(s, mode="eval").body
        return ast.unparse(_FoldArith().visit(e))
    except SyntaxError:
        return s


class _FoldArith(ast.NodeTransformer):
    def visit_BinOp(self, node):
        self.generic_visit(node)
        if isinstance(node.op, ast.Add):
            terms = []

            def walk(x):
                if isinstance(x, ast.BinOp) and isinstance(x.op, ast.Add):
                    walk(x.left)
                    walk(x.right)
                else:
                    terms.append(x)
            walk(node)
            c = sum(t.value for t in terms if isinstance(t, ast.Constant) and isinstance(t.value, int))
            rest = [t for t in terms if not (isinstance(t, ast.Constant) and isinstance(t.value, int))]
            if len(rest) < len(terms):
                out = None
                for t in rest:
                    out = t if out is None else ast.BinOp(left=out, op=ast.Add(), right=t)
                if c or out is None:
                    k = ast.Constant(value=c)
                    out = k if out is None else ast.BinOp(left=out, op=ast.Add(), right=k)
                return out
        return node


class V:
    """Helper bound to one verify function."""

    def __init__(self, run, fn, consts, stop=()):
        self.stop = tuple(stop)
        self.run, self.fn = run, fn
        self.A, self.P = run.A, run.P
        self.F = Facts(run.A)
        self.PV = Prov(run.A, max_variants=64)
        self.g = run.A.cfg(fn, None)
        self.consts = consts
        self.E = ExcAnalysis(run.A)

    def exp(self, e, node):
        return {_strip(_fold_names(v, self.consts))
                for v in self.PV.expand_consistent(self.fn, None, e, node, stop=self.stop)}

    def facts(self, node):
        return self.F.local(self.fn, None, node)

    def fact_texts(self, node):
        """{expanded fact text} for facts dominating node."""
        out = set()
        for f in self.facts(node):
            if f.kind == "cmp":
                for l in self.exp(f.left, f.node):
                    for r in self.exp(f.right, f.node):
                        out.add(f"{l} {f.op} {r}")
            else:
                for x in self.exp(f.expr, f.node):
                    out.add(("" if f.pol else "not ") + x)
        return out

    def completed(self, node):
        out = set()
        for c, d in self.F.completed_calls(self.fn, None, node):
            for cn in self.g.nodes_of(c):
                out |= self.exp(c, cn)
        return out

    def other_edge_raises(self, cond_node, pol_ok):
        """The edge opposite to the accepted polarity cannot reach the normal exit and
        leaves through AdminError."""
        g = self.g
        opp = [n for n in g.nodes if n.kind in ("T", "F") and n.cond is cond_node and n.kind != pol_ok]
        ok = True
        for o in opp:
            if g.exit in g.reachable(o, edge_ok=lambda a, b: not g.is_exc_edge(a, b)):
                ok = False
        return ok and bool(opp)


def _check_list(run, v, rid, label, exit_node, wants, where):
    texts = v.fact_texts(exit_node)
    done = v.completed(exit_node)
    for key, alts, msg in wants:
        ok = any(a in texts or a in done for a in alts)
        run.check(rid, ok, f"{label}: {key}", key=f"{v.fn.qualname}|{key}", where=where,
                  message=f"{label} can finish without error although {msg} "
                          f"(no dominating `{alts[0]}`)")


def run(run):
    P, A = run.P, run.A
    _ledger(run)
    _sgx(run)
    _message(run)
    _keys_hash(run)


def _admin_error_only(run, v, rid):
    """Every failing edge of a dominating check raises (AdminError); nothing is demoted to a warning."""
    g = v.g
    exit_doms = g.dominators(g.exit)
    n = 0
    for d in exit_doms:
        if d.kind in ("T", "F") and d.cond is not None and d.cond.kind == "cond":
            n += 1
            ok = v.other_edge_raises(d.cond, d.kind)
            run.check(rid, ok, f"failing `{norm(d.ast)[:50]}` cannot reach the normal exit",
                      key=f"{v.fn.qualname}|{norm(d.ast)[:60]}|fail-edge", where=v.fn.loc(d.ast),
                      message=f"when `{norm(d.ast)[:60]}` fails, {v.fn.qualname} can still finish normally")
    esc = v.E.esc(v.fn, None)
    bad = sorted(e for e in esc if e not in ("AdminError",))
    run.extra.setdefault("escapes", {})[v.fn.qualname] = sorted(esc)
    return n


def _ledger(run):
    P, A = run.P, run.A
    run.rule("R1", "Ledger do_verify_attestation: every normal exit is dominated by: HSMCertificateRoot(root) "
             "built; certificate loaded; 'ui' in result and its verdict true; UI header regex matched; "
             "ui_public_key (33 bytes after header+32) == operator's key at m/44'/0'/0'/0/0 compressed; "
             "'signer' in result and verdict true; legacy or powHSM header; legacy: nothing after the "
             "32-byte hash / current: PowHsmAttestationMessage parsed; reported keys hash == "
             "compute_pubkeys_hash(load_pubkeys(file)). The failing outcome of each raises.")
    fn = P.func("admin.verify_ledger_attestation.do_verify_attestation")
    consts = _mconsts(run, "admin.verify_ledger_attestation")
    v = V(run, fn, consts, stop=("att_cert", "root_authority"))
    g = v.g
    ad = defs_of(A, fn, "att_cert")
    run.check("R1", len(ad) == 1 and norm(ad[0].value) == "HSMCertificate.from_jsonfile(options.attestation_certificate_file_path)",
              "att_cert is the certificate loaded from the given file", key=f"{fn.qualname}|att_cert-source", where=fn.loc(),
              message="att_cert is not (only) the certificate loaded from the given file")
    rd = [norm(d.value) for d in defs_of(A, fn, "root_authority")]
    run.check("R1", sorted(rd) == sorted(["DEFAULT_ROOT_AUTHORITY", "options.root_authority", "HSMCertificateRoot(root_authority)"]),
              "root_authority is the default or the operator-chosen key, parsed", key=f"{fn.qualname}|root-source", where=fn.loc(),
              message=f"root_authority definitions changed: {rd}")
    UI = "bytes.fromhex(result['ui'][1])"
    UIS = "att_cert.validate_and_get_values(root_authority)"
    texts = v.fact_texts(g.exit)
    done = v.completed(g.exit)
    # result comes from validate_and_get_values of the loaded certificate with the parsed root
    rdefs = defs_of(A, fn, "result")
    run.check("R1", len(rdefs) == 1 and norm(rdefs[0].value) == "att_cert.validate_and_get_values(root_authority)",
              "result = att_cert.validate_and_get_values(root_authority)", key=f"{fn.qualname}|result-source",
              where=fn.loc(), message="`result` is not the chain validation of the loaded certificate against the chosen root")
    res = "att_cert.validate_and_get_values(root_authority)"

    def has(*alts):
        return any(a in texts or a in done for a in alts)
    H = "len(UI_MESSAGE_HEADER_REGEX.match(UIMSG).group(0))"
    uimsg = f"bytes.fromhex({res}['ui'][1])"
    hl = f"len(UI_MESSAGE_HEADER_REGEX.match({uimsg}).group(0))"
    expected_key = ("next(filter(lambda pair: pair[0] == UI_DERIVATION_PATH, load_pubkeys(options.pubkeys_file_path).items()), "
                    "(None, None))[1].serialize(compressed=True).hex()")
    wants = [
        ("root-parsed", ["HSMCertificateRoot(root_authority)"],
         "the root authority was never parsed"),
        ("certificate-loaded", ["HSMCertificate.from_jsonfile(options.attestation_certificate_file_path)"],
         "the certificate file was never loaded"),
        ("ui-present", [f"'ui' in {res}"], "the certificate has no `ui` target"),
        ("ui-valid", [f"{res}['ui'][0]"], "the UI chain did not validate"),
        ("ui-header", [f"UI_MESSAGE_HEADER_REGEX.match({uimsg}) is not None"], "the UI message header does not match"),
        ("ui-key", [f"{_strip(uimsg + '[' + hl + ' + 32:' + hl + ' + 65].hex()')} == {_strip(expected_key)}"],
         "the UI-attested public key differs from the operator's BTC key"),
        ("signer-present", [f"'signer' in {res}"], "the certificate has no `signer` target"),
        ("signer-valid", [f"{res}['signer'][0]"], "the Signer chain did not validate"),
    ]
    for key, alts, msg in wants:
        alts = [_strip(_fold_names(a, consts)) for a in alts]
        ok = any(a in texts or a in done for a in alts)
        run.check("R1", ok, f"ledger verify: {key}", key=f"{fn.qualname}|{key}", where=fn.loc(),
                  message=f"the Ledger verify command can finish without error although {msg} "
                          f"(no dominating `{alts[0][:120]}`)")
    # header: legacy or current
    smsg = f"bytes.fromhex({res}['signer'][1])"
    hdr_conds = [n for n in g.nodes if n.kind == "cond" and "is_header" in norm(n.ast)]
    lm_conds = [n for n in g.nodes if n.kind == "cond" and norm(n.ast) == "lmh_match is None"]
    run.check("R1", bool(hdr_conds) and bool(lm_conds), "signer header tests present", key=f"{fn.qualname}|signer-header-tests",
              where=fn.loc(), message="the signer message header tests vanished")
    for hc in hdr_conds:
        # reaching the exit with is_header false requires the legacy match
        fnode = [n for n in g.nodes if n.kind == "F" and n.cond is hc]
        facts_f = v.fact_texts(fnode[0]) if fnode else set()
        ok = v.other_edge_raises(hc, "T") and any("lmh_match" in norm(f.left) and f.op == "is" for f in v.facts(hc)
                                                   if f.kind == "cmp")
        run.check("R1", ok, "neither legacy nor powHSM header => error", key=f"{fn.qualname}|signer-header",
                  where=fn.loc(hc.ast), message="a signer message with neither the legacy nor the powHSM header "
                  "does not end in an error")
    # hash comparison
    want_ph0 = {_strip("compute_pubkeys_hash(load_pubkeys(options.pubkeys_file_path))")}
    hc = [n for n in g.nodes if n.kind == "cond" and isinstance(n.ast, ast.Compare) and len(n.ast.ops) == 1
          and isinstance(n.ast.ops[0], (ast.Eq, ast.NotEq))
          and (v.exp(n.ast.left, n) == want_ph0 or v.exp(n.ast.comparators[0], n) == want_ph0)]
    run.require(len(hc) == 1, "ledger verify: the keys-hash comparison vanished")
    hcn = hc[0]
    run.check("R1", g.dominates(hcn, g.exit) and isinstance(hcn.ast.ops[0], ast.NotEq) and v.other_edge_raises(hcn, "F"),
              "keys hash compared (whole value) before success", key=f"{fn.qualname}|hash-compare", where=fn.loc(hcn.ast),
              message="the reported public-keys hash is not compared for equality with the computed one on every path")
    sides = {"reported_pubkeys_hash": None, "pubkeys_hash": None}
    for side in (hcn.ast.left, hcn.ast.comparators[0]):
        e_ = v.exp(side, hcn)
        sides["pubkeys_hash" if e_ == want_ph0 else "reported_pubkeys_hash"] = e_
    want_ph = {_strip("compute_pubkeys_hash(load_pubkeys(options.pubkeys_file_path))")}
    run.check("R1", sides.get("pubkeys_hash") == want_ph, "expected hash = compute_pubkeys_hash(load_pubkeys(file))",
              key=f"{fn.qualname}|expected-hash", where=fn.loc(hcn.ast),
              message=f"the expected keys hash is {sorted(sides.get('pubkeys_hash') or [])[:1]}, not the hash of the operator's keys")
    shl = f"len(SIGNER_LEGACY_MESSAGE_HEADER_REGEX.match({smsg}).group(0))"
    want_rep = {_strip(f"{smsg}[{shl}:]"), _strip(f"PowHsmAttestationMessage({smsg}, name='Signer').public_keys_hash")}
    rep = sides.get("reported_pubkeys_hash") or set()
    run.check("R1", rep == want_rep, "reported hash = rest of the legacy message / public_keys_hash field",
              key=f"{fn.qualname}|reported-hash", where=fn.loc(hcn.ast),
              message="the reported keys hash is taken from somewhere else than the signed signer message: "
                      f"{sorted(rep - want_rep)[:2]}")
    # legacy: nothing after the hash
    tail_conds = [n for n in g.nodes if n.kind == "cond" and isinstance(n.ast, ast.Compare)
                  and norm(n.ast.comparators[0]) == "b''" and isinstance(n.ast.ops[0], ast.NotEq)]
    okt = False
    for tc in tail_conds:
        le = v.exp(tc.ast.left, tc)
        if le == {_strip(_fold_names(f"{smsg}[{shl} + 32:]", consts))} and v.other_edge_raises(tc, "F"):
            # and it lies on every legacy path to the hash comparison
            legacy_T = [n for n in g.nodes if n.kind == "T" and n.cond is not None and norm(n.cond.ast) == "lmh_match is not None"]
            fedge = [n for n in g.nodes if n.kind == "F" and n.cond is tc]
            if legacy_T and fedge and g.all_paths_pass(legacy_T[0], hcn, set(fedge)):
                okt = True
    run.check("R1", okt, "legacy message: nothing after the 32-byte hash", key=f"{fn.qualname}|legacy-exact-length",
              where=fn.loc(), message="on the legacy-header path a signer message with extra bytes after the "
              "32-byte keys hash is not rejected (the length check is missing, bounded, or made on an already "
              "truncated slice)")
    # current: parse
    cur_F = [n for n in g.nodes if n.kind == "F" and n.cond is not None and norm(n.cond.ast) == "lmh_match is not None"]
    pm = [x for c in find_calls(A, fn, "PowHsmAttestationMessage") if norm(c.func) == "PowHsmAttestationMessage" for x in g.nodes_of(c)]
    run.check("R1", bool(cur_F) and bool(pm) and g.all_paths_pass(cur_F[0], hcn, set(pm)),
              "current format: PowHsmAttestationMessage parsed (exact length)", key=f"{fn.qualname}|current-parse",
              where=fn.loc(), message="on the powHSM-header path the message is not parsed by PowHsmAttestationMessage "
              "before the hash comparison")
    n = _admin_error_only(run, v, "R1")
    run.floor("R1", "dominating checks of the Ledger verify exit", n, 9)
    # printed values
    run.rule("R4", "Printed values come from verified messages at the documented offsets: UD value = "
             "ui[h:h+32], UI key = ui[h+32:h+65], signer hash = ui[h+65:h+97], iteration = big-endian "
             "ui[h+97:h+99] (h = matched header length, ui = hexdecode of the valid `ui` verdict's value); "
             "installed hashes are the verdicts' tweaks; signer fields are PowHsmAttestationMessage fields.")
    heads = [c for c in find_calls(A, fn, "head")]
    run.floor("R4", "head() reports", len(heads), 3)
    want = {
        "ud_value": f"{uimsg}[{hl}:{hl} + 32].hex()",
        "ui_public_key": f"{uimsg}[{hl} + 32:{hl} + 65].hex()",
        "signer_hash": None,
        "signer_iteration": f"int.from_bytes({uimsg}[{hl} + 97:{hl} + 99], byteorder='big', signed=False)",
        "ui_hash": f"bytes.fromhex({res}['ui'][2])",
        "ui_version": f"UI_MESSAGE_HEADER_REGEX.match({uimsg}).group(1)",
    }
    uih = heads[1]
    names = sorted({n.id for n in ast.walk(uih) if isinstance(n, ast.Name) and n.id in want})
    for nm in names:
        for hn in g.nodes_of(uih):
            got = v.exp(ast.Name(id=nm, ctx=ast.Load()), hn)
            w = want[nm]
            if nm == "signer_hash":
                w = f"{uimsg}[{hl} + 65:{hl} + 97].hex()"
            ws = {_strip(_fold_names(w, consts))}
            run.check("R4", got == ws, f"printed {nm} is the documented slice", key=f"{fn.qualname}|printed|{nm}",
                      where=fn.loc(uih), message=f"printed `{nm}` is {sorted(got)[:1]}, documented source is {sorted(ws)}")
    run.floor("R4", "UI printed fields", len(names), 6)
    sh = heads[2]
    for hn in g.nodes_of(sh):
        got = v.exp(ast.Name(id="signer_hash", ctx=ast.Load()), hn)
        run.check("R4", got == {_strip(f"bytes.fromhex({res}['signer'][2])")}, "installed signer hash is the signer verdict's tweak",
                  key=f"{fn.qualname}|printed|installed-signer-hash", where=fn.loc(sh),
                  message=f"printed installed Signer hash is {sorted(got)[:1]}")
        pm_names = {norm(n) for n in ast.walk(ast.Module(body=[s for s in fn.node.body], type_ignores=[]))
                    if isinstance(n, ast.Attribute) and isinstance(n.value, ast.Name) and n.value.id == "powhsm_message"}
        run.check("R4", pm_names <= {"powhsm_message.version", "powhsm_message.public_keys_hash", "powhsm_message.platform",
                                     "powhsm_message.ud_value", "powhsm_message.best_block", "powhsm_message.last_signed_tx",
                                     "powhsm_message.timestamp"},
                  "signer details are fields of the parsed signed message", key=f"{fn.qualname}|printed|powhsm-fields",
                  where=fn.loc(sh), message=f"unexpected powhsm_message fields printed: {sorted(pm_names)}")
    # UI slice sizes vs firmware
    c = consts
    run.check("R4", (c.get("UD_VALUE_LENGTH"), c.get("PUBKEY_COMPRESSED_LENGTH"), c.get("SIGNER_HASH_LENGTH"),
                     c.get("SIGNER_ITERATION_LENGTH"), c.get("PUBLIC_KEYS_HASH_LENGTH")) == (32, 33, 32, 2, 32),
              "UI message field sizes 32|33|32|2, keys hash 32", key="verify_ledger_attestation|sizes",
              where="middleware/admin/verify_ledger_attestation.py", message=f"field size constants changed: {c}")
    udp = P.module_const("admin.verify_ledger_attestation", "UI_DERIVATION_PATH")
    run.check("R4", udp == "m/44'/0'/0'/0/0", "UI key path is the BTC path", key="verify_ledger_attestation|ui-path",
              where="middleware/admin/verify_ledger_attestation.py", message=f"UI_DERIVATION_PATH is {udp}")


def _sgx(run):
    P, A = run.P, run.A
    run.rule("R1s", "SGX do_verify_attestation: every normal exit is dominated by: root of trust loaded and "
             "self-validated (root.is_valid(root)); keys loaded and hashed; certificate loaded; 'quote' in result "
             "and verdict true; powHSM header; PowHsmAttestationMessage parsed (exact length); reported keys "
             "hash == computed hash. The failing outcome of each raises AdminError.")
    fn = P.func("admin.verify_sgx_attestation.do_verify_attestation")
    v = V(run, fn, {})
    g = v.g
    texts = v.fact_texts(g.exit)
    done = v.completed(g.exit)
    root = "get_root_of_trust(options.root_authority or DEFAULT_ROOT_AUTHORITY)"
    res = f"HSMCertificate.from_jsonfile(options.attestation_certificate_file_path).validate_and_get_values({root})"
    msg = f"bytes.fromhex({res}['quote'][1]['message'])"
    wants = [
        ("root-loaded", [root], "the root of trust was never loaded"),
        ("root-self-valid", [f"{root}.is_valid({root})"], "the root of trust was not checked to be self-signed/valid"),
        ("certificate-loaded", ["HSMCertificate.from_jsonfile(options.attestation_certificate_file_path)"], "the certificate was never loaded"),
        ("quote-present", [f"'quote' in {res}"], "the certificate has no `quote` target"),
        ("quote-valid", [f"{res}['quote'][0]"], "the quote chain did not validate"),
        ("header", [f"PowHsmAttestationMessage.is_header({msg})"], "the custom message lacks the powHSM header"),
        ("parsed", [f"PowHsmAttestationMessage({msg})"], "the powHSM message was not parsed (exact-length check)"),
        ("hash", [f"PowHsmAttestationMessage({msg}).public_keys_hash == compute_pubkeys_hash(load_pubkeys(options.pubkeys_file_path))"],
         "the reported keys hash differs from the hash of the operator's keys"),
    ]
    for key, alts, m in wants:
        alts = [_strip(a) for a in alts]
        ok = any(a in texts or a in done for a in alts)
        run.check("R1s", ok, f"sgx verify: {key}", key=f"{fn.qualname}|{key}", where=fn.loc(),
                  message=f"the SGX verify command can finish without error although {m} (no dominating `{alts[0][:140]}`)")
    n = _admin_error_only(run, v, "R1s")
    run.floor("R1s", "dominating checks of the SGX verify exit", n, 5)
    heads = find_calls(A, fn, "head")
    sq = [norm(n) for n in ast.walk(fn.node) if isinstance(n, ast.Attribute) and norm(n).startswith("sgx_quote.")]
    run.check("R4", set(sq) <= {"sgx_quote.report_body", "sgx_quote.report_body.mrenclave", "sgx_quote.report_body.mrsigner",
                                "sgx_quote.report_body.mrenclave.hex", "sgx_quote.report_body.mrsigner.hex"},
              "MRENCLAVE / MRSIGNER come from the verified quote", key=f"{fn.qualname}|printed|quote-fields", where=fn.loc(),
              message=f"unexpected quote fields printed: {sorted(set(sq))}")
    for hn in g.nodes_of(heads[-1]):
        got = v.exp(ast.Name(id="sgx_quote", ctx=ast.Load()), hn)
        run.check("R4", got == {_strip(f"{res}['quote'][1]['sgx_quote']")}, "sgx_quote is the valid verdict's parsed quote",
                  key=f"{fn.qualname}|printed|sgx_quote-source", where=fn.loc(), message=f"sgx_quote is {sorted(got)[:1]}")


def _message(run):
    P, A = run.P, run.A
    F = Facts(A)
    run.rule("R2", "PowHsmAttestationMessage.__init__ raises unless the header regex matches and "
             "len(value[offset:]) == len(header) + struct size; the struct is platform 3 | ud_value 32 | "
             "public_keys_hash 32 | best_block 32 | last_signed_tx 8 | timestamp 8 (docs/attestation.md order, "
             "115 bytes); header pattern ^POWHSM:(5.[0-9]):: ; legacy/UI patterns ^HSM:SIGNER:/^HSM:UI:.")
    M = P.cls("admin.attestation_utils.PowHsmAttestationMessage")
    ini = P.method(M, "__init__")
    ef = {f.text() for f in F.exit_facts(ini, M)}
    run.check("R2", "match is not None" in ef, "header must match", key="PowHsmAttestationMessage.__init__|header",
              where=ini.loc(), message="PowHsmAttestationMessage can be built from a message without the header")
    run.check("R2", "len(value[offset:]) == expected_length" in ef, "exact length enforced",
              key="PowHsmAttestationMessage.__init__|exact-length", where=ini.loc(),
              message="PowHsmAttestationMessage no longer requires len(message) == header + struct size exactly "
                      "(truncated or extended messages would be accepted)")
    el = defs_of(A, ini, "expected_length")
    hl = defs_of(A, ini, "header_length")
    run.check("R2", len(el) == 1 and norm(el[0].value) == "header_length + self.get_bytelength()"
              and len(hl) == 1 and norm(hl[0].value) == "len(match.group(0))",
              "expected length = matched header + struct size", key="PowHsmAttestationMessage.__init__|expected-length",
              where=ini.loc(), message="expected_length is not len(header) + struct size")
    sup = [c for c in find_calls(A, ini, "__init__")]
    run.check("R2", len(sup) == 1 and [norm(a) for a in sup[0].args] == ["value", "offset + header_length", "little"],
              "struct parsed right after the header", key="PowHsmAttestationMessage.__init__|parse-offset", where=ini.loc(),
              message="the struct is not parsed at offset + header length")
    t = struct_table(run)
    run.require("pow_hsm_message_header" in t, "PowHsmAttestationMessage struct spec vanished")
    sz, fm, ci = t["pow_hsm_message_header"]
    want = [("platform", 3), ("ud_value", 32), ("public_keys_hash", 32), ("best_block", 32), ("last_signed_tx", 8), ("timestamp", 8)]
    off = 0
    for nm, s in want:
        run.check("R2", fm.get(nm) == (off, s), f"{nm} at {off} (+{s})", key=f"PowHsmAttestationMessage|{nm}|offset",
                  where=ci.module.relpath, message=f"PowHsmAttestationMessage.{nm} is at {fm.get(nm)}, documented ({off}, {s})")
        off += s
    run.check("R2", sz == 115 and len(fm) == 6, "struct is 115 bytes, 6 fields", key="PowHsmAttestationMessage|size",
              where=ci.module.relpath, message=f"PowHsmAttestationMessage struct is {sz} bytes / {len(fm)} fields")
    # docs: field list sizes
    d = doc(run, "attestation.md").text
    sec = d[d.index("## powHSM attestation contents"):d.index("## Attestation file formats")]
    sizes = [int(x) for x in re.findall(r"^- An? (\d+)[- ]byte", sec, re.M)]
    run.check("R2", sizes == [3, 32, 32, 32, 8, 8], "docs/attestation.md lists 3|32|32|32|8|8",
              key="docs|powhsm-message-fields", where="docs/attestation.md",
              message=f"docs/attestation.md lists field sizes {sizes}")
    hr = P.class_const(M, "HEADER_REGEX")
    run.check("R2", isinstance(hr, Obj) and hr.args and hr.args[0] == b"^POWHSM:(5.[0-9])::", "header regex",
              key="PowHsmAttestationMessage.HEADER_REGEX|pattern", where=M.module.relpath, message=f"HEADER_REGEX is {hr}")
    fw = firmware(run)
    pre = fw.define("powhsm/src/attestation.h", "ATT_MSG_PREFIX") if "ATT_MSG_PREFIX" in fw.file("powhsm/src/attestation.h").defines() else None
    if pre is not None:
        run.check("R2", isinstance(pre, str) and re.match(rb"^POWHSM:(5.[0-9])::", pre.encode()) is not None,
                  f"firmware prefix `{pre}` matches the header regex", key="firmware|ATT_MSG_PREFIX", where="firmware/src/powhsm/src/attestation.h",
                  message=f"firmware ATT_MSG_PREFIX `{pre}` does not match the verifier's header pattern")
    else:
        run.note("ATT_MSG_PREFIX not found as a plain #define; prefix agreement with firmware not checked")
    for nm, pat in (("UI_MESSAGE_HEADER_REGEX", b"^HSM:UI:([2345].[0-9])"), ("SIGNER_LEGACY_MESSAGE_HEADER_REGEX", b"^HSM:SIGNER:([2345].[0-9])")):
        r = P.module_const("admin.verify_ledger_attestation", nm)
        run.check("R2", isinstance(r, Obj) and r.args and r.args[0] == pat, f"{nm} pattern", key=f"verify_ledger_attestation|{nm}",
                  where="middleware/admin/verify_ledger_attestation.py", message=f"{nm} is {r}")
    ih = P.method(M, "is_header")
    rr = [n for n in A.own_nodes(ih) if isinstance(n, ast.Return)]
    run.check("R2", len(rr) == 1 and norm(rr[0].value) == "cls.HEADER_REGEX.match(value) is not None", "is_header uses the header regex",
              key="PowHsmAttestationMessage.is_header|expr", where=ih.loc(), message="is_header changed")


def _keys_hash(run):
    P, A = run.P, run.A
    F = Facts(A)
    PV = Prov(A)
    run.rule("R3", "compute_pubkeys_hash: one SHA-256 object, updated with pubkey.serialize(compressed=False) of "
             "pubkeys_map[path] for path in sorted(pubkeys_map.keys()) (plain lexicographic sort), its digest "
             "returned; an empty map raises; load_pubkeys parses every value as a secp256k1 key or raises.")
    fn = P.func("admin.attestation_utils.compute_pubkeys_hash")
    g = A.cfg(fn, None)
    loops = [n for n in ast.walk(fn.node) if isinstance(n, ast.For)]
    run.require(len(loops) == 1, "compute_pubkeys_hash: loop not found")
    lp = loops[0]
    it = lp.iter
    ok_sort = isinstance(it, ast.Call) and call_name(it) == "sorted" and not it.keywords and len(it.args) == 1 \
        and norm(it.args[0]) in ("pubkeys_map.keys()", "pubkeys_map")
    run.check("R3", ok_sort, "keys iterated in sorted(paths) order (no custom key, not reversed)",
              key="compute_pubkeys_hash|order", where=fn.loc(lp),
              message=f"compute_pubkeys_hash iterates `{norm(it)}`: the documented order is the plain lexicographic "
                      "order of the path strings (a custom sort key / reverse changes the hash for unusual paths)")
    ups = [n for n in ast.walk(lp) if isinstance(n, ast.Call) and call_name(n) == "update"]
    run.check("R3", len(ups) == 1, "one update per key", key="compute_pubkeys_hash|updates", where=fn.loc(lp),
              message=f"{len(ups)} digest updates per key")
    for u in ups:
        for un in g.nodes_of(u):
            got = {_strip(x) for x in PV.expand_consistent(fn, None, u, un)}
            want = _strip(f"hashlib.sha256().update(pubkeys_map[ELEM({norm(it)})].serialize(compressed=False))")
            run.check("R3", got == {want}, "update(uncompressed key of that path)", key="compute_pubkeys_hash|update-expr",
                      where=fn.loc(u), message=f"digest update is {sorted(got)[:1]}, expected `{want}`")
    rr = [n for n in A.own_nodes(fn) if isinstance(n, ast.Return)]
    for r in rr:
        for rn in g.nodes_of(r):
            got = {_strip(x) for x in PV.expand_consistent(fn, None, r.value, rn)}
            run.check("R3", got == {"hashlib.sha256().digest()"}, "returns the digest of that object",
                      key="compute_pubkeys_hash|return", where=fn.loc(r), message=f"returns {sorted(got)}")
            facts = {f.text() for f in F.local(fn, None, rn)}
            run.check("R3", "len(pubkeys_map) != 0" in facts, "empty key map is an error", key="compute_pubkeys_hash|empty",
                      where=fn.loc(r), message="compute_pubkeys_hash accepts an empty key map")
    hs = [n for n in A.own_nodes(fn) if isinstance(n, ast.Call) and norm(n.func) == "hashlib.sha256"]
    run.check("R3", len(hs) == 1 and not hs[0].args, "single fresh SHA-256 object", key="compute_pubkeys_hash|hash-object",
              where=fn.loc(), message="compute_pubkeys_hash does not use exactly one fresh sha256 object")
    lp_ = P.func("admin.attestation_utils.load_pubkeys")
    pk = [n for n in A.own_nodes(lp_) if isinstance(n, ast.Call) and norm(n.func) == "ec.PublicKey"]
    run.check("R3", len(pk) == 1 and norm(pk[0]) == "ec.PublicKey(bytes.fromhex(pubkey), raw=True)", "keys parsed as secp256k1 points",
              key="load_pubkeys|parse", where=lp_.loc(), message="load_pubkeys no longer parses each value with ec.PublicKey")
    st = [n for n in A.own_nodes(lp_) if isinstance(n, ast.Assign) and norm(n.targets[0]) == "result[path]"]
    run.check("R3", len(st) == 1 and norm(st[0].value) == "pubkey", "result keyed by the file's path strings",
              key="load_pubkeys|store", where=lp_.loc(), message="load_pubkeys does not store each key under its path")
