"""C08 - the verify commands vouch only for the operator's keys and a
well-formed message."""
import ast
import re
from sa.model import AnalysisError, Unknown, norm, unwrap, Obj
from sa.query import Facts, call_name, find_calls, try_fold, calls_in, defs_of
from sa.prov import Prov
from sa.exc import ExcAnalysis
from .c06 import _strip
from .c01 import _fold_rep
from sa.canon import hash_stream, canon_dict_iter
from sa.layout import Layout
from .c07 import struct_table
from .common import firmware, doc

TECHNIQUE = ("must-pass-through (dominance, path rules on the last test of each header family) of every normal exit of the two verify commands by the "
             "full list of checks, each failing edge leading only to AdminError; provenance expansion "
             "of compared and printed values to slices of verified messages; struct/regex/constant "
             "agreement with docs/attestation.md and the firmware headers")
EXPLANATION = (
    "Static analysis of /repo's current source (nothing executed). Decides: every normal return of "
    "the Ledger and SGX do_verify_attestation is dominated by root-of-trust parsing (SGX: and "
    "self-validation), certificate loading, presence and validity of the ui/signer (quote) targets, "
    "header matches, UI key equality with the operator's BTC key, exact-length parsing of the "
    "powHSM message (legacy: nothing after the 32-byte hash) and equality of the reported keys hash "
    "with SHA-256 over the operator's uncompressed keys in sorted path order; the other outcome of "
    "each check can only raise; printed values are slices at the documented offsets of messages "
    "taken from valid verdicts; the message struct, header patterns and UI slice sizes agree with "
    "docs/attestation.md and the firmware. Does not decide the exact stdout text."
)


def _mconsts(run, modname):
    mod = run.P.module(modname)
    out = {}
    for k, v in mod.assigns.items():
        ok, val = run.P.try_eval(v, mod)
        if ok and isinstance(val, int) and not isinstance(val, bool):
            out[k] = val
    return out


def _fold_names(s, consts):
    for k, v in consts.items():
        s = re.sub(rf"\b{k}\b", str(v), s)
    try:
        e = ast.parse(s, mode="eval").body
        return ast.unparse(_FoldArith().visit(e))
    except SyntaxError:
        return s


class _FoldArith(ast.NodeTransformer):
    def visit_BinOp(self, node):
        self.generic_visit(node)
        if isinstance(node.op, ast.Add):
            terms = []

            def walk(x):
                if isinstance(x, ast.BinOp) and isinstance(x.op, ast.Add):
                    walk(x.left)
                    walk(x.right)
                else:
                    terms.append(x)
            walk(node)
            c = sum(t.value for t in terms if isinstance(t, ast.Constant) and isinstance(t.value, int))
            rest = [t for t in terms if not (isinstance(t, ast.Constant) and isinstance(t.value, int))]
            if len(rest) < len(terms):
                out = None
                for t in rest:
                    out = t if out is None else ast.BinOp(left=out, op=ast.Add(), right=t)
                if c or out is None:
                    k = ast.Constant(value=c)
                    out = k if out is None else ast.BinOp(left=out, op=ast.Add(), right=k)
                return out
        return node


class V:
    """Helper bound to one verify function."""

    def __init__(self, run, fn, consts, stop=()):
        self.stop = tuple(stop)
        self.run, self.fn = run, fn
        self.A, self.P = run.A, run.P
        self.F = Facts(run.A)
        self.PV = Prov(run.A, max_variants=64)
        self.g = run.A.cfg(fn, None)
        self.consts = consts
        self.E = ExcAnalysis(run.A)

    def exp(self, e, node):
        return {_strip(_fold_names(v, self.consts))
                for v in self.PV.expand_consistent(self.fn, None, e, node, stop=self.stop)}

    def facts(self, node):
        return self.F.local(self.fn, None, node)

    def fact_texts(self, node):
        """{expanded fact text} for facts dominating node."""
        out = set()
        for f in self.facts(node):
            if f.kind == "cmp":
                for l in self.exp(f.left, f.node):
                    for r in self.exp(f.right, f.node):
                        out.add(f"{l} {f.op} {r}")
            else:
                for x in self.exp(f.expr, f.node):
                    out.add(("" if f.pol else "not ") + x)
        return out

    def completed(self, node):
        out = set()
        for c, d in self.F.completed_calls(self.fn, None, node):
            for cn in self.g.nodes_of(c):
                out |= self.exp(c, cn)
        return out

    def other_edge_raises(self, cond_node, pol_ok):
        """The edge opposite to the accepted polarity cannot reach the normal exit and
        leaves through AdminError."""
        g = self.g
        opp = [n for n in g.nodes if n.kind in ("T", "F") and n.cond is cond_node and n.kind != pol_ok]
        ok = True
        for o in opp:
            if g.exit in g.reachable(o, edge_ok=lambda a, b: not g.is_exc_edge(a, b)):
                ok = False
        return ok and bool(opp)


def _check_list(run, v, rid, label, exit_node, wants, where):
    texts = v.fact_texts(exit_node)
    done = v.completed(exit_node)
    for key, alts, msg in wants:
        # a completed call stands for `loaded` / `parsed` only; a check must hold as a fact (a negated test completes the call as well)
        ok = any(a in texts or (a in done and (key.endswith("-loaded") or key.endswith("parsed"))) for a in alts)
        run.check(rid, ok, f"{label}: {key}", key=f"{v.fn.qualname}|{key}", where=where,
                  message=f"{label} can finish without error although {msg} "
                          f"(no dominating `{alts[0]}`)")


def run(run):
    P, A = run.P, run.A
    _ledger(run)
    _sgx(run)
    _message(run)
    _keys_hash(run)
    # "accepted only if the chain verifies": the verdicts both verify commands rely on come from the shared chain walk
    from . import c06
    run.rid_prefix = "W."
    try:
        c06.chain_walk(run, Facts(A), Prov(A), P.cls("admin.certificate_v1.HSMCertificate"))
    finally:
        run.rid_prefix = ""


def _admin_error_only(run, v, rid):
    """Every failing edge of a dominating check raises (AdminError); nothing is demoted to a warning."""
    g = v.g
    exit_doms = g.dominators(g.exit)
    n = 0
    for d in exit_doms:
        if d.kind in ("T", "F") and d.cond is not None and d.cond.kind == "cond":
            n += 1
            ok = v.other_edge_raises(d.cond, d.kind)
            run.check(rid, ok, f"failing `{norm(d.ast)[:50]}` cannot reach the normal exit",
                      key=f"{v.fn.qualname}|{norm(d.ast)[:60]}|fail-edge", where=v.fn.loc(d.ast),
                      message=f"when `{norm(d.ast)[:60]}` fails, {v.fn.qualname} can still finish normally")
    esc = v.E.esc(v.fn, None)
    bad = sorted(e for e in esc if e not in ("AdminError",))
    run.extra.setdefault("escapes", {})[v.fn.qualname] = sorted(esc)
    return n


def _ledger(run):
    P, A = run.P, run.A
    run.rule("R1", "Ledger do_verify_attestation: every normal exit is dominated by: HSMCertificateRoot(root) "
             "built; certificate loaded; 'ui' in result and its verdict true; UI header regex matched; "
             "ui_public_key (33 bytes after header+32) == operator's key at m/44'/0'/0'/0/0 compressed; "
             "'signer' in result and verdict true; legacy or powHSM header; legacy: nothing after the "
             "32-byte hash / current: PowHsmAttestationMessage parsed; reported keys hash == "
             "compute_pubkeys_hash(load_pubkeys(file)). The failing outcome of each raises.")
    fn = P.func("admin.verify_ledger_attestation.do_verify_attestation")
    consts = _mconsts(run, "admin.verify_ledger_attestation")
    v = V(run, fn, consts, stop=("att_cert", "root_authority"))
    g = v.g
    ad = defs_of(A, fn, "att_cert")
    run.check("R1", len(ad) == 1 and norm(ad[0].value) == "HSMCertificate.from_jsonfile(options.attestation_certificate_file_path)",
              "att_cert is the certificate loaded from the given file", key=f"{fn.qualname}|att_cert-source", where=fn.loc(),
              message="att_cert is not (only) the certificate loaded from the given file")
    # the root of trust: HSMCertificateRoot(<the operator's key when one is given and is hex, else the built-in default>).  Decided on the table of
    # paths to the constructor call: GIVEN = (options.root_authority is not None), HEX = is_nonempty_hex_string(options.root_authority).
    from sa.decide import Walker, cmp_parts

    def root_atom(e):
        cp = cmp_parts(e)
        if cp is not None:
            l, op, r = cp
            if norm(l) == "options.root_authority" and isinstance(r, ast.Constant) and r.value is None and op in ("is", "is not", "==", "!="):
                return ("GIVEN", op in ("is not", "!="))
        if isinstance(e, ast.Call) and norm(e) == "is_nonempty_hex_string(options.root_authority)":
            return ("HEX", True)
        return None
    rc = [c for c in find_calls(A, fn, "HSMCertificateRoot") if norm(c.func) == "HSMCertificateRoot"]
    run.check("R1", len(rc) == 1 and len(rc[0].args) == 1, "one HSMCertificateRoot(..) construction", key=f"{fn.qualname}|root-source", where=fn.loc(),
              message=f"the root of trust is constructed {len(rc)} times")
    n_root = 0
    for c in rc[:1]:
        for cn in g.nodes_of(c):
            for lf in Walker(A, fn, None, root_atom).walk(g.entry, stops={cn}):
                if lf.kind != "stop":
                    okx = lf.kind == "raise" and isinstance(lf.value, ast.Call) and norm(lf.value.func) == "AdminError"
                    run.check("R1", okx, "before the root is parsed the command only leaves through AdminError", key=f"{fn.qualname}|root-source|early-exit",
                              where=fn.loc(lf.node.ast) if lf.node.ast is not None else fn.loc(), message=f"the command does `{lf.kind}` at line {lf.node.lineno} before a root of trust exists")
                    continue
                n_root += 1
                arg = norm(lf.deep(c.args[0]))
                given, hx = lf.pc.get("GIVEN"), lf.pc.get("HEX")
                if given:
                    okx = arg == "options.root_authority" and hx is True
                    why = f"with a root authority given the constructor gets `{arg}` (hex check passed: {hx})"
                else:
                    okx = given is False and arg in ("DEFAULT_ROOT_AUTHORITY", norm(ast.Constant(value=consts.get("DEFAULT_ROOT_AUTHORITY")))) 
                    why = f"with no root authority given ({'tested' if given is False else 'never tested'}) the constructor gets `{arg}`"
                run.check("R1", okx, "root = the operator's hex key if given, else the default", key=f"{fn.qualname}|root-source", where=fn.loc(c),
                          message=f"{why}; expected the validated options.root_authority when given, DEFAULT_ROOT_AUTHORITY otherwise")
    run.floor("R1", "paths to the root construction", n_root, 2)
    PVr = Prov(A, max_variants=64)
    ra_ = {_strip(x) for c in find_calls(A, fn, "validate_and_get_values") for cn in g.nodes_of(c) for a_ in c.args[:1]
           for x in PVr.expand_consistent(fn, None, a_, cn)}
    dflt_ = {"DEFAULT_ROOT_AUTHORITY", norm(ast.Constant(value=consts.get("DEFAULT_ROOT_AUTHORITY")))}
    okr_ = bool(ra_) and all(x.startswith("HSMCertificateRoot(") and x.endswith(")") and (x[len("HSMCertificateRoot("):-1] in dflt_ | {"options.root_authority"})
                             for x in ra_)
    run.check("R1", okr_, "the chain is validated against the root just constructed", key=f"{fn.qualname}|root-parsed", where=fn.loc(),
              message=f"validate_and_get_values is given {sorted(ra_)[:4]}, not the HSMCertificateRoot built from the chosen root authority")
    UI = "bytes.fromhex(result['ui'][1])"
    UIS = "att_cert.validate_and_get_values(root_authority)"
    texts = v.fact_texts(g.exit)
    done = v.completed(g.exit)
    # result comes from validate_and_get_values of the loaded certificate with the parsed root
    rdefs = defs_of(A, fn, "result")
    run.check("R1", len(rdefs) == 1 and norm(rdefs[0].value) == "att_cert.validate_and_get_values(root_authority)",
              "result = att_cert.validate_and_get_values(root_authority)", key=f"{fn.qualname}|result-source",
              where=fn.loc(), message="`result` is not the chain validation of the loaded certificate against the chosen root")
    res = "att_cert.validate_and_get_values(root_authority)"

    def has(*alts):
        return any(a in texts or a in done for a in alts)
    H = "len(UI_MESSAGE_HEADER_REGEX.match(UIMSG).group(0))"
    uimsg = f"bytes.fromhex({res}['ui'][1])"
    hl = f"len(UI_MESSAGE_HEADER_REGEX.match({uimsg}).group(0))"
    expected_key = "load_pubkeys(options.pubkeys_file_path).get(UI_DERIVATION_PATH).serialize(compressed=True).hex()"
    wants = [
        ("certificate-loaded", ["HSMCertificate.from_jsonfile(options.attestation_certificate_file_path)"],
         "the certificate file was never loaded"),
        ("ui-present", [f"'ui' in {res}"], "the certificate has no `ui` target"),
        ("ui-valid", [f"{res}['ui'][0]"], "the UI chain did not validate"),
        ("ui-header", [f"UI_MESSAGE_HEADER_REGEX.match({uimsg}) is not None"], "the UI message header does not match"),
        ("ui-key", [f"{_strip(uimsg + '[' + hl + ' + 32:' + hl + ' + 65].hex()')} == {_strip(expected_key)}"],
         "the UI-attested public key differs from the operator's BTC key"),
        ("signer-present", [f"'signer' in {res}"], "the certificate has no `signer` target"),
        ("signer-valid", [f"{res}['signer'][0]"], "the Signer chain did not validate"),
    ]
    for key, alts, msg in wants:
        alts = [_strip(_fold_names(a, consts)) for a in alts]
        ok = any(a in texts or (a in done and key.endswith("-loaded")) for a in alts)
        run.check("R1", ok, f"ledger verify: {key}", key=f"{fn.qualname}|{key}", where=fn.loc(),
                  message=f"the Ledger verify command can finish without error although {msg} "
                          f"(no dominating `{alts[0][:120]}`)")
    # header: legacy or current
    smsg = f"bytes.fromhex({res}['signer'][1])"
    from sa.query import make_facts

    def edge_texts(en):
        out = set()
        for f in make_facts(en.kind, en.ast, fn, en.cond):
            if f.kind == "cmp":
                for l in v.exp(f.left, en.cond):
                    for r in v.exp(f.right, en.cond):
                        out.add(f"{l} {f.op} {r}")
            else:
                for x in v.exp(f.expr, en.cond):
                    out.add(("" if f.pol else "not ") + x)
        return out
    lm = _strip(f"SIGNER_LEGACY_MESSAGE_HEADER_REGEX.match({smsg})")
    ih = _strip(f"PowHsmAttestationMessage.is_header({smsg})")
    legacy_edges, current_edges, header_edges = [], [], []
    for en in [n for n in g.nodes if n.kind in ("T", "F") and n.cond is not None and n.cond.kind == "cond"]:
        ts = edge_texts(en)
        if f"{lm} is not None" in ts:
            legacy_edges.append(en)
        if f"{lm} is None" in ts:
            current_edges.append(en)
        if ih in ts:
            header_edges.append(en)
    def last(edges, others):
        """edges after which no further test of the same family follows"""
        conds = {e.cond for e in edges + others}
        return [e for e in edges if not any(c is not e.cond and c in g.reachable(e, edge_ok=lambda a, b: not g.is_exc_edge(a, b)) for c in conds)]
    legacy_last = last(legacy_edges, current_edges)
    current_last = last(current_edges + header_edges, legacy_edges)
    run.check("R1", bool(legacy_edges) and bool(header_edges), "signer header tests present", key=f"{fn.qualname}|signer-header-tests",
              where=fn.loc(), message="the signer message header tests (legacy regex match / PowHsmAttestationMessage.is_header) vanished")
    noexc = lambda a, b: not g.is_exc_edge(a, b)   # noqa: E731
    p_ = g.witness_path(g.entry, g.exit, avoid=set(legacy_edges) | set(header_edges), edge_ok=noexc)
    run.check("R1", p_ is None, "neither legacy nor powHSM header => error", key=f"{fn.qualname}|signer-header",
              where=fn.loc(), message="a signer message with neither the legacy nor the powHSM header does not end in an error",
              witness=g.describe_path(p_) if p_ else None)
    # hash comparison: at the normal exit `reported == expected` holds, whole values, for both message formats
    want_ph0 = _strip("compute_pubkeys_hash(load_pubkeys(options.pubkeys_file_path))")
    shl = f"len(SIGNER_LEGACY_MESSAGE_HEADER_REGEX.match({smsg}).group(0))"
    want_rep = {_strip(_fold_names(f"{smsg}[{shl}:]", consts)), _strip(f"PowHsmAttestationMessage({smsg}, name='Signer').public_keys_hash")}
    rep = set()
    for t in texts:
        if t.endswith(" == " + want_ph0):
            rep.add(t[:-len(" == " + want_ph0)])
        elif t.startswith(want_ph0 + " == "):
            rep.add(t[len(want_ph0 + " == "):])
    run.check("R1", bool(rep), "keys hash compared (whole value) before success", key=f"{fn.qualname}|hash-compare", where=fn.loc(),
              message="the reported public-keys hash is not compared for equality with compute_pubkeys_hash(load_pubkeys(file)) on every path to success")
    from sa.canon import canon_sums as _cs0
    rep, want_rep = {_strip(_cs0(x)) for x in rep}, {_strip(_cs0(x)) for x in want_rep}
    run.check("R1", rep == want_rep or not rep, "reported hash = rest of the legacy message / public_keys_hash field",
              key=f"{fn.qualname}|reported-hash", where=fn.loc(),
              message="the reported keys hash is taken from somewhere else than the signed signer message: "
                      f"{sorted(rep - want_rep)[:2]}")
    hc_nodes = [n.cond for n in g.dominators(g.exit) if n.kind in ("T", "F") and n.cond is not None and n.cond.kind == "cond"
                and any((" == " + want_ph0) in t or (want_ph0 + " == ") in t for t in edge_texts(n))]
    run.require(len(hc_nodes) >= 1 or not rep, "ledger verify: the keys-hash comparison node was not identified")
    hcn = hc_nodes[0] if hc_nodes else None
    # legacy: nothing after the hash
    tail_want = _strip(_fold_names(f"{smsg}[{shl} + 32:]", consts))
    from sa.canon import canon_sums as _cs
    len_want = {_strip(_cs(_fold_names(f"len({smsg}) <= {shl} + 32", consts))), _strip(_cs(_fold_names(f"len({smsg}) == {shl} + 32", consts)))}
    from sa.canon import compose_slices as _cmp_sl
    tail_c = _strip(_cmp_sl(tail_want))
    tail_ok_edges = [en for en in g.nodes if en.kind in ("T", "F") and en.cond is not None and en.cond.kind == "cond"
                     and (f"{tail_want} == b''" in edge_texts(en) or f"len({tail_want}) == 0" in edge_texts(en)
                          # the same slice written relative to the reported hash (`reported[32:]`), or tested for emptiness by its truth value
                          or any(_strip(_cmp_sl(t)) in (f"{tail_c} == b''", f"not {tail_c}", f"len({tail_c}) == 0") for t in edge_texts(en))
                          # no byte beyond the hash: the whole message is no longer than header + 32
                          or any(_strip(_cs(t)) in len_want for t in edge_texts(en)))]
    okt = bool(tail_ok_edges) and hcn is not None and all(g.all_paths_pass(le, hcn, set(tail_ok_edges)) for le in legacy_last) and bool(legacy_last)
    run.check("R1", okt, "legacy message: nothing after the 32-byte hash", key=f"{fn.qualname}|legacy-exact-length",
              where=fn.loc(), message="on the legacy-header path a signer message with extra bytes after the "
              "32-byte keys hash is not rejected (the length check is missing, bounded, or made on an already "
              "truncated slice)")
    # current: parse
    pm = [x for c in find_calls(A, fn, "PowHsmAttestationMessage") if norm(c.func) == "PowHsmAttestationMessage" for x in g.nodes_of(c)]
    run.check("R1", bool(current_last) and bool(pm) and hcn is not None and all(g.all_paths_pass(ce, hcn, set(pm)) for ce in current_last),
              "current format: PowHsmAttestationMessage parsed (exact length)", key=f"{fn.qualname}|current-parse",
              where=fn.loc(), message="on the powHSM-header path the message is not parsed by PowHsmAttestationMessage "
              "before the hash comparison")
    # ... and the converse for the header test: a signer message is refused for its header only when it has neither the legacy nor the powHSM header
    from sa.decide import subst as _subst
    starts = [d.cnode for nm_, ds_ in v.PV.defs(fn, None).items() for d in ds_
              if d.value is not None and _strip(norm(d.value)).startswith("SIGNER_LEGACY_MESSAGE_HEADER_REGEX.match(") and d.cnode is not None]
    if starts and hcn is not None:
        st_ = {"W": None}

        def hres(e):
            b = st_["W"]._bind or {}
            for _ in range(6):
                nm_ = {x.id for x in ast.walk(e) if isinstance(x, ast.Name)}
                hit = {k: v_ for k, v_ in b.items() if k in nm_}
                if not hit:
                    break
                e = _subst(e, hit)
            return e

        def hatom(e):
            cp = cmp_parts(e)
            if cp is not None:
                l, op, r = cp
                if isinstance(r, ast.Constant) and r.value is None and op in ("is", "is not", "==", "!=") \
                        and _strip(norm(hres(l))).startswith("SIGNER_LEGACY_MESSAGE_HEADER_REGEX.match("):
                    return ("LEGACY", op in ("is not", "!="))
            x = hres(e)
            if isinstance(x, ast.Call) and _strip(norm(x.func)) == "PowHsmAttestationMessage.is_header":
                return ("POWHSM", True)
            return None
        Wh = Walker(A, fn, None, hatom, max_leaves=256, max_steps=40000)
        st_["W"] = Wh
        nh = 0
        for lf in Wh.walk(starts[0], stops={hcn}):
            keys = list(lf.pc)
            neither = lf.pc.get("LEGACY") is False and lf.pc.get("POWHSM") is False
            nh += 1
            if lf.kind == "raise" and keys and keys[-1] in ("LEGACY", "POWHSM"):
                run.check("R1", neither, "refused for its header only with neither header", key=f"{fn.qualname}|signer-header|refusal|{sorted(lf.pc.items())}"[:120],
                          where=fn.loc(lf.node.ast) if lf.node.ast is not None else fn.loc(),
                          message=f"the signer message is refused on its header test under {[(k, b) for k, b in lf.pc.items() if k in ('LEGACY', 'POWHSM')]}: a genuine legacy "
                                  "or powHSM signer attestation cannot be verified")
            elif lf.kind == "stop":
                run.check("R1", not neither, "a message with neither header does not get to the hash comparison", key=f"{fn.qualname}|signer-header|accept", where=fn.loc(),
                          message="a signer message with neither header reaches the public-keys hash comparison")
        run.floor("R1", "paths through the signer header tests", nh, 3)
    n = _admin_error_only(run, v, "R1")
    run.floor("R1", "dominating checks of the Ledger verify exit", n, 9)
    # printed values
    run.rule("R4", "Printed values come from verified messages at the documented offsets: UD value = "
             "ui[h:h+32], UI key = ui[h+32:h+65], signer hash = ui[h+65:h+97], iteration = big-endian "
             "ui[h+97:h+99] (h = matched header length, ui = hexdecode of the valid `ui` verdict's value); "
             "installed hashes are the verdicts' tweaks; signer fields are PowHsmAttestationMessage fields.")
    heads = [c for c in find_calls(A, fn, "head")]
    run.floor("R4", "head() reports", len(heads), 3)
    want = {
        "ud_value": f"{uimsg}[{hl}:{hl} + 32].hex()",
        "ui_public_key": f"{uimsg}[{hl} + 32:{hl} + 65].hex()",
        "signer_hash": None,
        "signer_iteration": f"int.from_bytes({uimsg}[{hl} + 97:{hl} + 99], byteorder='big', signed=False)",
        "ui_hash": f"bytes.fromhex({res}['ui'][2])",
        "ui_version": f"UI_MESSAGE_HEADER_REGEX.match({uimsg}).group(1)",
    }
    uih = heads[1]
    names = sorted({n.id for n in ast.walk(uih) if isinstance(n, ast.Name) and n.id in want})
    for nm in names:
        for hn in g.nodes_of(uih):
            got = v.exp(ast.Name(id=nm, ctx=ast.Load()), hn)
            w = want[nm]
            if nm == "signer_hash":
                w = f"{uimsg}[{hl} + 65:{hl} + 97].hex()"
            ws = {_strip(_fold_names(w, consts))}
            run.check("R4", got == ws, f"printed {nm} is the documented slice", key=f"{fn.qualname}|printed|{nm}",
                      where=fn.loc(uih), message=f"printed `{nm}` is {sorted(got)[:1]}, documented source is {sorted(ws)}")
    run.floor("R4", "UI printed fields", len(names), 6)
    sh = heads[2]
    for hn in g.nodes_of(sh):
        got = v.exp(ast.Name(id="signer_hash", ctx=ast.Load()), hn)
        run.check("R4", got == {_strip(f"bytes.fromhex({res}['signer'][2])")}, "installed signer hash is the signer verdict's tweak",
                  key=f"{fn.qualname}|printed|installed-signer-hash", where=fn.loc(sh),
                  message=f"printed installed Signer hash is {sorted(got)[:1]}")
        pm_names = {norm(n) for n in ast.walk(ast.Module(body=[s for s in fn.node.body], type_ignores=[]))
                    if isinstance(n, ast.Attribute) and isinstance(n.value, ast.Name) and n.value.id == "powhsm_message"}
        run.check("R4", pm_names <= {"powhsm_message.version", "powhsm_message.public_keys_hash", "powhsm_message.platform",
                                     "powhsm_message.ud_value", "powhsm_message.best_block", "powhsm_message.last_signed_tx",
                                     "powhsm_message.timestamp"},
                  "signer details are fields of the parsed signed message", key=f"{fn.qualname}|printed|powhsm-fields",
                  where=fn.loc(sh), message=f"unexpected powhsm_message fields printed: {sorted(pm_names)}")
    # UI slice sizes vs firmware
    c = consts
    run.check("R4", (c.get("UD_VALUE_LENGTH"), c.get("PUBKEY_COMPRESSED_LENGTH"), c.get("SIGNER_HASH_LENGTH"),
                     c.get("SIGNER_ITERATION_LENGTH"), c.get("PUBLIC_KEYS_HASH_LENGTH")) == (32, 33, 32, 2, 32),
              "UI message field sizes 32|33|32|2, keys hash 32", key="verify_ledger_attestation|sizes",
              where="middleware/admin/verify_ledger_attestation.py", message=f"field size constants changed: {c}")
    udp = P.module_const("admin.verify_ledger_attestation", "UI_DERIVATION_PATH")
    run.check("R4", udp == "m/44'/0'/0'/0/0", "UI key path is the BTC path", key="verify_ledger_attestation|ui-path",
              where="middleware/admin/verify_ledger_attestation.py", message=f"UI_DERIVATION_PATH is {udp}")


def _sgx(run):
    P, A = run.P, run.A
    run.rule("R1s", "SGX do_verify_attestation: every normal exit is dominated by: root of trust loaded and "
             "self-validated (root.is_valid(root)); keys loaded and hashed; certificate loaded; 'quote' in result "
             "and verdict true; powHSM header; PowHsmAttestationMessage parsed (exact length); reported keys "
             "hash == computed hash. The failing outcome of each raises AdminError.")
    fn = P.func("admin.verify_sgx_attestation.do_verify_attestation")
    v = V(run, fn, {})
    g = v.g
    texts = v.fact_texts(g.exit)
    done = v.completed(g.exit)
    # the root of trust is the operator's choice or the default (`A or B` is analysed as its two cases, normal form N6)
    roots = ["get_root_of_trust(options.root_authority)", "get_root_of_trust(DEFAULT_ROOT_AUTHORITY)"]

    def forms(root):
        res = f"HSMCertificate.from_jsonfile(options.attestation_certificate_file_path).validate_and_get_values({root})"
        msg = f"bytes.fromhex({res}['quote'][1]['message'])"
        return res, msg, [
            ("root-loaded", root, "the root of trust was never loaded"),
            ("root-self-valid", f"{root}.is_valid({root})", "the root of trust was not checked to be self-signed/valid"),
            ("certificate-loaded", "HSMCertificate.from_jsonfile(options.attestation_certificate_file_path)", "the certificate was never loaded"),
            ("quote-present", f"'quote' in {res}", "the certificate has no `quote` target"),
            ("quote-valid", f"{res}['quote'][0]", "the quote chain did not validate"),
            ("header", f"PowHsmAttestationMessage.is_header({msg})", "the custom message lacks the powHSM header"),
            ("parsed", f"PowHsmAttestationMessage({msg})", "the powHSM message was not parsed (exact-length check)"),
            ("hash", f"PowHsmAttestationMessage({msg}).public_keys_hash == compute_pubkeys_hash(load_pubkeys(options.pubkeys_file_path))",
             "the reported keys hash differs from the hash of the operator's keys"),
        ]
    per_key = {}
    for root in roots:
        res, msg, wants = forms(root)
        for key, a, m in wants:
            a = _strip(a)
            # loading / parsing is a call that completed; a check is a fact that holds (a negated test also completes the call)
            holds = (a in done or a in texts) if key in ("root-loaded", "certificate-loaded", "parsed") else (a in texts)
            per_key.setdefault(key, []).append((holds, a, m))
    for key, lst in per_key.items():
        ok = all(x[0] for x in lst)
        miss = next((x for x in lst if not x[0]), lst[0])
        run.check("R1s", ok, f"sgx verify: {key}", key=f"{fn.qualname}|{key}", where=fn.loc(),
                  message=f"the SGX verify command can finish without error although {miss[2]} (no dominating `{miss[1][:140]}`)")
    res = None
    n = _admin_error_only(run, v, "R1s")
    run.floor("R1s", "dominating checks of the SGX verify exit", n, 5)
    heads = find_calls(A, fn, "head")
    sq = [norm(n) for n in ast.walk(fn.node) if isinstance(n, ast.Attribute) and norm(n).startswith("sgx_quote.")]
    run.check("R4", set(sq) <= {"sgx_quote.report_body", "sgx_quote.report_body.mrenclave", "sgx_quote.report_body.mrsigner",
                                "sgx_quote.report_body.mrenclave.hex", "sgx_quote.report_body.mrsigner.hex"},
              "MRENCLAVE / MRSIGNER come from the verified quote", key=f"{fn.qualname}|printed|quote-fields", where=fn.loc(),
              message=f"unexpected quote fields printed: {sorted(set(sq))}")
    for hn in g.nodes_of(heads[-1]):
        got = v.exp(ast.Name(id="sgx_quote", ctx=ast.Load()), hn)
        run.check("R4", got == {_strip(f"{forms(r_)[0]}['quote'][1]['sgx_quote']") for r_ in roots}, "sgx_quote is the valid verdict's parsed quote",
                  key=f"{fn.qualname}|printed|sgx_quote-source", where=fn.loc(), message=f"sgx_quote is {sorted(got)[:1]}")


def _message(run):
    P, A = run.P, run.A
    F = Facts(A)
    run.rule("R2", "PowHsmAttestationMessage.__init__ raises unless the header regex matches and "
             "len(value[offset:]) == len(header) + struct size; the struct is platform 3 | ud_value 32 | "
             "public_keys_hash 32 | best_block 32 | last_signed_tx 8 | timestamp 8 (docs/attestation.md order, "
             "115 bytes); header pattern ^POWHSM:(5.[0-9]):: ; legacy/UI patterns ^HSM:SIGNER:/^HSM:UI:.")
    M = P.cls("admin.attestation_utils.PowHsmAttestationMessage")
    ini = P.method(M, "__init__")
    PVm = Prov(A)
    from sa.canon import canon_sums
    ef = {_strip(canon_sums(t)) for t in F.exit_texts(ini, M, PVm)}
    mt = "self.HEADER_REGEX.match(value)"
    run.check("R2", f"{mt} is not None" in ef or "match is not None" in ef, "header must match", key="PowHsmAttestationMessage.__init__|header",
              where=ini.loc(), message="PowHsmAttestationMessage can be built from a message without the header")
    run.check("R2", _strip(canon_sums(f"len(value[offset:]) == len({mt}.group(0)) + self.get_bytelength()")) in ef, "exact length enforced",
              key="PowHsmAttestationMessage.__init__|exact-length", where=ini.loc(),
              message="PowHsmAttestationMessage no longer requires len(message) == len(matched header) + struct size exactly "
                      "(truncated or extended messages would be accepted)")
    sup = [c for c in find_calls(A, ini, "__init__")]
    gi_ = A.cfg(ini, M)
    oksup = len(sup) == 1 and len(sup[0].args) == 3
    if oksup:
        for cn in gi_.nodes_of(sup[0]):
            a1 = {_strip(canon_sums(x)) for x in PVm.expand_consistent(ini, M, sup[0].args[1], cn)}
            oksup = norm(sup[0].args[0]) == "value" and a1 == {_strip(canon_sums(f"offset + len({mt}.group(0))"))} and norm(sup[0].args[2]) == "little"
    run.check("R2", oksup, "struct parsed right after the header", key="PowHsmAttestationMessage.__init__|parse-offset", where=ini.loc(),
              message="the struct is not parsed at offset + header length")
    t = struct_table(run)
    run.require("pow_hsm_message_header" in t, "PowHsmAttestationMessage struct spec vanished")
    sz, fm, ci = t["pow_hsm_message_header"]
    want = [("platform", 3), ("ud_value", 32), ("public_keys_hash", 32), ("best_block", 32), ("last_signed_tx", 8), ("timestamp", 8)]
    off = 0
    for nm, s in want:
        run.check("R2", fm.get(nm) == (off, s), f"{nm} at {off} (+{s})", key=f"PowHsmAttestationMessage|{nm}|offset",
                  where=ci.module.relpath, message=f"PowHsmAttestationMessage.{nm} is at {fm.get(nm)}, documented ({off}, {s})")
        off += s
    # field types and decoding: raw byte arrays in the spec; platform decoded as ASCII, timestamp as a big-endian unsigned integer
    spec_doc = ast.get_docstring(ci.node, clean=False) or ""
    spec_lines = [re.sub(r"\s+", " ", l.strip()) for l in spec_doc.split("\n") if l.strip()][1:]
    run.check("R2", spec_lines == [f"uint8_t {nm} {s_}" for nm, s_ in want], "every field is a raw byte array in the struct spec",
              key="PowHsmAttestationMessage|field-types", where=ci.module.relpath,
              message=f"PowHsmAttestationMessage spec is {spec_lines}: a field declared as an integer type is decoded with the struct's (little-endian) "
                      "byte order instead of the documented big-endian one")
    conv = {}
    for n_ in A.own_nodes(ini):
        if isinstance(n_, ast.Assign) and len(n_.targets) == 1 and isinstance(n_.targets[0], ast.Attribute) and norm(n_.targets[0].value) == "self" \
                and n_.targets[0].attr in [w[0] for w in want]:
            conv[n_.targets[0].attr] = _strip(norm(n_.value))
    run.check("R2", conv == {"platform": _strip("self.platform.decode('ASCII')"),
                             "timestamp": _strip("int.from_bytes(self.timestamp, byteorder='big', signed=False)")},
              "platform decoded as ASCII, timestamp as big-endian unsigned", key="PowHsmAttestationMessage|conversions", where=ini.loc(),
              message=f"field conversions after parsing are {conv}; documented: platform ASCII text, timestamp big-endian unsigned integer, everything else raw bytes")
    run.check("R2", sz == 115 and len(fm) == 6, "struct is 115 bytes, 6 fields", key="PowHsmAttestationMessage|size",
              where=ci.module.relpath, message=f"PowHsmAttestationMessage struct is {sz} bytes / {len(fm)} fields")
    # docs: field list sizes
    d = doc(run, "attestation.md").text
    sec = d[d.index("## powHSM attestation contents"):d.index("## Attestation file formats")]
    sizes = [int(x) for x in re.findall(r"^- An? (\d+)[- ]byte", sec, re.M)]
    run.check("R2", sizes == [3, 32, 32, 32, 8, 8], "docs/attestation.md lists 3|32|32|32|8|8",
              key="docs|powhsm-message-fields", where="docs/attestation.md",
              message=f"docs/attestation.md lists field sizes {sizes}")
    hr = P.class_const(M, "HEADER_REGEX")
    run.check("R2", isinstance(hr, Obj) and hr.args and hr.args[0] == b"^POWHSM:(5.[0-9])::", "header regex",
              key="PowHsmAttestationMessage.HEADER_REGEX|pattern", where=M.module.relpath, message=f"HEADER_REGEX is {hr}")
    fw = firmware(run)
    pre = fw.define("powhsm/src/attestation.h", "ATT_MSG_PREFIX") if "ATT_MSG_PREFIX" in fw.file("powhsm/src/attestation.h").defines() else None
    if pre is not None:
        run.check("R2", isinstance(pre, str) and re.match(rb"^POWHSM:(5.[0-9])::", pre.encode()) is not None,
                  f"firmware prefix `{pre}` matches the header regex", key="firmware|ATT_MSG_PREFIX", where="firmware/src/powhsm/src/attestation.h",
                  message=f"firmware ATT_MSG_PREFIX `{pre}` does not match the verifier's header pattern")
    else:
        run.note("ATT_MSG_PREFIX not found as a plain #define; prefix agreement with firmware not checked")
    header_patterns(run, "R2")
    ih = P.method(M, "is_header")
    rr = [n for n in A.own_nodes(ih) if isinstance(n, ast.Return)]
    ihv = set()
    if len(rr) == 1 and rr[0].value is not None:
        gi = A.cfg(ih, M)
        ihv = {_strip(x) for rn in gi.nodes_of(rr[0]) for x in PVm.expand_consistent(ih, M, rr[0].value, rn)}
    run.check("R2", ihv == {_strip(f"cls.HEADER_REGEX.match({ih.params[1]}) is not None")}, "is_header uses the header regex",
              key="PowHsmAttestationMessage.is_header|expr", where=ih.loc(), message="is_header changed")


def header_patterns(run, rid="R2"):
    """Header patterns of the Ledger verify command: fixed-width `major.minor` (shared with C15)."""
    P = run.P
    for nm, pat in (("UI_MESSAGE_HEADER_REGEX", b"^HSM:UI:([2345].[0-9])"), ("SIGNER_LEGACY_MESSAGE_HEADER_REGEX", b"^HSM:SIGNER:([2345].[0-9])")):
        r = P.module_const("admin.verify_ledger_attestation", nm)
        run.check(rid, isinstance(r, Obj) and r.args and r.args[0] == pat, f"{nm} pattern", key=f"verify_ledger_attestation|{nm}",
                  where="middleware/admin/verify_ledger_attestation.py",
                  message=f"{nm} is {r}: the headers carry no terminator, so anything but the fixed-width `x.y` pattern lets payload bytes that look like digits "
                          "be swallowed into the version and shifts every field offset (genuine devices rejected / wrong values reported)")


def _keys_hash(run):
    P, A = run.P, run.A
    F = Facts(A)
    PV = Prov(A)
    run.rule("R3", "compute_pubkeys_hash: one SHA-256 object, updated with pubkey.serialize(compressed=False) of "
             "pubkeys_map[path] for path in sorted(pubkeys_map.keys()) (plain lexicographic sort), its digest "
             "returned; an empty map raises; load_pubkeys parses every value as a secp256k1 key or raises.")
    fn = P.func("admin.attestation_utils.compute_pubkeys_hash")
    g = A.cfg(fn, None)
    pm_ = fn.params[0]
    L = Layout(lambda e: try_fold(P, e, fn, None))
    got = set()
    rr = [n for n in A.own_nodes(fn) if isinstance(n, ast.Return)]
    run.floor("R3", "returns of compute_pubkeys_hash", len(rr), 1)
    for r in rr:
        v = r.value
        if not (isinstance(v, ast.Call) and isinstance(v.func, ast.Attribute) and v.func.attr == "digest" and not v.args):
            got.add("?" + norm(v))
            continue
        for rn in g.nodes_of(r):
            got |= _fold_rep({canon_dict_iter(hash_stream(L, x)) for x in PV.expand_consistent(fn, None, v.func.value, rn)})
            facts = {_strip(t) for t in F.expanded(fn, None, rn, PV)}
            run.check("R3", f"len({pm_}) != 0" in facts or f"len({pm_}) > 0" in facts or pm_ in facts, "empty key map is an error", key="compute_pubkeys_hash|empty",
                      where=fn.loc(r), message="compute_pubkeys_hash accepts an empty key map")
    wants = {f"hashlib.sha256() | repeat({pm_}[ELEM(sorted({pm_}.keys()))].serialize(compressed=False))",
             f"hashlib.sha256() | repeat({pm_}[ELEM(sorted({pm_}))].serialize(compressed=False))"}
    run.check("R3", len(got) == 1 and got <= wants, "SHA-256 over the uncompressed keys in plain lexicographic path order", key="compute_pubkeys_hash|update-expr",
              where=fn.loc(), message=f"compute_pubkeys_hash returns the digest of {sorted(got)[:2]}; the documented value is `{sorted(wants)[0]}` (a custom "
              "sort key / reverse / another serialisation changes the hash)")
    for u in [n for n in A.own_nodes(fn) if isinstance(n, ast.Call) and call_name(n) == "update"]:
        for un in g.nodes_of(u):
            conds = [f.text() for f in F.local(fn, None, un) if f.text() not in (f"len({pm_}) != 0",)]
            run.check("R3", not conds, "every key is hashed unconditionally", key="compute_pubkeys_hash|conditional-update", where=fn.loc(u),
                      message=f"the digest update is conditional on {conds}")
    for lp in [n for n in A.own_nodes(fn) if isinstance(n, (ast.For, ast.While))]:
        exits = [n for n in ast.walk(lp) if isinstance(n, (ast.Break, ast.Continue, ast.Return))]
        run.check("R3", isinstance(lp, ast.For) and not exits, "the key loop has no early exit", key="compute_pubkeys_hash|loop-body", where=fn.loc(lp),
                  message="the key loop can stop or skip: not every key is hashed")
    lp_ = P.func("admin.attestation_utils.load_pubkeys")
    gl = A.cfg(lp_, None)
    st = [n for n in A.own_nodes(lp_) if isinstance(n, ast.Assign) and isinstance(n.targets[0], ast.Subscript) and norm(n.targets[0].value) == "result"]
    oks = len(st) == 1
    gotk = gotv = None
    if oks:
        for sn in gl.nodes_of(st[0]):
            gotk = {canon_dict_iter(x, dicts=("pubkeys_map",)) for x in PV.expand_consistent(lp_, None, st[0].targets[0].slice, sn, stop=("pubkeys_map",))}
            gotv = {canon_dict_iter(x, dicts=("pubkeys_map",)) for x in PV.expand_consistent(lp_, None, st[0].value, sn, stop=("pubkeys_map",))}
        oks = gotk == {"KEY(pubkeys_map)"} and gotv == {"ec.PublicKey(bytes.fromhex(VAL(pubkeys_map)), raw=True)"}
    # ... for every entry of the file: the loop neither skips nor stops (an entry left out changes the hash the operator's keys are compared by)
    for lp in [n for n in A.own_nodes(lp_) if isinstance(n, (ast.For, ast.While))]:
        skips = [n for n in ast.walk(lp) if isinstance(n, (ast.Break, ast.Continue))]
        inl = {id(x) for x in ast.walk(lp)}
        conds = [f.text() for s_ in st for sn in gl.nodes_of(s_) for f in F.local(lp_, None, sn) if f.node is not None and f.node.ast is not None and id(f.node.ast) in inl]
        run.check("R3", isinstance(lp, ast.For) and not skips and not conds, "every entry of the keys file is loaded", key="load_pubkeys|every-entry", where=lp_.loc(lp),
                  message=f"load_pubkeys can skip entries of the public keys file ({'continue/break' if skips else 'store conditional on ' + str(conds[:2])}): the "
                          "keys hash compared with the attested one is then computed over fewer keys than the operator supplied")
    run.check("R3", oks, "every value parsed as a secp256k1 point and stored under its own path", key="load_pubkeys|parse", where=lp_.loc(),
              message=f"load_pubkeys stores result[{sorted(gotk or [])}] = {sorted(gotv or [])}; expected result[path] = ec.PublicKey(bytes.fromhex(<value at path>), raw=True)")
