"""C01 - signing relays to the device exactly what the client asked to have signed
(shape of what is sent, and when success may be reported)."""
import ast
import re
from sa.model import AnalysisError, Unknown, norm, unwrap, EnumMember
from sa.query import Facts, call_name, find_calls, try_fold, calls_in, defs_of, kwarg
from sa.prov import Prov
from sa.layout import Layout
from .common import firmware, send_sites, protocol_classes
from .c06 import _strip

TECHNIQUE = ("provenance expansion + byte-layout normalisation of every payload sent by the sign exchanges, "
             "compared with the firmware's layout; dominance rules for step order / success gating; structural "
             "recurrence rules on the chunking loop; argument wiring from request fields to device calls and from "
             "the device's signature to the reply; slice table of the DER parser")
EXPLANATION = (
    "Static analysis of /repo's current source (nothing executed). Decides the shape of what is sent and when "
    "success may be reported: the five sign payload layouts (path|input index; length-prefixed tx with mode, "
    "extradata length, and for segwit varint(ws)|ws|value; receipt; counted length-prefixed proof nodes with both "
    "255 bounds; path|hash) equal the firmware's; each chunked step uses INS_SIGN, its own op, exactly the next "
    "step's op and expect_full_data=True; each step starts only after the previous step succeeded and (True, sig) "
    "is returned only after all of them, built from the last answer's data; the chunk loop sends "
    "op|data[offset:offset+requested], advances by what was sent, takes the next size from the device's answer, "
    "stops when another op is requested, fails on an unexpected op or on unsent data when full data is expected; "
    "request fields are wired to the right parameters (btc_tx = get_unsigned_tx(tx)) and r/s of the parsed DER "
    "signature to the reply; varint thresholds. Does not decide byte-exact reassembly for all inputs and chunk "
    "policies, nor python-bitcoinlib semantics."
)


def _lay(run, PV, fn, cls, expr, node, stop=()):
    L = Layout(lambda e: try_fold(run.P, e, fn, cls))
    return {L.canon(x) for x in PV.expand_consistent(fn, cls, expr, node, stop=stop)}


def run(run):
    P, A = run.P, run.A
    F = Facts(A)
    PV = Prov(A, max_variants=64)
    fw = firmware(run)
    D = P.cls("ledger.hsm2dongle.HSM2Dongle")
    sa = P.method(D, "sign_authorized")
    su = P.method(D, "sign_unauthorized")
    ga = A.cfg(sa, D)
    gs = A.cfg(su, D)

    # ---------------------------------------------------------------- R1
    run.rule("R1", "Payload layouts: (1) u8(OP PATH) | key_id.to_binary() | u32le(input_index), with to_binary = "
             "u8(#elements) | repeat(u32le(element.index)) by default; (2) u32le(7 + len(tx)) | u8(mode.netvalue) | "
             "u16le(len(ed)) | tx | ed, ed = varint(len(ws)) | ws | u64le(outpoint) for segwit and empty for legacy (the "
             "length prefix excludes ed, firmware auth_tx.c); (3) hexdecode(receipt); (4) u8(#nodes) | repeat(u8(len(node)) | "
             "node) with both counts bounded by 255 -> ERROR_MERKLE_PROOF; (5) u8(OP PATH) | path | hexdecode(hash). Each "
             "chunked send: command INS_SIGN, operation = the step's op, next_operations = [the following step's op], "
             "expect_full_data = True.")
    sends = find_calls(A, sa, "_send_command")
    run.check("R1", len(sends) == 1, "one direct send (path step) in sign_authorized", key="sign_authorized|direct-sends", where=sa.loc(),
              message=f"{len(sends)} direct _send_command calls in sign_authorized")
    for c in sends:
        cmd = P.const_eval(c.args[0], sa.module, cls=D)
        run.check("R1", isinstance(cmd, EnumMember) and cmd.name == "SIGN", "path step uses INS_SIGN", key="sign_authorized|path|command",
                  where=sa.loc(c), message=f"path step command is {cmd}")
        for cn in ga.nodes_of(c):
            got = _lay(run, PV, sa, D, c.args[1], cn)
            want = "u8(1) | key_id.to_binary() | u32le(input_index)"
            run.check("R1", got == {want}, "(1) path message layout", key="sign_authorized|path|layout", where=sa.loc(c),
                      message=f"path message is {sorted(got)}; the firmware parses `{want}`")
    chunks = find_calls(A, sa, "_send_data_in_chunks")
    run.floor("R1", "chunked sends in sign_authorized", len(chunks), 3)
    tx = "hex(btc_tx)"
    ed = "hex(encode_varint(len(hex(witness_script)))) | hex(witness_script) | u64le(outpoint_value)"
    want_layouts = {
        "BTC_TX": ({f"u32le(7+len({tx})) | u8(sighash_computation_mode.netvalue) | u16le(len({ed})) | {tx} | {ed}",
                    f"u32le(7+len({tx})) | u8(sighash_computation_mode.netvalue) | u16le(0) | {tx}"}, "TX_RECEIPT"),
        "TX_RECEIPT": ({"hex(rsk_tx_receipt)"}, "MERKLE_PROOF"),
        "MERKLE_PROOF": ({"u8(len(receipt_merkle_proof))",
                          "u8(len(receipt_merkle_proof)) | repeat(u8(len(hex(ELEM(receipt_merkle_proof)))) | hex(ELEM(receipt_merkle_proof)))"},
                         "SUCCESS"),
    }
    sdc = P.method(D, "_send_data_in_chunks")
    defaults = {}
    a = sdc.node.args
    ps = [x.arg for x in a.args]
    for nm, dv in zip(ps[len(ps) - len(a.defaults):], a.defaults):
        defaults[nm] = dv
    seen_ops = []
    for c in chunks:
        op = P.const_eval(kwarg(c, "operation"), sa.module, cls=D)
        opn = op.name if isinstance(op, EnumMember) else str(op)
        seen_ops.append(opn)
        if opn not in want_layouts:
            run.fail("R1", f"sign_authorized|chunked|{opn}|unknown-step", sa.loc(c), f"unexpected chunked step {opn}")
            continue
        wl, nxt = want_layouts[opn]
        cmd = P.const_eval(kwarg(c, "command"), sa.module, cls=D)
        run.check("R1", isinstance(cmd, EnumMember) and cmd.name == "SIGN", f"{opn}: command INS_SIGN", key=f"sign_authorized|{opn}|command",
                  where=sa.loc(c), message=f"{opn} step uses command {cmd}")
        nx = kwarg(c, "next_operations")
        nxv = [P.const_eval(e, sa.module, cls=D) for e in nx.elts] if isinstance(nx, ast.List) else None
        run.check("R1", nxv is not None and [m.name for m in nxv] == [nxt], f"{opn}: next operation is exactly {nxt}",
                  key=f"sign_authorized|{opn}|next-operations", where=sa.loc(c),
                  message=f"{opn} step accepts next operations {[getattr(m, 'name', m) for m in (nxv or [])]}, the protocol order requires [{nxt}]")
        efd = kwarg(c, "expect_full_data")
        if efd is None:
            efd = defaults.get("expect_full_data")
        run.check("R1", isinstance(efd, ast.Constant) and efd.value is True, f"{opn}: expect_full_data=True",
                  key=f"sign_authorized|{opn}|expect_full_data", where=sa.loc(c),
                  message=f"{opn} step is sent with expect_full_data={norm(efd) if efd is not None else None}: if the device moves on "
                          "before consuming every byte, signing would still be reported as successful")
        for cn in ga.nodes_of(c):
            got = _lay(run, PV, sa, D, kwarg(c, "data"), cn)
            run.check("R1", got == wl, f"({opn}) payload layout", key=f"sign_authorized|{opn}|layout", where=sa.loc(c),
                      message=f"{opn} payload is {sorted(got)}; the firmware expects {sorted(wl)}")
            ib = kwarg(c, "initial_bytes")
            run.check("R1", ib is not None and norm(ib) == "bytes_requested", f"{opn}: first chunk size is what the device requested",
                      key=f"sign_authorized|{opn}|initial-bytes", where=sa.loc(c), message=f"{opn}: initial_bytes is `{norm(ib) if ib else None}`")
    run.check("R1", seen_ops == ["BTC_TX", "TX_RECEIPT", "MERKLE_PROOF"], "steps in protocol order", key="sign_authorized|step-order-textual",
              where=sa.loc(), message=f"chunked steps appear as {seen_ops}")
    # merkle bounds
    raises = [n for n in A.own_nodes(sa) if isinstance(n, ast.Raise)]
    bounds = set()
    for r in raises:
        for rn in ga.nodes_of(r):
            for f in F.local(sa, D, rn):
                if f.kind == "cmp" and f.op == ">":
                    ok, k = try_fold(P, f.right, sa, D)
                    if ok and k == 255:
                        bounds.add(norm(f.left))
    run.check("R1", bounds == {"len(receipt_merkle_proof)", "len(node_bytes)"}, "both merkle counts bounded by 255",
              key="sign_authorized|merkle|bounds", where=sa.loc(), message=f"255-bounds found on {sorted(bounds)}; the one-byte counts need both")
    par_try = [n for n in A.own_nodes(sa) if isinstance(n, ast.Try) and any(isinstance(x, ast.Raise) for x in ast.walk(n))]
    okb = False
    for t in par_try:
        for h in t.handlers:
            if "ValueError" in norm(h.type) and any(isinstance(x, ast.Return) and "ERROR_MERKLE_PROOF" in norm(x.value) for x in ast.walk(h)):
                okb = True
    run.check("R1", okb, "malformed proof -> ERROR_MERKLE_PROOF", key="sign_authorized|merkle|error-mapping", where=sa.loc(),
              message="a proof violating the 255 bounds is not answered ERROR_MERKLE_PROOF")
    # unauthorized
    us = find_calls(A, su, "_send_command")
    run.check("R1", len(us) == 1, "one send in sign_unauthorized", key="sign_unauthorized|sends", where=su.loc(), message=f"{len(us)} sends")
    for c in us:
        for cn in gs.nodes_of(c):
            got = _lay(run, PV, su, D, c.args[1], cn)
            run.check("R1", got == {"u8(1) | key_id.to_binary() | hex(hash)"}, "(5) path|hash layout", key="sign_unauthorized|layout", where=su.loc(c),
                      message=f"unauthorized message is {sorted(got)}; the firmware parses `u8(1) | path | hash`")
    # to_binary
    B = P.cls("comm.bip32.BIP32Path")
    tb = P.method(B, "to_binary")
    gb = A.cfg(tb, B)
    d = tb.node.args.defaults
    run.check("R1", len(d) == 1 and isinstance(d[0], ast.Constant) and d[0].value == "little", "to_binary defaults to little endian",
              key="BIP32Path.to_binary|default", where=tb.loc(), message="BIP32Path.to_binary no longer defaults to little endian")
    for fnx in (sa, su, P.method(D, "get_public_key")):
        for c in find_calls(A, fnx, "to_binary"):
            run.check("R1", not c.args and not c.keywords, f"{fnx.name}: to_binary() with the default byte order", key=f"{fnx.name}|to_binary-args",
                      where=fnx.loc(c), message=f"{fnx.name} calls `{norm(c)}`")
    for r in [n for n in A.own_nodes(tb) if isinstance(n, ast.Return)]:
        for rn in gb.nodes_of(r):
            got = _lay(run, PV, tb, B, r.value, rn)
            want = {"u8(len(self._elements))", "u8(len(self._elements)) | repeat(u32{'<'}(ELEM(self.elements).index))",
                    "u8(len(self._elements)) | repeat(u32{'>'}(ELEM(self.elements).index))"}
            run.check("R1", got == want, "to_binary = count | each element index as u32", key="BIP32Path.to_binary|layout", where=tb.loc(r),
                      message=f"to_binary builds {sorted(got)}")
    for cn in [n for n in gb.nodes if n.kind == "cond"]:
        run.check("R1", norm(cn.ast) == "byteorder == 'big'", "only 'big' selects big endian", key="BIP32Path.to_binary|order-test", where=tb.loc(),
                  message=f"to_binary order test is `{norm(cn.ast)}`")
    os_ = sorted((norm(d_.value)) for d_ in defs_of(A, tb, "order_sign"))
    run.check("R1", os_ == ["'<'", "'>'"], "order signs are < and >", key="BIP32Path.to_binary|order-signs", where=tb.loc(), message=f"order signs {os_}")
    el = P.method(B, "elements")
    rr = [n for n in A.own_nodes(el) if isinstance(n, ast.Return)]
    run.check("R1", len(rr) == 1 and norm(rr[0].value) == "self._elements", "elements property is the parsed list", key="BIP32Path.elements|getter",
              where=el.loc(), message="BIP32Path.elements changed")
    # varint
    ev = P.func("comm.bitcoin.encode_varint")
    rr = [n for n in A.own_nodes(ev) if isinstance(n, ast.Return)]
    v = ev.params[0]
    if len(rr) == 1 and norm(rr[0].value) == f"bitcoin.core.VarIntSerializer.serialize({v}).hex()":
        run.ok("R1", "encode_varint delegates to python-bitcoinlib's VarIntSerializer (trusted)", ev.loc())
    else:
        gv = A.cfg(ev, None)
        table = {1: (None, 0xfc, ""), 2: (0xfd, 0xffff, "fd"), 4: (0x10000, 0xffffffff, "fe"), 8: (0x100000000, None, "ff")}
        for r in rr:
            for rn in gv.nodes_of(r):
                hi = None
                for f in F.local(ev, None, rn):
                    if f.kind == "cmp" and norm(f.left) == v:
                        ok, k = try_fold(P, f.right, ev)
                        if ok and f.op == "<=":
                            hi = k if hi is None else min(hi, k)
                        if ok and f.op == "<":
                            hi = k - 1 if hi is None else min(hi, k - 1)
                m = re.search(r"to_bytes\((\d+)", norm(r.value))
                w = int(m.group(1)) if m else None
                pref = re.match(r"'(\w\w)' \+", norm(r.value))
                pref = pref.group(1) if pref else ""
                run.check("R1", w in table and table[w][1] == hi and table[w][2] == pref,
                          f"varint width {w}: values up to {hex(table[w][1]) if w in table and table[w][1] else 'max'} with prefix '{table[w][2] if w in table else '?'}'",
                          key=f"encode_varint|width-{w}|threshold", where=ev.loc(r),
                          message=f"encode_varint uses a {w}-byte form with prefix '{pref}' for values up to {hex(hi) if hi is not None else 'unbounded'}; "
                                  f"Bitcoin's CompactSize uses it up to {hex(table[w][1]) if w in table and table[w][1] else 'the maximum'} "
                                  "(e.g. 0xfd itself needs the 3-byte form)")

    # ---------------------------------------------------------------- R2
    run.rule("R2", "Step order and gating: each step's first send is dominated by the previous step's success (answer op == next "
             "op for the path step; response[0] truthy for chunked steps); the only (True, ...) is dominated by all of them and "
             "carries HSM2DongleSignature(last answer[1][OFF.DATA:]); unauthorized: (True, HSM2DongleSignature(answer[OFF.DATA:])) "
             "only under op == SUCCESS.")
    order = [(sends[0], "path")] + [(c, P.const_eval(kwarg(c, "operation"), sa.module, cls=D).name) for c in chunks]
    for i in range(1, len(order)):
        prev, cur = order[i - 1][0], order[i][0]
        for cn in ga.nodes_of(cur):
            dom = any(ga.dominates(x, cn) for x in ga.nodes_of(prev))
            facts = F.local(sa, D, cn)
            if i == 1:
                ok = any(f.kind == "cmp" and f.op == "==" and "response[self.OFF.OP]" in norm(f.left) and norm(f.right).endswith("SIGN.BTC_TX")
                         for f in facts)
            else:
                ok = sum(1 for f in facts if f.kind == "truthy" and f.pol and norm(f.expr) == "response[0]") >= i - 1
            run.check("R2", dom and ok, f"step {order[i][1]} only after step {order[i - 1][1]} succeeded",
                      key=f"sign_authorized|{order[i][1]}|after-{order[i - 1][1]}", where=sa.loc(cur),
                      message=f"the {order[i][1]} step can start although the {order[i - 1][1]} step did not succeed")
    trues = [n for n in A.own_nodes(sa) if isinstance(n, ast.Return) and isinstance(n.value, ast.Tuple)
             and isinstance(n.value.elts[0], ast.Constant) and n.value.elts[0].value is True]
    for r in trues:
        run.check("R2", norm(r.value.elts[1]) == "HSM2DongleSignature(response[1][self.OFF.DATA:])", "signature parsed from the last answer's data",
                  key="sign_authorized|signature-source", where=sa.loc(r), message=f"authorized signing returns `{norm(r.value.elts[1])}`")
        for rn in ga.nodes_of(r):
            rd = PV.reaching(sa, D, "response", rn)
            run.check("R2", len(rd) == 1 and rd[0].value is chunks[-1], "that answer is the merkle-proof step's", key="sign_authorized|signature-answer",
                      where=sa.loc(r), message="the signature is not taken from the answer that completed the last step")
    for r in [n for n in A.own_nodes(su) if isinstance(n, ast.Return) and isinstance(n.value, ast.Tuple)
              and isinstance(n.value.elts[0], ast.Constant) and n.value.elts[0].value is True]:
        run.check("R2", norm(r.value.elts[1]) == "HSM2DongleSignature(response[self.OFF.DATA:])", "unauthorized signature from the answer's data",
                  key="sign_unauthorized|signature-source", where=su.loc(r), message=f"unauthorized signing returns `{norm(r.value.elts[1])}`")

    # ---------------------------------------------------------------- R3
    run.rule("R3", "Chunk loop (_send_data_in_chunks): sends u8(operation) | data[offset:offset+bytes_requested]; offset and the sent "
             "total advance by len(that slice) after the send and nowhere else; bytes_requested is initial_bytes, then the "
             "answer's data byte while the same operation is requested; finished <=> answer op != operation; an op outside "
             "[operation] + next_operations -> (False, answer); expect_full_data and finished and sent < len(data) -> (False, "
             "answer); (True, answer) only after the loop; expect_full_data has no default.")
    g = A.cfg(sdc, D)
    c = find_calls(A, sdc, "_send_command")
    run.require(len(c) == 1, "_send_data_in_chunks: send vanished")
    c = c[0]
    run.check("R3", norm(c.args[0]) == "command" and norm(c.args[1]) == "bytes([operation]) + to_send", "sends op | slice",
              key="_send_data_in_chunks|send-expr", where=sdc.loc(c), message=f"the chunk message is `{norm(c)}`")
    ts = defs_of(A, sdc, "to_send")
    run.check("R3", len(ts) == 1 and norm(ts[0].value) == "data[offset:offset + bytes_requested]", "slice = data[offset:offset+requested]",
              key="_send_data_in_chunks|slice", where=sdc.loc(), message=f"the slice sent is `{norm(ts[0].value) if ts else None}`: bytes would be "
              "dropped, repeated or truncated")
    tl = defs_of(A, sdc, "to_send_length")
    run.check("R3", len(tl) == 1 and norm(tl[0].value) == "len(to_send)", "length of what is really sent", key="_send_data_in_chunks|sent-length",
              where=sdc.loc(), message="to_send_length is not len(to_send)")
    for nm in ("offset", "total_bytes_sent"):
        ds = PV.defs(sdc, D).get(nm, [])
        init = [d for d in ds if d.kind == "assign"]
        augs = [d for d in ds if d.kind == "aug"]
        ok = len(init) == 1 and norm(init[0].value) == "0" and len(augs) == 1 and isinstance(augs[0].node.op, ast.Add) \
            and norm(augs[0].node.value) == "to_send_length"
        sn = g.nodes_of(c)
        ok = ok and all(any(g.dominates(x, a.cnode) for x in sn) for a in augs)
        run.check("R3", ok, f"{nm} starts at 0 and advances by the sent length after each send", key=f"_send_data_in_chunks|{nm}|recurrence",
                  where=sdc.loc(), message=f"`{nm}` is updated as {[norm(d.node)[:40] for d in ds]}: e.g. advancing by the requested size "
                  "over-advances on a short last chunk")
    br = PV.defs(sdc, D).get("bytes_requested", [])
    vals = sorted(norm(d.value) for d in br)
    run.check("R3", vals == ["initial_bytes", "response[self.OFF.DATA]"], "requested size: initial, then the device's answer",
              key="_send_data_in_chunks|bytes_requested|definitions", where=sdc.loc(), message=f"bytes_requested is defined as {vals}")
    for d in br:
        if norm(d.value) == "response[self.OFF.DATA]":
            facts = {f.text() for f in F.local(sdc, D, d.cnode)}
            run.check("R3", "not finished" in facts, "next size read only while the same operation is requested",
                      key="_send_data_in_chunks|bytes_requested|guard", where=sdc.loc(d.node), message="the next chunk size is read from an answer that ended the operation")
    fd = [d for d in PV.defs(sdc, D).get("finished", []) if norm(d.value) != "False"]
    run.check("R3", len(fd) == 1 and norm(fd[0].value) == "response[self.OFF.OP] != operation", "finished <=> another op requested",
              key="_send_data_in_chunks|finished", where=sdc.loc(), message=f"`finished` is {[norm(d.value) for d in fd]}")
    loops = [n for n in ast.walk(sdc.node) if isinstance(n, ast.While)]
    run.check("R3", len(loops) == 1 and norm(loops[0].test) == "not finished", "loops while not finished", key="_send_data_in_chunks|loop",
              where=sdc.loc(), message="the chunk loop condition changed")
    falses = []
    for r in [n for n in A.own_nodes(sdc) if isinstance(n, ast.Return)]:
        v0 = r.value.elts[0].value if isinstance(r.value, ast.Tuple) and isinstance(r.value.elts[0], ast.Constant) else None
        for rn in g.nodes_of(r):
            facts = {f.text() for f in F.local(sdc, D, rn)}
            if v0 is False:
                falses.append(facts)
            elif v0 is True:
                inloop = any(r is x for l in loops for x in ast.walk(l))
                run.check("R3", not inloop and norm(r.value.elts[1]) == "response", "(True, answer) only after the loop",
                          key="_send_data_in_chunks|success-return", where=sdc.loc(r), message="success is returned from inside the loop / without the answer")
    ok_unexp = any("response[self.OFF.OP] not in [operation] + next_operations" in f for f in falses)
    ok_full = any({"expect_full_data", "finished", "total_bytes_sent < len(data)"} <= f for f in falses)
    run.check("R3", ok_unexp, "unexpected op -> (False, answer)", key="_send_data_in_chunks|unexpected-op", where=sdc.loc(),
              message="an answer requesting an op outside [operation] + next_operations is not treated as a failure")
    run.check("R3", ok_full, "unsent data with expect_full_data -> (False, answer)", key="_send_data_in_chunks|full-data-check", where=sdc.loc(),
              message="when full data is expected, finishing with unsent bytes is not treated as a failure")
    run.check("R3", "expect_full_data" not in defaults, "expect_full_data must be given explicitly", key="_send_data_in_chunks|expect_full_data-default",
              where=sdc.loc(), message=f"expect_full_data has a default ({norm(defaults.get('expect_full_data')) if 'expect_full_data' in defaults else None}): "
              "a call site that forgets it silently loses the completeness check")

    # ---------------------------------------------------------------- R4
    _wiring(run, PV, fw, D)
    # ---------------------------------------------------------------- R5
    _reply(run, F, PV)


def _wiring(run, PV, fw, D):
    P, A = run.P, run.A
    run.rule("R4", "Wiring manager -> device (both _sign implementations): key_id <- request['keyId']; rsk_tx_receipt <- auth.receipt; "
             "receipt_merkle_proof <- auth.receipt_merkle_proof; btc_tx <- get_unsigned_tx(message.tx); input_index <- message.input; "
             "sighash_computation_mode <- SighashComputationMode(message.sighashComputationMode); witness_script <- "
             "message.get('witnessScript'); outpoint_value <- message.get('outpointValue'); unauthorized hash <- message.hash (v1: "
             "message); SighashComputationMode values/net values == firmware SIGHASH_COMPUTE_MODE_*.")
    V2 = P.cls("ledger.protocol.HSM2ProtocolLedger")
    V1 = P.cls("ledger.protocol_v1.HSM1ProtocolLedger")
    sg = P.method(V2, "_sign")
    g = A.cfg(sg, V2)
    want = {"key_id": "request['keyId']", "rsk_tx_receipt": "request['auth']['receipt']",
            "receipt_merkle_proof": "request['auth']['receipt_merkle_proof']", "btc_tx": "get_unsigned_tx(request['message']['tx'])",
            "input_index": "request['message']['input']",
            "sighash_computation_mode": "SighashComputationMode(request['message']['sighashComputationMode'])",
            "witness_script": "request['message'].get('witnessScript')", "outpoint_value": "request['message'].get('outpointValue')"}
    n = 0
    for c in find_calls(A, sg, "sign_authorized"):
        kws = {k.arg: k.value for k in c.keywords}
        run.check("R4", set(kws) == set(want) and not c.args, "sign_authorized called with the eight named arguments", key="_sign|sign_authorized|arguments",
                  where=sg.loc(c), message=f"sign_authorized arguments: {sorted(kws)}")
        for k, w in want.items():
            if k not in kws:
                continue
            n += 1
            for cn in g.nodes_of(c):
                got = {_strip(x) for x in PV.expand_consistent(sg, V2, kws[k], cn, stop=("request",))}
                run.check("R4", got == {_strip(w)}, f"{k} <- {w}", key=f"_sign|sign_authorized|{k}", where=sg.loc(c),
                          message=f"sign_authorized({k}=...) receives {sorted(got)[:1]}, expected `{w}`")
    for pc, m, w in ((V2, sg, {"key_id": "request['keyId']", "hash": "request['message']['hash']"}),
                     (V1, P.method(V1, "_sign"), {"key_id": "request['keyId']", "hash": "request['message']"})):
        gm = A.cfg(m, pc)
        for c in find_calls(A, m, "sign_unauthorized"):
            kws = {k.arg: k.value for k in c.keywords}
            for k, ww in w.items():
                n += 1
                for cn in gm.nodes_of(c):
                    got = {_strip(x) for x in PV.expand_consistent(m, pc, kws.get(k, ast.Constant(value=None)), cn, stop=("request",))}
                    run.check("R4", got == {_strip(ww)}, f"{pc.name}: {k} <- {ww}", key=f"{pc.name}._sign|sign_unauthorized|{k}", where=m.loc(c),
                              message=f"{pc.name}: sign_unauthorized({k}=...) receives {sorted(got)[:1]}, expected `{ww}`")
    run.floor("R4", "wired arguments", n, 12)
    sm = P.enum_members(P.cls("ledger.hsm2dongle.SighashComputationMode"))
    cm = fw.file("powhsm/src/auth_tx.h").all_enum_members()
    for py, (val, c) in {"LEGACY": ("legacy", "SIGHASH_COMPUTE_MODE_LEGACY"), "SEGWIT": ("segwit", "SIGHASH_COMPUTE_MODE_SEGWIT")}.items():
        run.require(c in cm, f"auth_tx.h: {c} vanished")
        run.check("R4", sm[py].value == val and sm[py].extra.get("netvalue") == cm[c], f"SighashComputationMode.{py} = ('{val}', {cm[c]})",
                  key=f"SighashComputationMode|{py}", where="middleware/ledger/hsm2dongle.py",
                  message=f"SighashComputationMode.{py} is ({sm[py].value!r}, {sm[py].extra.get('netvalue')}); protocol literal '{val}', firmware {c} = {cm[c]}")


def _reply(run, F, PV):
    P, A = run.P, run.A
    run.rule("R5", "Reply wiring: under a truthy sign_result[0] the reply is {'signature': {'r': signature.r, 's': signature.s}} with "
             "signature = sign_result[1]; HSM2DongleSignature slices r = b[4:4+b[3]] and s = b[6+rl:6+rl+b[5+rl]] after checking the "
             "0x30/0x31 header, the 0x02 markers and the lengths; r/s properties return those hex strings.")
    for pc in protocol_classes(run):
        m = P.method(pc, "_sign")
        g = A.cfg(m, pc)
        for r in [n for n in A.own_nodes(m) if isinstance(n, ast.Return) and isinstance(n.value, ast.Tuple) and len(n.value.elts) == 2]:
            for rn in g.nodes_of(r):
                got = {_strip(x) for x in PV.expand_consistent(m, pc, r.value.elts[1], rn, stop=("sign_result",))}
                run.check("R5", got == {_strip("{'signature': {'r': sign_result[1].r, 's': sign_result[1].s}}")}, f"{pc.name}: r <- signature.r, s <- signature.s",
                          key=f"{pc.name}._sign|reply", where=m.loc(r), message=f"{pc.name}._sign replies {sorted(got)[:1]}")
                facts = {f.text() for f in F.local(m, pc, rn)}
                run.check("R5", "sign_result[0]" in facts, f"{pc.name}: signature returned only on success", key=f"{pc.name}._sign|reply-guard", where=m.loc(r),
                          message=f"{pc.name}._sign can return a signature although the dongle reported failure")
    S = P.cls("ledger.signature.HSM2DongleSignature")
    ini = P.method(S, "__init__")
    g = A.cfg(ini, S)
    b = ini.params[1]
    exp = {"rbytes": f"{b}[4:4 + {b}[3]]", "sbytes": f"{b}[6 + {b}[3]:6 + {b}[3] + {b}[5 + {b}[3]]]"}
    for nm, w in exp.items():
        ds = defs_of(A, ini, nm)
        ok = len(ds) == 1
        if ok:
            for dn in g.nodes_of(ds[0]):
                got = {_strip(x) for x in PV.expand_consistent(ini, S, ds[0].value, dn)}
                ok = got == {_strip(w)}
        run.check("R5", ok, f"{nm} slice", key=f"HSM2DongleSignature|{nm}", where=ini.loc(), message=f"{nm} is not `{w}`")
    st = {norm(n.targets[0]): norm(n.value) for n in A.own_nodes(ini) if isinstance(n, ast.Assign) and norm(n.targets[0]).startswith("self.")}
    run.check("R5", st == {"self._r": "rbytes.hex()", "self._s": "sbytes.hex()"}, "r/s stored as hex of their slices", key="HSM2DongleSignature|stores",
              where=ini.loc(), message=f"HSM2DongleSignature stores {st}")
    for prop, fld in (("r", "_r"), ("s", "_s")):
        pf = P.method(S, prop)
        rr = [n for n in A.own_nodes(pf) if isinstance(n, ast.Return)]
        run.check("R5", len(rr) == 1 and norm(rr[0].value) == f"self.{fld}", f"property {prop}", key=f"HSM2DongleSignature.{prop}|getter", where=pf.loc(),
                  message=f"HSM2DongleSignature.{prop} does not return self.{fld} (r and s swapped?)")
    ef = {f.text() for f in F.exit_facts(ini, S)}
    for w in (f"len({b}) >= 2", f"{b}[0] in [48, 49]", f"len({b}[2:]) >= {b}[1]", f"{b}[2] == 2", f"len({b}[4:]) >= {b}[3]",
              f"{b}[4 + r_len] == 2", f"len({b}[6 + r_len:]) >= {b}[5 + r_len]"):
        run.check("R5", w in ef, f"DER check `{w}`", key=f"HSM2DongleSignature|check|{w}", where=ini.loc(),
                  message=f"the DER parser no longer requires `{w}`")
