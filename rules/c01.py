"""C01 - signing relays to the device exactly what the client asked to have signed
(shape of what is sent, and when success may be reported)."""
import ast
import re
from sa.model import AnalysisError, Unknown, norm, unwrap, EnumMember
from sa.query import Facts, call_name, find_calls, try_fold, calls_in, defs_of, kwarg
from sa.prov import Prov
from sa.layout import Layout
from .common import firmware, send_sites, protocol_classes, fold_local, answer_field, canon_text
from sa.decide import Walker, completions, cmp_parts, is_pure, values_at, simplify_text
from .c06 import _strip

TECHNIQUE = ('provenance expansion + byte-layout normalisation of every payload sent by the sign exchanges, '
             "compared with the firmware's layout; dominance rules for step order / success gating; decision table "
             "of one iteration of the chunk loop (predicate-abstraction walk, independent of the loop's surface "
             "shape); answer-field tracing of each step's first chunk size; path-sensitive argument wiring from "
             "request fields to device calls and from the device's signature to the reply; slice table of the DER "
             'parser; the script-blanking frame shared with C14')
EXPLANATION = (
    "Static analysis of /repo's current source (nothing executed). Decides the shape of what is sent and when "
    "success may be reported: the five sign payload layouts (path|input index; length-prefixed tx with mode, "
    "extradata length, and for segwit varint(ws)|ws|value; receipt; counted length-prefixed proof nodes with both "
    "255 bounds; path|hash) equal the firmware's; each chunked step uses INS_SIGN, its own op, exactly the next "
    "step's op and expect_full_data=True; each step starts only after the previous step succeeded and (True, sig) "
    "is returned only after all of them, built from the last answer's data; the chunk loop sends "
    "op|data[offset:offset+requested], advances by what was sent, takes the next size from the device's answer, "
    "stops when another op is requested, fails on an unexpected op or on unsent data when full data is expected; "
    "request fields are wired to the right parameters (btc_tx = get_unsigned_tx(tx)) and r/s of the parsed DER "
    "signature to the reply; varint thresholds; the frame of the script blanking (rules B.R1/B.R2, shared with C14). Does not decide byte-exact reassembly for all inputs and chunk "
    "policies, nor python-bitcoinlib semantics."
)


def _lay(run, PV, fn, cls, expr, node, stop=()):
    L = Layout(lambda e: try_fold(run.P, e, fn, cls))
    return _fold_rep({L.canon(x) for x in PV.expand_consistent(fn, cls, expr, node, stop=stop)})


def _fold_rep(vs):
    """`X` and `X | repeat(Y)` are one family (zero or more repetitions): keep the longer."""
    return {v for v in vs if not any(o != v and o.startswith(v + " | repeat(") for o in vs)}


def run(run):
    P, A = run.P, run.A
    F = Facts(A)
    PV = Prov(A, max_variants=64)
    fw = firmware(run)
    D = P.cls("ledger.hsm2dongle.HSM2Dongle")
    sa = P.method(D, "sign_authorized")
    su = P.method(D, "sign_unauthorized")
    ga = A.cfg(sa, D)
    gs = A.cfg(su, D)

    # ---------------------------------------------------------------- R1
    run.rule("R1", "Payload layouts: (1) u8(OP PATH) | key_id.to_binary() | u32le(input_index), with to_binary = "
             "u8(#elements) | repeat(u32le(element.index)) by default; (2) u32le(7 + len(tx)) | u8(mode.netvalue) | "
             "u16le(len(ed)) | tx | ed, ed = varint(len(ws)) | ws | u64le(outpoint) for segwit and empty for legacy (the "
             "length prefix excludes ed, firmware auth_tx.c); (3) hexdecode(receipt); (4) u8(#nodes) | repeat(u8(len(node)) | "
             "node) with both counts bounded by 255 -> ERROR_MERKLE_PROOF; (5) u8(OP PATH) | path | hexdecode(hash). Each "
             "chunked send: command INS_SIGN, operation = the step's op, next_operations = [the following step's op], "
             "expect_full_data = True.")
    sends = find_calls(A, sa, "_send_command")
    run.check("R1", len(sends) == 1, "one direct send (path step) in sign_authorized", key="sign_authorized|direct-sends", where=sa.loc(),
              message=f"{len(sends)} direct _send_command calls in sign_authorized")
    for c in sends:
        cmd = P.const_eval(c.args[0], sa.module, cls=D)
        run.check("R1", isinstance(cmd, EnumMember) and cmd.name == "SIGN", "path step uses INS_SIGN", key="sign_authorized|path|command",
                  where=sa.loc(c), message=f"path step command is {cmd}")
        for cn in ga.nodes_of(c):
            got = _lay(run, PV, sa, D, c.args[1], cn)
            want = "u8(1) | key_id.to_binary() | u32le(input_index)"
            run.check("R1", got == {want}, "(1) path message layout", key="sign_authorized|path|layout", where=sa.loc(c),
                      message=f"path message is {sorted(got)}; the firmware parses `{want}`")
    chunks = find_calls(A, sa, "_send_data_in_chunks")
    run.floor("R1", "chunked sends in sign_authorized", len(chunks), 3)
    tx = "hex(btc_tx)"
    ed = "hex(encode_varint(len(hex(witness_script)))) | hex(witness_script) | u64le(outpoint_value)"
    want_layouts = {
        "BTC_TX": ({f"u32le(7+len({tx})) | u8(sighash_computation_mode.netvalue) | u16le(len({ed})) | {tx} | {ed}",
                    f"u32le(7+len({tx})) | u8(sighash_computation_mode.netvalue) | u16le(0) | {tx}"}, "TX_RECEIPT"),
        "TX_RECEIPT": ({"hex(rsk_tx_receipt)"}, "MERKLE_PROOF"),
        "MERKLE_PROOF": ({"u8(len(receipt_merkle_proof)) | repeat(u8(len(hex(ELEM(receipt_merkle_proof)))) | hex(ELEM(receipt_merkle_proof)))"},
                         "SUCCESS"),
    }
    sdc = P.method(D, "_send_data_in_chunks")
    defaults = {}
    a = sdc.node.args
    ps = [x.arg for x in a.args]
    for nm, dv in zip(ps[len(ps) - len(a.defaults):], a.defaults):
        defaults[nm] = dv
    seen_ops = []
    for c in chunks:
        op = P.const_eval(kwarg(c, "operation"), sa.module, cls=D)
        opn = op.name if isinstance(op, EnumMember) else str(op)
        seen_ops.append(opn)
        if opn not in want_layouts:
            run.fail("R1", f"sign_authorized|chunked|{opn}|unknown-step", sa.loc(c), f"unexpected chunked step {opn}")
            continue
        wl, nxt = want_layouts[opn]
        cmd = P.const_eval(kwarg(c, "command"), sa.module, cls=D)
        run.check("R1", isinstance(cmd, EnumMember) and cmd.name == "SIGN", f"{opn}: command INS_SIGN", key=f"sign_authorized|{opn}|command",
                  where=sa.loc(c), message=f"{opn} step uses command {cmd}")
        nx = kwarg(c, "next_operations")
        nxv = [P.const_eval(e, sa.module, cls=D) for e in nx.elts] if isinstance(nx, ast.List) else None
        run.check("R1", nxv is not None and [m.name for m in nxv] == [nxt], f"{opn}: next operation is exactly {nxt}",
                  key=f"sign_authorized|{opn}|next-operations", where=sa.loc(c),
                  message=f"{opn} step accepts next operations {[getattr(m, 'name', m) for m in (nxv or [])]}, the protocol order requires [{nxt}]")
        efd = kwarg(c, "expect_full_data")
        if efd is None:
            efd = defaults.get("expect_full_data")
        run.check("R1", isinstance(efd, ast.Constant) and efd.value is True, f"{opn}: expect_full_data=True",
                  key=f"sign_authorized|{opn}|expect_full_data", where=sa.loc(c),
                  message=f"{opn} step is sent with expect_full_data={norm(efd) if efd is not None else None}: if the device moves on "
                          "before consuming every byte, signing would still be reported as successful")
        for cn in ga.nodes_of(c):
            got = _lay(run, PV, sa, D, kwarg(c, "data"), cn)
            run.check("R1", got == wl, f"({opn}) payload layout", key=f"sign_authorized|{opn}|layout", where=sa.loc(c),
                      message=f"{opn} payload is {sorted(got)}; the firmware expects {sorted(wl)}")
            ib = kwarg(c, "initial_bytes")
            prev = sends[0] if c is chunks[0] else chunks[chunks.index(c) - 1]
            okib, why = _answer_size_of(run, PV, sa, D, ib, cn, prev, chunked=c is not chunks[0])
            run.check("R1", okib, f"{opn}: first chunk size is the size the device requested in its answer to the previous step",
                      key=f"sign_authorized|{opn}|initial-bytes", where=sa.loc(c),
                      message=f"{opn}: initial_bytes (`{norm(ib) if ib is not None else None}`) is not the data byte of the answer to the previous step "
                              f"({why}): the first chunk would be sized by a stale or foreign request")
    # the extradata (witness script, outpoint value) is built exactly for the segwit mode: every path to the BTC_TX send is walked with the
    # mode test as the one interpreted atom; what `ed_bytes` stands for at the send must be the segwit layout iff the test held on the path
    # (an unconditional default overridden in the segwit branch, an if/else, a conditional expression all give the same table)
    SEGT = "sighash_computation_mode == SighashComputationMode.SEGWIT"

    def seg_atom(e):
        t = norm(e)
        if t == SEGT or t == "SighashComputationMode.SEGWIT == sighash_computation_mode":
            return ("SEG", True)
        if t == "sighash_computation_mode != SighashComputationMode.SEGWIT":
            return ("SEG", False)
        return None
    btc = [c for c in chunks if getattr(P.const_eval(kwarg(c, "operation"), sa.module, cls=D), "name", None) == "BTC_TX"]
    n_ed = 0
    for c in btc:
        dexp = kwarg(c, "data")
        dnames = {n.id for n in ast.walk(dexp) if isinstance(n, ast.Name)}
        for cn in ga.nodes_of(c):
            for lf in Walker(A, sa, D, seg_atom, max_leaves=512, max_steps=20000).walk(ga.entry, stops={cn}):
                if lf.kind != "stop":
                    continue
                n_ed += 1
                L_ = Layout(lambda e: try_fold(P, e, sa, D))
                try:
                    lay_ = L_.canon(norm(lf.deep(dexp, depth=12)))
                except AnalysisError:
                    lay_ = "?"
                seg = lf.pc.get("SEG")
                want_ = [w for w in want_layouts["BTC_TX"][0] if ("witness_script" in w) == bool(seg)]
                run.check("R1", seg is not None and lay_ in want_, "extradata present exactly when the mode is SEGWIT",
                          key=f"sign_authorized|BTC_TX|extradata-{'guard' if seg else 'default'}", where=sa.loc(c),
                          message=(f"on a path where the sighash mode is {'SEGWIT' if seg else 'not SEGWIT' if seg is not None else 'never tested'} the BTC_TX "
                                   f"payload is `{lay_[:160]}`: segwit inputs must carry varint(len(ws)) | ws | u64le(outpoint) as extradata, legacy inputs none"))
    run.floor("R1", "paths to the BTC_TX send", n_ed, 2)
    run.check("R1", seen_ops == ["BTC_TX", "TX_RECEIPT", "MERKLE_PROOF"], "steps in protocol order", key="sign_authorized|step-order-textual",
              where=sa.loc(), message=f"chunked steps appear as {seen_ops}")
    # merkle bounds (facts at the raise sites, local names expanded to what they stand for)
    raises = [n for n in A.own_nodes(sa) if isinstance(n, ast.Raise)]
    Lsa = Layout(lambda e: try_fold(P, e, sa, D))
    bounds = set()
    for r in raises:
        for rn in ga.nodes_of(r):
            for t in F.expanded(sa, D, rn, PV, canon=Lsa.intexpr):
                m = re.fullmatch(r"(.+) > 255", t) or re.fullmatch(r"(.+) >= 256", t)
                if m:
                    bounds.add(m.group(1))
    need = {"len(receipt_merkle_proof)", "len(hex(ELEM(receipt_merkle_proof)))"}
    run.check("R1", need <= bounds, "both merkle counts bounded by 255",
              key="sign_authorized|merkle|bounds", where=sa.loc(), message=f"255-bounds found on {sorted(bounds)}; the one-byte counts "
              f"{sorted(need)} need both")
    # ... and the bound holds where the one-byte count is built (a negated guard also leaves a `> 255` fact at some raise site)
    n_len_bytes = 0
    for n in A.own_nodes(sa):
        if isinstance(n, ast.Call) and isinstance(n.func, ast.Name) and n.func.id == "bytes" and len(n.args) == 1 and isinstance(n.args[0], ast.List) \
                and len(n.args[0].elts) == 1 and isinstance(n.args[0].elts[0], ast.Call) and call_name(n.args[0].elts[0]) == "len":
            for cn in ga.nodes_of(n):
                lens = {Lsa.intexpr(ast.parse(x, mode="eval").body) for x in PV.expand_consistent(sa, D, n.args[0].elts[0], cn)}
                if not (lens & need):
                    continue
                n_len_bytes += 1
                texts = set(F.expanded(sa, D, cn, PV, canon=Lsa.intexpr))
                okl = all(f"{t} <= 255" in texts or f"{t} < 256" in texts for t in lens)
                run.check("R1", okl, f"`{sorted(lens)[0][:40]}` is at most 255 where its one-byte count is built", key=f"sign_authorized|merkle|bound-at-use|{sorted(lens)[0][:40]}",
                          where=sa.loc(n), message=f"the one-byte count `{norm(n)[:60]}` is built without `{sorted(lens)[0]} <= 255` holding there: proofs within the bound would be "
                          "refused (or the count would overflow its byte)")
    run.floor("R1", "one-byte merkle counts", n_len_bytes, 2)
    par_try = [n for n in A.own_nodes(sa) if isinstance(n, ast.Try) and any(isinstance(x, ast.Raise) for x in ast.walk(n))]
    okb = False
    for t in par_try:
        for h in t.handlers:
            if "ValueError" in norm(h.type) and any(isinstance(x, ast.Return) and "ERROR_MERKLE_PROOF" in norm(x.value) for x in ast.walk(h)):
                okb = True
    run.check("R1", okb, "malformed proof -> ERROR_MERKLE_PROOF", key="sign_authorized|merkle|error-mapping", where=sa.loc(),
              message="a proof violating the 255 bounds is not answered ERROR_MERKLE_PROOF")
    # unauthorized
    us = find_calls(A, su, "_send_command")
    run.check("R1", len(us) == 1, "one send in sign_unauthorized", key="sign_unauthorized|sends", where=su.loc(), message=f"{len(us)} sends")
    for c in us:
        for cn in gs.nodes_of(c):
            got = _lay(run, PV, su, D, c.args[1], cn)
            run.check("R1", got == {"u8(1) | key_id.to_binary() | hex(hash)"}, "(5) path|hash layout", key="sign_unauthorized|layout", where=su.loc(c),
                      message=f"unauthorized message is {sorted(got)}; the firmware parses `u8(1) | path | hash`")
    # the outcome of the single exchange, as a decision table (normal flow; the handlers' codes are C04's)
    from sa.decide import Walker as _W, cmp_parts as _cmp, subst as _subst, completions as _compl
    okop_, OPI_ = try_fold(P, ast.parse("self.OFF.OP", mode="eval").body, su, D)
    stu = {"W": None}

    def ures(e):
        b = stu["W"]._bind or {}
        for _ in range(6):
            nm_ = {x.id for x in ast.walk(e) if isinstance(x, ast.Name)}
            hit = {k: v for k, v in b.items() if k in nm_}
            if not hit:
                break
            e = _subst(e, hit)
        return e

    def uatom(e):
        cp = _cmp(e)
        if cp is None:
            return None
        l, op, r = cp
        if op in ("==", "!=") and isinstance(l, ast.Subscript) and try_fold(P, l.slice, su, D) == (True, OPI_):
            x = ures(l.value)
            try:
                mv = P.const_eval(r, su.module, cls=D)
            except (Unknown, AnalysisError):
                mv = None
            if isinstance(x, ast.Call) and call_name(x) == "_send_command" and isinstance(mv, EnumMember) and mv.name in ("BTC_TX", "SUCCESS"):
                return (f"op {mv.name}", op == "==")
        return None
    Wu = _W(A, su, D, uatom, max_leaves=64)
    stu["W"] = Wu
    n_u = 0
    for lf in Wu.walk(gs.entry):
        unknown = sorted(k[1:] for k in lf.pc if isinstance(k, str) and k.startswith("?"))
        where = su.loc(lf.node.ast) if lf.node.ast is not None else su.loc()
        run.check("R1", not unknown, "sign_unauthorized decides on the answer's operation byte only", key=f"sign_unauthorized|flow|extra|{';'.join(unknown)[:50]}", where=where,
                  message=f"sign_unauthorized decides on `{'`, `'.join(unknown)[:100]}`")
        if unknown or lf.kind != "return" or lf.node.ast.value is None:
            continue
        v = lf.deep(lf.node.ast.value)
        got = _strip(norm(v))
        for val in _compl({k: b for k, b in lf.pc.items() if k in ("op BTC_TX", "op SUCCESS")}, ["op BTC_TX", "op SUCCESS"], lambda v_: not (v_["op BTC_TX"] and v_["op SUCCESS"])):
            n_u += 1
            if val["op BTC_TX"]:
                w = "(False, self.RESPONSE.SIGN.ERROR_HASH)"
            elif not val["op SUCCESS"]:
                w = "(False, self.RESPONSE.SIGN.ERROR_UNEXPECTED)"
            else:
                w = None
            desc = f"device asks for the transaction: {val['op BTC_TX']}, reports success: {val['op SUCCESS']}"
            if w is not None:
                run.check("R1", got == _strip(w), f"[{desc}] -> {w}", key=f"sign_unauthorized|flow|{val['op BTC_TX']}|{val['op SUCCESS']}", where=where,
                          message=f"sign_unauthorized, case [{desc}]: returns `{got[:80]}`, expected `{w}`")
            else:
                oks = re.fullmatch(r"\(True, HSM2DongleSignature\(self\._send_command\(self\.CMD\.SIGN, .*\)\[self\.OFF\.DATA:\]\)\)", got) is not None
                run.check("R1", oks and "op SUCCESS" in lf.pc and "op BTC_TX" in lf.pc, f"[{desc}] -> (True, the answer's signature)", key="sign_unauthorized|flow|success", where=where,
                          message=f"sign_unauthorized, case [{desc}]: returns `{got[:100]}`, expected (True, HSM2DongleSignature(<answer>[DATA:])): a signature the device produced "
                                  "would be reported as a failure (or a failure as success)")
    run.floor("R1", "outcome cases of sign_unauthorized", n_u, 3)
    # to_binary
    B = P.cls("comm.bip32.BIP32Path")
    tb = P.method(B, "to_binary")
    gb = A.cfg(tb, B)
    d = tb.node.args.defaults
    run.check("R1", len(d) == 1 and isinstance(d[0], ast.Constant) and d[0].value == "little", "to_binary defaults to little endian",
              key="BIP32Path.to_binary|default", where=tb.loc(), message="BIP32Path.to_binary no longer defaults to little endian")
    for fnx in (sa, su, P.method(D, "get_public_key")):
        for c in find_calls(A, fnx, "to_binary"):
            run.check("R1", not c.args and not c.keywords, f"{fnx.name}: to_binary() with the default byte order", key=f"{fnx.name}|to_binary-args",
                      where=fnx.loc(c), message=f"{fnx.name} calls `{norm(c)}`")
    for r in [n for n in A.own_nodes(tb) if isinstance(n, ast.Return)]:
        for rn in gb.nodes_of(r):
            got = _lay(run, PV, tb, B, r.value, rn)
            want = {"u8(len(self._elements)) | repeat(u32{'<'}(ELEM(self.elements).index))",
                    "u8(len(self._elements)) | repeat(u32{'>'}(ELEM(self.elements).index))"}
            run.check("R1", got == want, "to_binary = count | each element index as u32", key="BIP32Path.to_binary|layout", where=tb.loc(r),
                      message=f"to_binary builds {sorted(got)}")
    for cn in [n for n in gb.nodes if n.kind == "cond"]:
        run.check("R1", norm(cn.ast) == "byteorder == 'big'", "only 'big' selects big endian", key="BIP32Path.to_binary|order-test", where=tb.loc(),
                  message=f"to_binary order test is `{norm(cn.ast)}`")
    os_ = sorted((norm(d_.value)) for d_ in defs_of(A, tb, "order_sign"))
    run.check("R1", os_ == ["'<'", "'>'"], "order signs are < and >", key="BIP32Path.to_binary|order-signs", where=tb.loc(), message=f"order signs {os_}")
    for d_ in PV.defs(tb, B).get("order_sign", []):
        ts_ = F.expanded(tb, B, d_.cnode, PV)
        big = "byteorder == 'big'" in ts_
        little = "byteorder != 'big'" in ts_
        run.check("R1", (norm(d_.value) == "'>'" and big) or (norm(d_.value) == "'<'" and little), "'>' exactly under byteorder == 'big', '<' otherwise",
                  key=f"BIP32Path.to_binary|order-sign-guard|{norm(d_.value)}", where=tb.loc(d_.node),
                  message=f"to_binary selects the order sign {norm(d_.value)} under {sorted(t for t in ts_ if 'byteorder' in t)}: the default (little endian) "
                          "encoding of the path sent to the device would be byte-swapped")
    el = P.method(B, "elements")
    rr = [n for n in A.own_nodes(el) if isinstance(n, ast.Return)]
    run.check("R1", len(rr) == 1 and norm(rr[0].value) == "self._elements", "elements property is the parsed list", key="BIP32Path.elements|getter",
              where=el.loc(), message="BIP32Path.elements changed")
    # varint
    ev = P.func("comm.bitcoin.encode_varint")
    rr = [n for n in A.own_nodes(ev) if isinstance(n, ast.Return)]
    v = ev.params[0]
    if len(rr) == 1 and norm(rr[0].value) == f"bitcoin.core.VarIntSerializer.serialize({v}).hex()":
        run.ok("R1", "encode_varint delegates to python-bitcoinlib's VarIntSerializer (trusted)", ev.loc())
    else:
        gv = A.cfg(ev, None)
        table = {1: (None, 0xfc, ""), 2: (0xfd, 0xffff, "fd"), 4: (0x10000, 0xffffffff, "fe"), 8: (0x100000000, None, "ff")}
        for r in rr:
            for rn in gv.nodes_of(r):
                hi = None
                for f in F.local(ev, None, rn):
                    if f.kind == "cmp" and norm(f.left) == v:
                        ok, k = try_fold(P, f.right, ev)
                        if ok and f.op == "<=":
                            hi = k if hi is None else min(hi, k)
                        if ok and f.op == "<":
                            hi = k - 1 if hi is None else min(hi, k - 1)
                m = re.search(r"to_bytes\((\d+)", norm(r.value))
                w = int(m.group(1)) if m else None
                pref = re.match(r"'(\w\w)' \+", norm(r.value))
                pref = pref.group(1) if pref else ""
                run.check("R1", w in table and table[w][1] == hi and table[w][2] == pref,
                          f"varint width {w}: values up to {hex(table[w][1]) if w in table and table[w][1] else 'max'} with prefix '{table[w][2] if w in table else '?'}'",
                          key=f"encode_varint|width-{w}|threshold", where=ev.loc(r),
                          message=f"encode_varint uses a {w}-byte form with prefix '{pref}' for values up to {hex(hi) if hi is not None else 'unbounded'}; "
                                  f"Bitcoin's CompactSize uses it up to {hex(table[w][1]) if w in table and table[w][1] else 'the maximum'} "
                                  "(e.g. 0xfd itself needs the 3-byte form)")

    # ---------------------------------------------------------------- R2
    run.rule("R2", "Step order and gating: each step's first send is dominated by the previous step's success (answer op == next "
             "op for the path step; response[0] truthy for chunked steps); the only (True, ...) is dominated by all of them and "
             "carries HSM2DongleSignature(last answer[1][OFF.DATA:]); unauthorized: (True, HSM2DongleSignature(answer[OFF.DATA:])) "
             "only under op == SUCCESS.")
    order = [(sends[0], "path")] + [(c, P.const_eval(kwarg(c, "operation"), sa.module, cls=D).name) for c in chunks]
    for i in range(1, len(order)):
        prev, cur = order[i - 1][0], order[i][0]
        for cn in ga.nodes_of(cur):
            dom = any(ga.dominates(x, cn) for x in ga.nodes_of(prev))
            facts = F.local(sa, D, cn)
            if i == 1:
                ok = any(f.kind == "cmp" and f.op == "==" and "response[self.OFF.OP]" in norm(f.left) and norm(f.right).endswith("SIGN.BTC_TX")
                         for f in facts)
            else:
                ok = sum(1 for f in facts if f.kind == "truthy" and f.pol and norm(f.expr) == "response[0]") >= i - 1
            run.check("R2", dom and ok, f"step {order[i][1]} only after step {order[i - 1][1]} succeeded",
                      key=f"sign_authorized|{order[i][1]}|after-{order[i - 1][1]}", where=sa.loc(cur),
                      message=f"the {order[i][1]} step can start although the {order[i - 1][1]} step did not succeed")
    trues = [n for n in A.own_nodes(sa) if isinstance(n, ast.Return) and isinstance(n.value, ast.Tuple)
             and isinstance(n.value.elts[0], ast.Constant) and n.value.elts[0].value is True]
    for r in trues:
        for rn in ga.nodes_of(r):
            # what the second element stands for, with temporaries expanded up to the answer variable
            sv = {_strip(x) for x in PV.expand_consistent(sa, D, r.value.elts[1], rn, stop=("response",))}
            run.check("R2", sv == {_strip("HSM2DongleSignature(response[1][self.OFF.DATA:])")}, "signature parsed from the last answer's data",
                      key="sign_authorized|signature-source", where=sa.loc(r), message=f"authorized signing returns `{sorted(sv)[:1]}`")
            # ... where `response` is the answer of the last step: at the place the signature is parsed
            pn = [x for c_ in find_calls(A, sa, "HSM2DongleSignature") for x in ga.nodes_of(c_)] or [rn]
            rd = [d for n_ in pn for d in PV.reaching(sa, D, "response", n_)]
            run.check("R2", bool(rd) and all(d.value is chunks[-1] for d in rd), "that answer is the merkle-proof step's", key="sign_authorized|signature-answer",
                      where=sa.loc(r), message="the signature is not taken from the answer that completed the last step")
    # (the signature sign_unauthorized returns: outcome table in R1)
        okS, SUCC = try_fold(P, ast.parse("self.OP.SIGN.SUCCESS", mode="eval").body, su, D)
        okO, OPI_ = try_fold(P, ast.parse("self.OFF.OP", mode="eval").body, su, D)
        us_send = find_calls(A, su, "_send_command")
        for rn in gs.nodes_of(r):
            good = False
            for f in F.local(su, D, rn):
                if f.kind != "cmp" or f.op != "==":
                    continue
                for a_, b_ in ((f.left, f.right), (f.right, f.left)):
                    okc, cv = fold_local(run, PV, su, D, b_, f.node if f.node is not None else rn)
                    if okc and okS and cv == SUCC:
                        call_, idx_ = answer_field(run, PV, su, D, a_, f.node if f.node is not None else rn)
                        if call_ is not None and us_send and call_ is us_send[0] and idx_ == [OPI_]:
                            good = True
            run.check("R2", good, "unauthorized: success only when the answer's op is SUCCESS", key="sign_unauthorized|success-guard", where=su.loc(r),
                      message="sign_unauthorized can return (True, signature) although the device's answer does not carry op == SIGN.SUCCESS (e.g. it asked "
                              "for a BTC transaction, or answered something unexpected): a signature would be parsed from an answer that holds none")

    # ---------------------------------------------------------------- R3
    _chunk_loop(run, PV, D, sdc, defaults)

    # ---------------------------------------------------------------- R4
    _wiring(run, PV, fw, D)
    # "what the client asked to have signed" is the transaction with its non-final script operations blanked: the frame of
    # that transformation (rules R1/R2 of C14) is part of this property too - re-applied under the prefix B.
    from . import c14
    run.rid_prefix = "B."
    try:
        c14.scriptsig_rules(run, PV)
    finally:
        run.rid_prefix = ""
    # "the requested key path": which 32-bit index each element of the path text denotes (rule R2c of C02) - re-applied under the prefix G.
    from . import c02
    run.rid_prefix = "G."
    try:
        c02.bip32_element_table(run, "R2c")
        c02.bip32_path_elements(run, "R2b")
    finally:
        run.rid_prefix = ""
    # ---------------------------------------------------------------- R5
    _reply(run, F, PV)


def _answer_size_of(run, PV, fn, cls, expr, at, prev_call, chunked):
    """Is `expr` (at CFG node `at`) the requested-size byte of the answer to prev_call?  answer[OFF.DATA] for a
    direct send, answer[1][OFF.DATA] for a chunked send; followed through local names by reaching definitions."""
    P = run.P
    okd, DAI = try_fold(P, ast.parse("self.OFF.DATA", mode="eval").body, fn, cls)
    e, node = expr, at
    for _ in range(6):
        if isinstance(e, ast.Name):
            rds = PV.reaching(fn, cls, e.id, node)
            if len(rds) != 1 or rds[0].value is None or rds[0].kind != "assign":
                return False, f"`{e.id}` has {len(rds)} reaching definitions here"
            e, node = rds[0].value, rds[0].cnode
            continue
        break
    if not (isinstance(e, ast.Subscript) and not isinstance(e.slice, ast.Slice)):
        return False, f"it is `{norm(e)[:50]}`"
    ok, idx = try_fold(P, e.slice, fn, cls)
    if not ok or idx != DAI:
        return False, f"it indexes `{norm(e.slice)}`, not OFF.DATA"
    base = e.value
    if chunked:
        if not (isinstance(base, ast.Subscript) and isinstance(base.slice, ast.Constant) and base.slice.value == 1):
            return False, f"it is `{norm(e)[:50]}`"
        base = base.value
    for _ in range(6):
        if isinstance(base, ast.Name):
            rds = PV.reaching(fn, cls, base.id, node)
            if len(rds) != 1 or rds[0].value is None:
                return False, f"`{base.id}` has {len(rds)} reaching definitions"
            base, node = rds[0].value, rds[0].cnode
            continue
        break
    return base is prev_call, f"it reads the answer of `{norm(base)[:60]}`"


def _chunk_loop(run, PV, D, sdc, defaults):
    """R3, decided on the decision table of one iteration (send -> next send / return), independent of the
    loop's surface shape."""
    P, A = run.P, run.A
    run.rule("R3", "Chunk loop (_send_data_in_chunks), decided on the decision table of one iteration of the region send -> "
             "next send | return, whatever the loop's surface shape: the message is u8(operation) | data[o:o+n]; before the first "
             "send o = 0, sent = 0, n = initial_bytes; with P1 = answer op in [operation]+next_operations, P2 = answer op == "
             "operation, P3 = expect_full_data, P4 = sent+len(slice) < len(data): not P1 -> (False, answer); P1 and P2 -> next "
             "send with o += len(slice), sent += len(slice), n = answer[OFF.DATA]; P1, not P2, P3 and P4 -> (False, answer); "
             "otherwise (True, answer); every completion of every leaf's valuation must have exactly that outcome; "
             "expect_full_data has no default.")
    g = A.cfg(sdc, D)
    cs = find_calls(A, sdc, "_send_command")
    run.require(len(cs) >= 1, "_send_data_in_chunks: no send in the chunk loop (anchor vanished)")
    run.check("R3", len(cs) == 1, "each chunk goes out in exactly one exchange", key="_send_data_in_chunks|send-sites", where=sdc.loc(cs[1]) if len(cs) > 1 else sdc.loc(),
              message=f"_send_data_in_chunks has {len(cs)} exchange sites: a chunk that is sent again (a retry after a time-out, a second copy) reaches the device twice - "
                      "the device has already consumed the first copy, so the bytes it assembles are no longer the client's")
    if len(cs) != 1:
        return
    c = cs[0]
    sns = g.nodes_of(c)
    run.require(len(sns) == 1 and sns[0].kind == "stmt" and isinstance(sns[0].ast, ast.Assign) and sns[0].ast.value is c
                and len(sns[0].ast.targets) == 1 and isinstance(sns[0].ast.targets[0], ast.Name),
                "_send_data_in_chunks: the send is not a plain `answer = self._send_command(...)` statement (idiom not understood)")
    sn = sns[0]
    R = sn.ast.targets[0].id
    L = Layout(lambda e: try_fold(P, e, sdc, D))
    okop, OPI = try_fold(P, ast.parse("self.OFF.OP", mode="eval").body, sdc, D)
    okd, DAI = try_fold(P, ast.parse("self.OFF.DATA", mode="eval").body, sdc, D)
    run.require(okop and okd, "OFF.OP / OFF.DATA not foldable")
    state = {}

    def answer_field(e):
        """R[<const>] -> const index, else None"""
        if isinstance(e, ast.Subscript) and isinstance(e.value, ast.Name) and e.value.id == R and not isinstance(e.slice, ast.Slice):
            ok, v = try_fold(P, e.slice, sdc, D)
            return v if ok else None
        return None

    def atom_of(e):
        if isinstance(e, ast.Name) and e.id == "expect_full_data":
            return ("P3", True)
        cp = cmp_parts(e)
        if cp is None:
            return None
        l, op, r = cp
        if op in ("==", "!=") and answer_field(r) is not None:
            l, r = r, l
        if answer_field(l) == OPI:
            rt = norm(r)
            if op in ("in", "not in") and rt in ("[operation] + next_operations", "next_operations + [operation]",
                                                 "(operation, *next_operations)", "[operation, *next_operations]"):
                return ("P1", op == "in")
            if op in ("==", "!=") and rt == "operation":
                return ("P2", op == "==")
            return None
        # sent + len(slice) < len(data)
        if op in (">", ">="):
            l, r = r, l
            op = {">": "<", ">=": "<="}[op]
        if op in ("<", ">=") or op == "<=":
            pass
        if op in ("<",) or (op == ">=" and False):
            pass
        lt, rt = L.intexpr(l), L.intexpr(r)
        if "slice" in state and rt == "len(data)" and op in ("<", ">="):
            m = re.fullmatch(re.escape(f"len({state['slice']})") + r"\+(\w+)", lt)
            if m and state.setdefault("T", m.group(1)) == m.group(1):
                return ("P4", op == "<")
        if "slice" in state and lt == "len(data)" and op in (">", "<="):
            m = re.fullmatch(re.escape(f"len({state['slice']})") + r"\+(\w+)", rt)
            if m and state.setdefault("T", m.group(1)) == m.group(1):
                return ("P4", op == ">")
        return None

    # the message of the send, in terms of the iteration's entry state
    cmd, msg = (c.args + [None, None])[:2]
    run.check("R3", cmd is not None and norm(cmd) == "command", "sends with the caller's command", key="_send_data_in_chunks|send-command",
              where=sdc.loc(c), message=f"the chunk message is sent with command `{norm(cmd) if cmd is not None else None}`")
    got = {L.canon(x) for x in PV.expand_consistent(sdc, D, msg, sn, stop=tuple(n for n in PV.defs(sdc, D) if PV.reaching(sdc, D, n, sn)
                                                                               and any(d.kind == "aug" or g.in_loop(d.cnode)
                                                                                       for d in PV.reaching(sdc, D, n, sn))
                                                                               and not _is_slice_temp(PV, sdc, D, n)))} \
        if msg is not None else set()
    m = None
    if len(got) == 1:
        m = re.fullmatch(r"u8\(operation\) \| (data\[(\w+):(\w+)\+(\w+)\])", next(iter(got)))
    ok = bool(m) and m.group(2) in (m.group(3), m.group(4))
    run.check("R3", ok, "message = u8(operation) | data[o:o+n]", key="_send_data_in_chunks|send-expr", where=sdc.loc(c),
              message=f"the chunk message is {sorted(got)}, not u8(operation) | data[o:o+n]: bytes would be dropped, repeated or truncated")
    if not ok:
        return
    state["slice"] = m.group(1)
    X = m.group(2)
    Y = m.group(4) if m.group(3) == X else m.group(3)
    # temporaries computed between the loop head and the send (in terms of the iteration's entry state)
    heads = [n for n in g.nodes if n.kind == "join" and n.note == "while-head" and any(c is x for x in ast.walk(n.ast))]
    run.require(len(heads) == 1, "_send_data_in_chunks: the send is not inside exactly one while loop (idiom not understood)")
    pre = [lf for lf in Walker(A, sdc, D, lambda e: None).walk(heads[0], stops={sn}) if lf.kind == "stop"]
    env0s = {tuple(sorted((k, norm(v)) for k, v in lf.env.items())) for lf in pre}
    run.require(len(env0s) == 1, "_send_data_in_chunks: the values computed before the send depend on the path taken (idiom not understood)")
    W = Walker(A, sdc, D, atom_of)
    leaves = W.walk(sn, stops={sn}, env=pre[0].env)
    run.floor("R3", "leaves of the chunk iteration's decision table", len(leaves), 4)
    atoms = ["P1", "P2", "P3", "P4"]

    def feasible(v):
        return not (v["P2"] and not v["P1"])

    def spec(v):
        if not v["P1"]:
            return "fail"
        if v["P2"]:
            return "next"
        if v["P3"] and v["P4"]:
            return "fail"
        return "ok"
    names = {"fail": "(False, answer)", "ok": "(True, answer)", "next": "send the next chunk"}
    n_cases = 0
    for lf in leaves:
        if lf.kind == "return" and isinstance(lf.value, ast.Tuple) and len(lf.value.elts) == 2 \
                and isinstance(lf.value.elts[0], ast.Constant) and isinstance(lf.value.elts[0].value, bool):
            actual = "ok" if lf.value.elts[0].value else "fail"
            second = lf.value.elts[1]
            run.check("R3", isinstance(second, ast.Name) and second.id == R and lf.bind.get(R) is not None,
                      "the returned answer is the last chunk's answer", key=f"_send_data_in_chunks|returned-answer|{actual}", where=sdc.loc(lf.node.ast),
                      message=f"_send_data_in_chunks returns `{norm(second)}` instead of the device's last answer")
        elif lf.kind == "stop":
            actual = "next"
        else:
            actual = f"{lf.kind} at line {lf.node.lineno}"
        for v in completions({a: b for a, b in lf.pc.items() if a in atoms}, atoms, feasible):
            n_cases += 1
            want = spec(v)
            desc = ", ".join(f"{a}={'T' if v[a] else 'F'}" for a in atoms)
            kind = {"fail": "unexpected-op" if not v["P1"] else "full-data-check", "next": "continue", "ok": "success-return"}[want]
            run.check("R3", actual == want, f"[{desc}] -> {names[want]}", key=f"_send_data_in_chunks|{kind}|{desc}", where=sdc.loc(lf.node.ast) if lf.node.ast is not None else sdc.loc(),
                      message=f"for an answer with [{desc}] (P1: op in [operation]+next_operations, P2: op == operation, P3: expect_full_data, "
                              f"P4: unsent data left) the chunk loop does `{names.get(actual, actual)}`; the protocol requires `{names[want]}`")
        if lf.kind == "stop":
            T = state.get("T")
            sl = f"len({state['slice']})"
            for var, want_v, why in ((X, f"{sl}+{X}", "offset advances by the length really sent"),
                                     (T, f"{sl}+{T}" if T else None, "sent total advances by the length really sent")):
                if var is None:
                    continue
                gotv = L.intexpr(lf.env[var]) if var in lf.env else var
                run.check("R3", gotv == want_v, why, key=f"_send_data_in_chunks|{var}|recurrence", where=sdc.loc(),
                          message=f"before the next chunk `{var}` is `{gotv}`, expected `{want_v}`: e.g. advancing by the requested size "
                                  "over-advances on a short last chunk")
            yv = lf.env.get(Y)
            if yv is None and Y in lf.bind:
                yv = lf.bind[Y]
            run.check("R3", yv is not None and answer_field(yv) == DAI, "next size = the answer's data byte",
                      key="_send_data_in_chunks|bytes_requested|next", where=sdc.loc(),
                      message=f"the next chunk size is `{norm(yv) if yv is not None else Y + ' (unchanged)'}`, not the size the device just requested")
    run.check("R3", state.get("T") is not None, "the full-data check compares the bytes really sent with len(data)", key="_send_data_in_chunks|full-data-check|present",
              where=sdc.loc(), message="no comparison of (sent so far + this chunk) with len(data) guards the success return")
    run.note(f"R3: {len(leaves)} leaves, {n_cases} valuation cases compared with the protocol table")
    # prologue: entry -> first send
    pro = Walker(A, sdc, D, lambda e: None).walk(g.entry, stops={sn})
    for lf in pro:
        run.check("R3", lf.kind == "stop", "every path from entry reaches the first send", key="_send_data_in_chunks|prologue|reaches-send", where=sdc.loc(),
                  message=f"_send_data_in_chunks can {lf.kind} at line {lf.node.lineno} before sending anything")
        if lf.kind != "stop":
            continue
        for var, want_v in ((X, "0"), (state.get("T"), "0"), (Y, "initial_bytes")):
            if var is None:
                continue
            gotv = L.intexpr(lf.env[var]) if var in lf.env else var
            run.check("R3", gotv == want_v, f"{var} starts as {want_v}", key=f"_send_data_in_chunks|{var}|initial", where=sdc.loc(),
                      message=f"`{var}` is `{gotv}` at the first chunk, expected `{want_v}`")
    run.check("R3", "expect_full_data" not in defaults, "expect_full_data must be given explicitly", key="_send_data_in_chunks|expect_full_data-default",
              where=sdc.loc(), message=f"expect_full_data has a default ({norm(defaults.get('expect_full_data')) if 'expect_full_data' in defaults else None}): "
              "a call site that forgets it silently loses the completeness check")


def _is_slice_temp(PV, fn, sc, name):
    """A loop-local temporary (assigned once per iteration from a pure expression): expanded, not a stop."""
    ds = PV.defs(fn, sc).get(name, [])
    return len(ds) == 1 and ds[0].kind == "assign" and ds[0].value is not None and is_pure(ds[0].value)


def _vals(run, PV, fn, cls, expr, cn):
    """Value set of expr at cn in terms of `request`: path-sensitive (decision walk) when the function is loop-free
    up to cn, flow-based provenance otherwise."""
    try:
        return {_strip(x) for x in values_at(run.A, fn, cls, cn, expr)}
    except AnalysisError:
        return {_strip(x) for x in PV.expand_consistent(fn, cls, expr, cn, stop=("request",))}


def _wiring(run, PV, fw, D):
    P, A = run.P, run.A
    run.rule("R4", "Wiring manager -> device (both _sign implementations): key_id <- request['keyId']; rsk_tx_receipt <- auth.receipt; "
             "receipt_merkle_proof <- auth.receipt_merkle_proof; btc_tx <- get_unsigned_tx(message.tx); input_index <- message.input; "
             "sighash_computation_mode <- SighashComputationMode(message.sighashComputationMode); witness_script <- "
             "message.get('witnessScript'); outpoint_value <- message.get('outpointValue'); unauthorized hash <- message.hash (v1: "
             "message); SighashComputationMode values/net values == firmware SIGHASH_COMPUTE_MODE_*.")
    V2 = P.cls("ledger.protocol.HSM2ProtocolLedger")
    V1 = P.cls("ledger.protocol_v1.HSM1ProtocolLedger")
    sg = P.method(V2, "_sign")
    g = A.cfg(sg, V2)
    want = {"key_id": "request['keyId']", "rsk_tx_receipt": "request['auth']['receipt']",
            "receipt_merkle_proof": "request['auth']['receipt_merkle_proof']", "btc_tx": "get_unsigned_tx(request['message']['tx'])",
            "input_index": "request['message']['input']",
            "sighash_computation_mode": "SighashComputationMode(request['message']['sighashComputationMode'])",
            "witness_script": "request['message'].get('witnessScript')", "outpoint_value": "request['message'].get('outpointValue')"}
    n = 0
    for c in find_calls(A, sg, "sign_authorized"):
        kws = {k.arg: k.value for k in c.keywords}
        run.check("R4", set(kws) == set(want) and not c.args, "sign_authorized called with the eight named arguments", key="_sign|sign_authorized|arguments",
                  where=sg.loc(c), message=f"sign_authorized arguments: {sorted(kws)}")
        for k, w in want.items():
            if k not in kws:
                continue
            n += 1
            for cn in g.nodes_of(c):
                got = _vals(run, PV, sg, V2, kws[k], cn)
                run.check("R4", got == {_strip(w)}, f"{k} <- {w}", key=f"_sign|sign_authorized|{k}", where=sg.loc(c),
                          message=f"sign_authorized({k}=...) receives {sorted(got)[:1]}, expected `{w}`")
    for pc, m, w in ((V2, sg, {"key_id": "request['keyId']", "hash": "request['message']['hash']"}),
                     (V1, P.method(V1, "_sign"), {"key_id": "request['keyId']", "hash": "request['message']"})):
        gm = A.cfg(m, pc)
        for c in find_calls(A, m, "sign_unauthorized"):
            kws = {k.arg: k.value for k in c.keywords}
            for k, ww in w.items():
                n += 1
                for cn in gm.nodes_of(c):
                    got = _vals(run, PV, m, pc, kws.get(k, ast.Constant(value=None)), cn)
                    run.check("R4", got == {_strip(ww)}, f"{pc.name}: {k} <- {ww}", key=f"{pc.name}._sign|sign_unauthorized|{k}", where=m.loc(c),
                              message=f"{pc.name}: sign_unauthorized({k}=...) receives {sorted(got)[:1]}, expected `{ww}`")
    run.floor("R4", "wired arguments", n, 12)
    # the request reaches _sign as the client sent it: between parsing and the device call nothing stores into the request object or one of its
    # sub-objects, except the documented key id parse (request['keyId'] = BIP32Path(request['keyId']))
    from sa.atoms import PathEnv
    scanned, seen_fn = 0, set()
    MUT = {"update", "pop", "setdefault", "clear", "popitem", "__setitem__", "__delitem__", "append", "extend", "insert", "remove", "sort", "reverse"}
    for pc in protocol_classes(run):
        for c_ in pc.mro():
            for mname, m in sorted(getattr(c_, "methods", {}).items()):
                if m.qualname in seen_fn or "request" not in m.params:
                    continue
                seen_fn.add(m.qualname)
                scanned += 1
                env = PathEnv(A, m, {"request": ()}, pc)
                for n_ in A.own_nodes(m):
                    tgts = []
                    if isinstance(n_, ast.Assign):
                        tgts = [t for t in n_.targets]
                    elif isinstance(n_, (ast.AugAssign, ast.AnnAssign)):
                        tgts = [n_.target]
                    elif isinstance(n_, ast.Delete):
                        tgts = list(n_.targets)
                    elif isinstance(n_, ast.Call) and isinstance(n_.func, ast.Attribute) and n_.func.attr in MUT:
                        p_ = env.path_of(n_.func.value)
                        if p_ is not None:
                            run.fail("R4", f"{m.qualname}|request-mutated|{n_.func.attr}", m.loc(n_),
                                     f"{m.qualname} calls .{n_.func.attr}() on the client's request ({'.'.join(p_) or 'request'}): what is relayed to the device is "
                                     "no longer what the client sent")
                        continue
                    for t in tgts:
                        for x in (t.elts if isinstance(t, (ast.Tuple, ast.List)) else [t]):
                            if not isinstance(x, ast.Subscript):
                                continue
                            p_ = env.path_of(x.value)
                            if p_ is None:
                                continue
                            full = env.path_of(x)
                            okw = False
                            if full == ("keyId",) and isinstance(n_, ast.Assign):
                                gm_ = A.cfg(m, pc)
                                vs_ = {_strip(x) for cn_ in gm_.nodes_of(n_) for x in PV.expand_consistent(m, pc, n_.value, cn_, stop=("request",))}
                                okw = vs_ == {_strip("BIP32Path(request['keyId'])")}
                            run.check("R4", okw, "the only store into the request is the key id parse", key=f"{m.qualname}|request-mutated|{'.'.join(full or p_)}",
                                      where=m.loc(n_), message=f"{m.qualname} rewrites the client's request field `{'.'.join(full or p_) or 'request'}` "
                                      f"(`{norm(n_)[:80]}`): the value relayed to the device is no longer the one the client sent")
    run.floor("R4", "request-handling methods scanned for stores into the request", scanned, 20)
    sm = P.enum_members(P.cls("ledger.hsm2dongle.SighashComputationMode"))
    cm = fw.file("powhsm/src/auth_tx.h").all_enum_members()
    for py, (val, c) in {"LEGACY": ("legacy", "SIGHASH_COMPUTE_MODE_LEGACY"), "SEGWIT": ("segwit", "SIGHASH_COMPUTE_MODE_SEGWIT")}.items():
        run.require(c in cm, f"auth_tx.h: {c} vanished")
        run.check("R4", sm[py].value == val and sm[py].extra.get("netvalue") == cm[c], f"SighashComputationMode.{py} = ('{val}', {cm[c]})",
                  key=f"SighashComputationMode|{py}", where="middleware/ledger/hsm2dongle.py",
                  message=f"SighashComputationMode.{py} is ({sm[py].value!r}, {sm[py].extra.get('netvalue')}); protocol literal '{val}', firmware {c} = {cm[c]}")


def _reply(run, F, PV):
    P, A = run.P, run.A
    run.rule("R5", "Reply wiring: under a truthy sign_result[0] the reply is {'signature': {'r': signature.r, 's': signature.s}} with "
             "signature = sign_result[1]; HSM2DongleSignature slices r = b[4:4+b[3]] and s = b[6+rl:6+rl+b[5+rl]] after checking the "
             "0x30/0x31 header, the 0x02 markers and the lengths; r/s properties return those hex strings.")
    for pc in protocol_classes(run):
        m = P.method(pc, "_sign")
        g = A.cfg(m, pc)
        for r in [n for n in A.own_nodes(m) if isinstance(n, ast.Return) and isinstance(n.value, ast.Tuple) and len(n.value.elts) == 2]:
            for rn in g.nodes_of(r):
                got = {_strip(x) for x in PV.expand_consistent(m, pc, r.value.elts[1], rn, stop=("sign_result",))}
                run.check("R5", got == {_strip("{'signature': {'r': sign_result[1].r, 's': sign_result[1].s}}")}, f"{pc.name}: r <- signature.r, s <- signature.s",
                          key=f"{pc.name}._sign|reply", where=m.loc(r), message=f"{pc.name}._sign replies {sorted(got)[:1]}")
                facts = {f.text() for f in F.local(m, pc, rn)}
                run.check("R5", "sign_result[0]" in facts, f"{pc.name}: signature returned only on success", key=f"{pc.name}._sign|reply-guard", where=m.loc(r),
                          message=f"{pc.name}._sign can return a signature although the dongle reported failure")
    signature_parser(run, F, PV, "R5")


def signature_parser(run, F, PV, rid="R5"):
    """DER slicing rules of HSM2DongleSignature (shared with C13 under a prefix)."""
    P, A = run.P, run.A
    S = P.cls("ledger.signature.HSM2DongleSignature")
    ini = P.method(S, "__init__")
    g = A.cfg(ini, S)
    b = ini.params[1]
    from sa.canon import canon_sums, compose_slices

    def cs_(t):
        return _strip(compose_slices(canon_text(run, ini, S, simplify_text(t), locals_=set(PV.defs(ini, S)) | set(ini.params))))
    # what is stored as r / s: the hex of the two slices, whatever temporaries (r_len, offsets, an extracted integer parser) are used on the way;
    # index arithmetic is compared in canonical form (4 + n + 2 is 6 + n)
    exp = {"self._r": f"{b}[4:4 + {b}[3]].hex()", "self._s": f"{b}[6 + {b}[3]:6 + {b}[3] + {b}[5 + {b}[3]]].hex()"}
    stores_ = [n for n in A.own_nodes(ini) if isinstance(n, ast.Assign) and norm(n.targets[0]).startswith("self.")]
    got_st = {}
    for n in stores_:
        for dn in g.nodes_of(n):
            got_st.setdefault(norm(n.targets[0]), set()).update(cs_(x) for x in PV.expand_consistent(ini, S, n.value, dn))
    for nm, w in exp.items():
        run.check(rid, got_st.get(nm) == {cs_(w)}, f"{nm} slice", key=f"HSM2DongleSignature|{'rbytes' if nm == 'self._r' else 'sbytes'}", where=ini.loc(),
                  message=f"{nm} is {sorted(got_st.get(nm, []))[:1]}, not `{w}`")
    run.check(rid, set(got_st) == set(exp), "r/s stored as hex of their slices", key="HSM2DongleSignature|stores",
              where=ini.loc(), message=f"HSM2DongleSignature stores {sorted(got_st)}")
    for prop, fld in (("r", "_r"), ("s", "_s")):
        pf = P.method(S, prop)
        rr = [n for n in A.own_nodes(pf) if isinstance(n, ast.Return)]
        run.check(rid, len(rr) == 1 and norm(rr[0].value) == f"self.{fld}", f"property {prop}", key=f"HSM2DongleSignature.{prop}|getter", where=pf.loc(),
                  message=f"HSM2DongleSignature.{prop} does not return self.{fld} (r and s swapped?)")
    # facts on every normal exit, with locals (r_len, s_len, temporaries) expanded to what they stand for
    ef = {cs_(t) for t in F.exit_texts(ini, S, PV)}
    rl = f"{b}[3]"
    required = (f"len({b}) >= 2", f"{b}[0] in [48, 49]", f"len({b}[2:]) >= {b}[1]", f"{b}[2] == 2", f"len({b}[4:]) >= {b}[3]",
                f"{b}[4 + {rl}] == 2", f"len({b}[6 + {rl}:]) >= {b}[5 + {rl}]")
    for w in required:
        run.check(rid, cs_(w) in ef, f"DER check `{w}`", key=f"HSM2DongleSignature|check|{w}", where=ini.loc(),
                  message=f"the DER parser no longer requires `{w}`")
    # closed world: nothing else is demanded of a signature (DER integers are minimal - R or S of 31 bytes and less are genuine; the device's
    # SUCCESS answer must not be turned into an error by an extra `sanity` condition)
    allowed = {cs_(w) for w in required} | {cs_(f"len({b}[2:]) >= 2"), cs_(f"len({b}[4 + {rl}:]) >= 2")}
    locs_ = set(PV.defs(ini, S))
    extra = sorted(t for t in ef if t not in allowed and not any(re.search(rf"\b{re.escape(nm)}\b", t) for nm in locs_ if nm != b))
    run.check(rid, not extra, "the DER parser demands nothing beyond well-formedness", key="HSMDongleSignature|extra-conditions", where=ini.loc(),
              message=f"the DER parser additionally requires {extra[:2]}: a genuine signature the device returned with SUCCESS (e.g. a 31-byte R) is rejected "
                      "and the client gets an error code instead of the signature")
