"""Helpers shared by rule modules (repository-specific anchors)."""
import ast
from sa.model import AnalysisError, Unknown, norm, unwrap, EnumMember
from sa.query import call_name, defs_of, try_fold, calls_in
from sa.tables import Firmware, Markdown
import os

DONGLE_CLASSES = ["ledger.hsm2dongle.HSM2Dongle", "ledger.hsm2dongle_tcp.HSM2DongleTCP",
                  "sgx.hsm2dongle.HSM2DongleSGX"]
PROTOCOL_CLASSES = ["ledger.protocol.HSM2ProtocolLedger", "ledger.protocol_v1.HSM1ProtocolLedger"]


def dongle_classes(run):
    return [run.P.cls(q) for q in DONGLE_CLASSES]


def protocol_classes(run):
    return [run.P.cls(q) for q in PROTOCOL_CLASSES]


def firmware(run):
    if not hasattr(run, "_fw"):
        run._fw = Firmware(run.P.repo_root)
    return run._fw


def doc(run, name):
    return Markdown(os.path.join(run.P.repo_root, "docs", name))


def callee_fns(run, call, fn, sc=None):
    return [c for c in run.A.resolve_call(call, fn, sc)]


def is_dongle_call(run, call, fn, sc, names):
    """Call resolves (all targets) to methods of the dongle classes whose name
    is in `names`."""
    if call_name(call) not in names:
        return False
    cs = callee_fns(run, call, fn, sc)
    fns = [c.fn for c in cs if c.fn is not None]
    if not fns or len(fns) != len(cs):
        return False
    dcs = dongle_classes(run)
    return all(f.cls is not None and any(f.cls in d.mro() for d in dcs) and f.name in names
               for f in fns)


def is_method_call_on(run, call, fn, sc, classes, names):
    if call_name(call) not in names:
        return False
    cs = callee_fns(run, call, fn, sc)
    fns = [c.fn for c in cs if c.fn is not None]
    if not fns or len(fns) != len(cs):
        return False
    return all(f.cls is not None and any(k in f.cls.mro() or f.cls in k.mro() for k in classes)
               for f in fns)


def name_defined_only_by(run, fn, sc, name, pred):
    """Every definition of local `name` in fn is `name = <call>` with
    pred(call) true.  Returns (ok, defs)."""
    ds = defs_of(run.A, fn, name)
    if not ds:
        return False, ds
    for d in ds:
        if not isinstance(d, ast.Assign) or not isinstance(d.value, ast.Call) or not pred(d.value):
            return False, ds
    return True, ds


def strip_not(e):
    pol = True
    while isinstance(e, ast.UnaryOp) and isinstance(e.op, ast.Not):
        e = e.operand
        pol = not pol
    return pol, e


def enum_value(P, cls_name, member):
    ci = P.cls(cls_name)
    m = P.enum_members(ci)
    if member not in m:
        raise AnalysisError(f"enum member {cls_name}.{member} vanished")
    return m[member].value


def first_arg_member(run, call, fn, sc=None, idx=0):
    """Fold the idx-th positional argument of a call to an EnumMember / int."""
    if len(call.args) <= idx:
        return None
    try:
        return run.P.const_eval(call.args[idx], fn.module, cls=sc or fn.cls)
    except (Unknown, AnalysisError):
        return None


def send_sites(run, fn):
    """(call, folded command) for every `_send_command(...)`/`send_command`
    call in fn."""
    out = []
    for n in run.A.own_nodes(fn):
        if isinstance(n, ast.Call) and call_name(n) in ("_send_command", "send_command"):
            out.append((n, first_arg_member(run, n, fn)))
    return out


def manager_roots(run):
    P = run.P
    roots = [(P.func("mgr.runner.ManagerRunner.run"), None),
             (P.func("comm.server._TCPServerRequestHandler.handle"), None)]
    return roots


def manager_reachable(run):
    if not hasattr(run, "_mgr_reach"):
        run._mgr_reach = run.A.reachable_functions(manager_roots(run))
    return run._mgr_reach


def device_touching(run):
    """Qualnames of functions from which a transport exchange
    (`<x>.dongle.exchange(...)`) is reachable through the resolved call graph."""
    if hasattr(run, "_dev_touch"):
        return run._dev_touch
    A, P = run.A, run.P
    direct = set()
    for fn in P.all_functions:
        for n in A.own_nodes(fn):
            if isinstance(n, ast.Call) and call_name(n) == "exchange" \
                    and isinstance(n.func, ast.Attribute) and norm(n.func.value).endswith("dongle"):
                direct.add(fn.qualname)
    if len(direct) < 1:
        raise AnalysisError("no dongle.exchange() call found: transport anchor vanished")
    edges = {}
    allf = list(P.all_functions) + list(A.module_level.values())
    for fn in allf:
        tg = set()
        for call, cs in A.callees(fn, None):
            for c in cs:
                if c.fn is not None:
                    tg.add(c.fn.qualname)
        edges[fn.qualname] = tg
    dev = set(direct)
    changed = True
    while changed:
        changed = False
        for q, tg in edges.items():
            if q not in dev and tg & dev:
                dev.add(q)
                changed = True
    run._dev_touch = dev
    run._dev_direct = direct
    return dev


def command_methods(run, pc):
    """{command string: FunctionInfo} from the `_mappings` dict of protocol
    class pc (resolved through its MRO), plus validators."""
    P, A = run.P, run.A
    im = P.method(pc, "_init_mappings")
    maps = {}
    for n in A.own_nodes(im):
        if isinstance(n, ast.Assign) and len(n.targets) == 1 and isinstance(n.targets[0], ast.Attribute) \
                and n.targets[0].attr in ("_mappings", "_validation_mappings") and isinstance(n.value, ast.Dict):
            d = {}
            for k, v in zip(n.value.keys, n.value.values):
                try:
                    key = unwrap(P.const_eval(k, im.module, cls=pc))
                except (Unknown, AnalysisError):
                    raise AnalysisError(f"{im.qualname}: mapping key `{norm(k)}` not a constant")
                if isinstance(v, ast.Attribute) and isinstance(v.value, ast.Name) and v.value.id == "self":
                    r = pc.lookup(v.attr)
                    if r is None or r[1] != "method":
                        raise AnalysisError(f"mapping entry {norm(v)} does not resolve in {pc.name}")
                    d[key] = r[2]
                elif isinstance(v, ast.Lambda):
                    lam = [l for l in im.lambdas if l.node is v]
                    d[key] = lam[0] if lam else None
                else:
                    raise AnalysisError(f"{im.qualname}: mapping value `{norm(v)}` not understood")
            maps[n.targets[0].attr] = d
    if set(maps) != {"_mappings", "_validation_mappings"}:
        raise AnalysisError(f"{im.qualname}: _mappings/_validation_mappings dict literals not found")
    return maps
