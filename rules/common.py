"""Helpers shared by rule modules (repository-specific anchors)."""
import ast
from sa.model import AnalysisError, Unknown, norm, unwrap, EnumMember
from sa.query import call_name, defs_of, try_fold, calls_in
from sa.tables import Firmware, Markdown
import os

DONGLE_CLASSES = ["ledger.hsm2dongle.HSM2Dongle", "ledger.hsm2dongle_tcp.HSM2DongleTCP",
                  "sgx.hsm2dongle.HSM2DongleSGX"]
PROTOCOL_CLASSES = ["ledger.protocol.HSM2ProtocolLedger", "ledger.protocol_v1.HSM1ProtocolLedger"]


def dongle_classes(run):
    return [run.P.cls(q) for q in DONGLE_CLASSES]


def protocol_classes(run):
    return [run.P.cls(q) for q in PROTOCOL_CLASSES]


def firmware(run):
    if not hasattr(run, "_fw"):
        run._fw = Firmware(run.P.repo_root)
    return run._fw


def doc(run, name):
    return Markdown(os.path.join(run.P.repo_root, "docs", name))


def callee_fns(run, call, fn, sc=None):
    return [c for c in run.A.resolve_call(call, fn, sc)]


def is_dongle_call(run, call, fn, sc, names):
    """Call resolves (all targets) to methods of the dongle classes whose name
    is in `names`."""
    if call_name(call) not in names:
        return False
    cs = callee_fns(run, call, fn, sc)
    fns = [c.fn for c in cs if c.fn is not None]
    if not fns or len(fns) != len(cs):
        return False
    dcs = dongle_classes(run)
    return all(f.cls is not None and any(f.cls in d.mro() for d in dcs) and f.name in names
               for f in fns)


def is_method_call_on(run, call, fn, sc, classes, names):
    if call_name(call) not in names:
        return False
    cs = callee_fns(run, call, fn, sc)
    fns = [c.fn for c in cs if c.fn is not None]
    if not fns or len(fns) != len(cs):
        return False
    return all(f.cls is not None and any(k in f.cls.mro() or f.cls in k.mro() for k in classes)
               for f in fns)


def name_defined_only_by(run, fn, sc, name, pred):
    """Every definition of local `name` in fn is `name = <call>` with
    pred(call) true.  Returns (ok, defs)."""
    return _defined_only_by(run, fn, sc, name, pred, 0)


def _defined_only_by(run, fn, sc, name, pred, depth):
    ds = defs_of(run.A, fn, name)
    if not ds or depth > 4:
        return False, ds
    for d in ds:
        if isinstance(d, ast.Assign) and isinstance(d.value, ast.Name) and d.value.id != name:
            # a plain copy (e.g. the result variable of an inlined helper): follow it
            ok, _ = _defined_only_by(run, fn, sc, d.value.id, pred, depth + 1)
            if not ok:
                return False, ds
            continue
        if not isinstance(d, ast.Assign) or not isinstance(d.value, ast.Call) or not pred(d.value):
            return False, ds
    return True, ds


def strip_not(e):
    pol = True
    while isinstance(e, ast.UnaryOp) and isinstance(e.op, ast.Not):
        e = e.operand
        pol = not pol
    return pol, e


def enum_value(P, cls_name, member):
    ci = P.cls(cls_name)
    m = P.enum_members(ci)
    if member not in m:
        raise AnalysisError(f"enum member {cls_name}.{member} vanished")
    return m[member].value


def first_arg_member(run, call, fn, sc=None, idx=0):
    """Fold the idx-th positional argument of a call to an EnumMember / int."""
    if len(call.args) <= idx:
        return None
    try:
        return run.P.const_eval(call.args[idx], fn.module, cls=sc or fn.cls)
    except (Unknown, AnalysisError):
        return None


def send_sites(run, fn):
    """(call, folded command) for every `_send_command(...)`/`send_command`
    call in fn."""
    out = []
    for n in run.A.own_nodes(fn):
        if isinstance(n, ast.Call) and call_name(n) in ("_send_command", "send_command"):
            out.append((n, first_arg_member(run, n, fn)))
    return out


def manager_roots(run):
    P = run.P
    roots = [(P.func("mgr.runner.ManagerRunner.run"), None),
             (P.func("comm.server._TCPServerRequestHandler.handle"), None)]
    return roots


def manager_reachable(run):
    if not hasattr(run, "_mgr_reach"):
        run._mgr_reach = run.A.reachable_functions(manager_roots(run))
    return run._mgr_reach


def device_touching(run):
    """Qualnames of functions from which a transport exchange
    (`<x>.dongle.exchange(...)`) is reachable through the resolved call graph."""
    if hasattr(run, "_dev_touch"):
        return run._dev_touch
    A, P = run.A, run.P
    direct = set()
    for fn in P.all_functions:
        for n in A.own_nodes(fn):
            if isinstance(n, ast.Call) and call_name(n) == "exchange" \
                    and isinstance(n.func, ast.Attribute) and norm(n.func.value).endswith("dongle"):
                direct.add(fn.qualname)
    if len(direct) < 1:
        raise AnalysisError("no dongle.exchange() call found: transport anchor vanished")
    edges = {}
    allf = list(P.all_functions) + list(A.module_level.values())
    for fn in allf:
        tg = set()
        for call, cs in A.callees(fn, None):
            for c in cs:
                if c.fn is not None:
                    tg.add(c.fn.qualname)
        edges[fn.qualname] = tg
    dev = set(direct)
    changed = True
    while changed:
        changed = False
        for q, tg in edges.items():
            if q not in dev and tg & dev:
                dev.add(q)
                changed = True
    run._dev_touch = dev
    run._dev_direct = direct
    return dev


def command_methods(run, pc):
    """{'_mappings': {command: FunctionInfo}, '_validation_mappings': {...},
    '_known': set of commands the gate treats as known} obtained by abstract
    interpretation of `_init_mappings` of protocol class pc (dict literals,
    super() delegation, filtering comprehensions, key views)."""
    key = ("command_methods", pc.qualname)
    if not hasattr(run, "_cm"):
        run._cm = {}
    if key in run._cm:
        return run._cm[key]
    P, A = run.P, run.A
    counter = [0]

    def new_obj(d):
        counter[0] += 1
        return (counter[0], d)

    def entry_value(v, im):
        if isinstance(v, ast.Attribute) and isinstance(v.value, ast.Name) and v.value.id == "self":
            r = pc.lookup(v.attr)
            if r is None or r[1] != "method":
                raise AnalysisError(f"mapping entry {norm(v)} does not resolve in {pc.name}")
            return r[2]
        if isinstance(v, ast.Lambda):
            lam = [l for l in im.lambdas if l.node is v]
            return lam[0] if lam else None
        raise AnalysisError(f"{im.qualname}: mapping value `{norm(v)}` not understood")

    def interp(cls_index):
        mro = pc.mro()
        im = None
        for i in range(cls_index, len(mro)):
            if "_init_mappings" in mro[i].methods:
                im = mro[i].methods["_init_mappings"]
                idx = i
                break
        if im is None:
            raise AnalysisError(f"{pc.name}: no _init_mappings in MRO")
        state = {}
        local = {}
        local_tables = {}
        for st in im.node.body:
            if isinstance(st, ast.Expr) and isinstance(st.value, ast.Call):
                c = st.value
                if isinstance(c.func, ast.Attribute) and c.func.attr == "_init_mappings" \
                        and isinstance(c.func.value, ast.Call) and isinstance(c.func.value.func, ast.Name) \
                        and c.func.value.func.id == "super":
                    state = interp(idx + 1)
                    continue
                if "logger" in norm(c.func):
                    continue
                raise AnalysisError(f"{im.qualname}: statement `{norm(st)[:60]}` not understood")
            if isinstance(st, ast.Expr) and isinstance(st.value, ast.Constant):
                continue
            if isinstance(st, ast.Assign) and len(st.targets) == 1:
                t, v = st.targets[0], st.value
                if isinstance(t, ast.Name) and isinstance(v, ast.Dict) and v.keys and all(k is not None for k in v.keys):
                    # a local table of entries (command -> method), to be merged into a table of self further down
                    d = {}
                    for k, vv in zip(v.keys, v.values):
                        try:
                            kk = unwrap(P.const_eval(k, im.module, cls=pc))
                        except (Unknown, AnalysisError):
                            raise AnalysisError(f"{im.qualname}: mapping key `{norm(k)}` not a constant")
                        d[kk] = entry_value(vv, im)
                    local_tables[t.id] = d
                    continue
                if isinstance(t, ast.Name):
                    try:
                        local[t.id] = [unwrap(x) for x in P.const_eval(v, im.module, cls=pc)]
                    except Exception:
                        raise AnalysisError(f"{im.qualname}: local `{t.id}` is not a constant list")
                    continue
                if isinstance(t, ast.Attribute) and isinstance(t.value, ast.Name) and t.value.id == "self":
                    if isinstance(v, ast.Dict):
                        d = {}
                        for k, vv in zip(v.keys, v.values):
                            try:
                                kk = unwrap(P.const_eval(k, im.module, cls=pc))
                            except (Unknown, AnalysisError):
                                raise AnalysisError(f"{im.qualname}: mapping key `{norm(k)}` not a constant")
                            if isinstance(vv, ast.Subscript) and isinstance(vv.value, ast.Attribute) and norm(vv.value.value) == "self" and vv.value.attr in state \
                                    and state[vv.value.attr][0] not in ("view", "copy"):
                                # an entry taken over from the table built so far (self._mappings[K] of the parent's table)
                                try:
                                    sk = unwrap(P.const_eval(vv.slice, im.module, cls=pc))
                                except (Unknown, AnalysisError):
                                    raise AnalysisError(f"{im.qualname}: mapping value `{norm(vv)}` not understood")
                                base_ = state[vv.value.attr][1]
                                if sk not in base_:
                                    raise AnalysisError(f"{im.qualname}: `{norm(vv)}` names a command the table built so far does not have")
                                d[kk] = base_[sk]
                                continue
                            d[kk] = entry_value(vv, im)
                        state[t.attr] = new_obj(d)
                        continue
                    if isinstance(v, ast.DictComp) and len(v.generators) == 1 \
                            and isinstance(v.generators[0].target, ast.Name) and not v.generators[0].ifs \
                            and isinstance(v.key, ast.Name) and v.key.id == v.generators[0].target.id \
                            and isinstance(v.value, ast.Subscript) and isinstance(v.value.value, ast.Attribute) \
                            and norm(v.value.slice) == v.key.id:
                        src = v.value.value.attr
                        it = v.generators[0].iter
                        keys = local.get(it.id) if isinstance(it, ast.Name) else None
                        if keys is None:
                            try:
                                keys = [unwrap(x) for x in P.const_eval(it, im.module, cls=pc)]
                            except Exception:
                                raise AnalysisError(f"{im.qualname}: comprehension source not constant")
                        if src not in state:
                            raise AnalysisError(f"{im.qualname}: `{src}` filtered before being built")
                        base = state[src][1]
                        missing = [k for k in keys if k not in base]
                        if missing:
                            raise AnalysisError(f"{im.qualname}: filter names unknown commands {missing}")
                        state[t.attr] = new_obj({k: base[k] for k in keys})
                        continue
                    if isinstance(v, ast.DictComp) and len(v.generators) == 1 and isinstance(v.generators[0].target, ast.Name) and not v.generators[0].ifs \
                            and isinstance(v.key, ast.Name) and v.key.id == v.generators[0].target.id \
                            and isinstance(v.generators[0].iter, ast.Attribute) and norm(v.generators[0].iter.value) == "self" and v.generators[0].iter.attr in state \
                            and state[v.generators[0].iter.attr][0] not in ("view", "copy") \
                            and isinstance(v.value, ast.Call) and isinstance(v.value.func, ast.Attribute) and v.value.func.attr == "get" \
                            and isinstance(v.value.func.value, ast.Name) and v.value.func.value.id in local_tables and len(v.value.args) == 2 and not v.value.keywords \
                            and isinstance(v.value.args[0], ast.Name) and v.value.args[0].id == v.key.id:
                        # one entry per command of the table built so far: the local table's entry for it, or the default
                        lt = local_tables[v.value.func.value.id]
                        dflt = entry_value(v.value.args[1], im)
                        base = state[v.generators[0].iter.attr][1]
                        state[t.attr] = new_obj({k: lt.get(k, dflt) for k in base})
                        continue
                    if isinstance(v, ast.Call) and isinstance(v.func, ast.Attribute) and v.func.attr == "keys" \
                            and isinstance(v.func.value, ast.Attribute) and norm(v.func.value.value) == "self":
                        src = v.func.value.attr
                        if src not in state:
                            raise AnalysisError(f"{im.qualname}: keys() of `{src}` before it is built")
                        state[t.attr] = ("view", state[src][0], src)
                        continue
                    if isinstance(v, ast.Call) and isinstance(v.func, ast.Name) and v.func.id in ("list", "set", "tuple", "frozenset") \
                            and len(v.args) == 1 and isinstance(v.args[0], ast.Call) \
                            and isinstance(v.args[0].func, ast.Attribute) and v.args[0].func.attr == "keys":
                        src = v.args[0].func.value.attr
                        state[t.attr] = ("copy", set(state[src][1]), src)
                        continue
            raise AnalysisError(f"{im.qualname}: statement `{norm(st)[:60]}` not understood (UNDECIDED)")
        return state
    st = interp(0)
    for need in ("_mappings", "_validation_mappings", "_known_commands"):
        if need not in st:
            raise AnalysisError(f"{pc.name}._init_mappings never sets {need}")
    kc = st["_known_commands"]
    if kc[0] == "view":
        # a keys() view follows the dict *object* it was taken from
        owner = [v for k, v in st.items() if k in ("_mappings", "_validation_mappings") and v[0] == kc[1]]
        known = set(owner[0][1]) if owner else None
        known_src = kc[2] if owner else f"a superseded `{kc[2]}` object"
        if known is None:
            # view over an object no longer bound: recover its keys by re-interpretation of parents
            known = set()
            known_src = f"a `{kc[2]}` dict that was later replaced"
    else:
        known, known_src = kc[1], f"copy of {kc[2]}"
    res = {"_mappings": st["_mappings"][1], "_validation_mappings": st["_validation_mappings"][1],
           "_known": known, "_known_src": known_src,
           "_known_is_live_view": kc[0] == "view" and kc[1] == st["_mappings"][0]}
    run._cm[key] = res
    return res


def fold_local(run, PV, fn, cls, expr, at, depth=0):
    """Fold expr to a constant, following local names with a single reaching definition. -> (ok, value)"""
    from sa.query import try_fold
    if not (isinstance(expr, ast.Name) and expr.id in PV.defs(fn, cls)):
        ok, v = try_fold(run.P, expr, fn, cls)
        if ok:
            return True, v
    if isinstance(expr, ast.Name) and depth < 6:
        rds = PV.reaching(fn, cls, expr.id, at)
        if len(rds) == 1 and rds[0].kind == "assign" and rds[0].value is not None:
            return fold_local(run, PV, fn, cls, rds[0].value, rds[0].cnode, depth + 1)
    return False, None


def answer_field(run, PV, fn, cls, expr, at, depth=0, ignore_const_defs=False):
    """Is expr (at CFG node `at`) a subscript chain over the result of a call, possibly through local names with a
    single reaching definition?  -> (call AST, [folded index | ('slice', lo, hi)] outermost last) or (None, reason)."""
    from sa.query import try_fold
    idx = []
    e, node = expr, at
    for _ in range(12):
        if isinstance(e, ast.Name):
            rds = PV.reaching(fn, cls, e.id, node)
            if ignore_const_defs:
                # e.g. `x = None` before a loop: irrelevant under a fact that equates x with a device constant
                rds = [d for d in rds if not (d.kind == "assign" and isinstance(d.value, ast.Constant))]
            if len(rds) != 1 or rds[0].value is None or rds[0].kind not in ("assign", "with"):
                return None, f"`{e.id}` has {len(rds)} reaching definitions"
            e, node = rds[0].value, rds[0].cnode
            continue
        if isinstance(e, ast.Subscript):
            if isinstance(e.slice, ast.Slice):
                lo = try_fold(run.P, e.slice.lower, fn, cls)[1] if e.slice.lower is not None else None
                hi = try_fold(run.P, e.slice.upper, fn, cls)[1] if e.slice.upper is not None else None
                idx.insert(0, ("slice", lo, hi))
            else:
                ok, v = try_fold(run.P, e.slice, fn, cls)
                idx.insert(0, v if ok else ("?", norm(e.slice)))
            e = e.value
            continue
        break
    if isinstance(e, ast.Call):
        return e, idx
    return None, f"it is `{norm(e)[:50]}`"


def expansions(run, PV, fn, cls, expr, node, stop=(), fold=True):
    """Canonical texts of `expr` at CFG node `node`: local names replaced by their reaching definitions
    (path-sensitively when the function is loop-free up to the node), class / module constants folded, redundant
    parentheses dropped.  The comparison key for "is this expression the specified construction"."""
    from sa.decide import values_at
    from sa.canon import fold_consts
    try:
        vs = values_at(run.A, fn, cls, node, expr) if not stop else None
    except AnalysisError:
        vs = None
    if vs is None:
        vs = PV.expand_consistent(fn, cls, expr, node, stop=stop)
    out = set()
    locs = set(PV.defs(fn, cls)) | set(getattr(fn, "params", []))
    for v in vs:
        try:
            e = ast.parse(v, mode="eval").body
            if fold:
                e = fold_consts(run.P, e, fn, cls, locals_=locs)
            out.add(ast.unparse(e))
        except SyntaxError:
            out.add(v)
    return out


def canon_text(run, fn, cls, text, fold=True, locals_=()):
    """The same canonicalisation applied to an expected text."""
    from sa.canon import fold_consts
    try:
        e = ast.parse(text, mode="eval").body
    except SyntaxError:
        return text
    if fold:
        e = fold_consts(run.P, e, fn, cls, locals_=set(locals_))
    return ast.unparse(e)


def prop_expand(run, PV, cls, text, depth=3):
    """`self.<p>` for a property p of cls whose getter has one closed return expression is replaced by that expression (canonical text)."""
    from sa.decide import return_values
    try:
        e = ast.parse(text, mode="eval").body
    except SyntaxError:
        return text
    A = run.A

    class T(ast.NodeTransformer):
        def __init__(self, d):
            self.d = d

        def visit_Attribute(self, node):
            self.generic_visit(node)
            if isinstance(node.ctx, ast.Load) and isinstance(node.value, ast.Name) and node.value.id == "self" and self.d > 0:
                r = cls.lookup(node.attr)
                if r is not None and r[1] == "method" and r[2].is_property:
                    try:
                        rv = set(return_values(A, r[2], cls, PV))
                    except AnalysisError:
                        return node
                    if len(rv) == 1:
                        try:
                            sub = ast.parse(next(iter(rv)), mode="eval").body
                        except SyntaxError:
                            return node
                        if not any(isinstance(n, ast.Attribute) and n.attr == node.attr and isinstance(n.value, ast.Name) and n.value.id == "self" for n in ast.walk(sub)):
                            return T(self.d - 1).visit(sub)
            return node
    return ast.unparse(T(depth).visit(e))


def comm_flag(run):
    """The link-failure flag by role: the one attribute of self that HSM2ProtocolLedger.ensure_connection tests to decide whether to reconnect
    (`_comm_issue` on the pinned tree; a private name a maintainer may change)."""
    import ast
    from sa.model import norm
    P, A = run.P, run.A
    V2 = P.cls("ledger.protocol.HSM2ProtocolLedger")
    ens = P.method(V2, "ensure_connection")
    g = A.cfg(ens, V2)
    names = set()
    for n in g.nodes:
        if n.kind == "cond" and n.ast is not None:
            e = n.ast
            while isinstance(e, ast.UnaryOp) and isinstance(e.op, ast.Not):
                e = e.operand
            if isinstance(e, ast.Attribute) and isinstance(e.value, ast.Name) and e.value.id == "self":
                names.add(e.attr)
    run.require(len(names) == 1, f"ensure_connection: the test of the link-failure flag vanished or multiplied ({sorted(names)})")
    return next(iter(names))
