"""C12 - concurrent clients never interleave on the device."""
import ast
import os
from sa.model import AnalysisError, Unknown, norm, unwrap, Program
from sa.callgraph import Analysis, ExtVal, ClsVal
from sa.query import Facts, call_name, find_calls, try_fold, calls_in, defs_of
from sa.prov import Prov
from .common import device_touching, manager_reachable, protocol_classes, dongle_classes, comm_flag
from .c06 import _strip

TECHNIQUE = ("census of concurrency constructs (threads, timers, pools, processes, asyncio, threading/forking "
             "socketserver classes) over the manager's modules with resolved callees, call-graph reachability "
             "of device exchanges from every thread target, provenance of the server class and of the reply "
             "stream; positive witnesses keep the expected-zero rules from passing vacuously")
EXPLANATION = (
    "Static analysis of /repo's current source (nothing executed). Decides, modulo CPython's "
    "socketserver.TCPServer handling one request at a time: the only server object is built from "
    "exactly socketserver.TCPServer at one site and served by one serve_forever; the only concurrency "
    "construct in the manager's modules is the threading.Thread in _TCPServerRequestHandler.shutdown, "
    "whose target reaches no device exchange (only server.shutdown); no thread/timer/pool/process/"
    "asyncio construct can reach the protocol or the dongle; every device exchange is reachable only "
    "from bring-up or from the request handler running on the serving thread; the reply is written to "
    "the wfile of the handler instance that read the request, created per request, and no module- or "
    "class-level mutable holds a stream or a response."
)

WITNESS = os.path.join(os.path.dirname(os.path.dirname(os.path.abspath(__file__))), "witness", "c12")

CONC_MODULES = ("threading", "_thread", "multiprocessing", "concurrent", "asyncio", "subprocess", "selectors",
                "sched", "queue")
CONC_NAMES = ("Thread", "Timer", "ThreadPoolExecutor", "ProcessPoolExecutor", "Process", "Pool", "fork",
              "start_new_thread", "ThreadingTCPServer", "ForkingTCPServer", "ThreadingMixIn", "ForkingMixIn",
              "ThreadingUDPServer", "ForkingUDPServer", "run_in_executor", "create_task", "ensure_future", "Popen")

MANAGER_PACKAGES = ("comm", "ledger", "sgx", "mgr", "user", "thirdparty", "manager_ledger", "manager_sgx", "manager_tcp")


def census(P, A):
    """[(fn or None, node, description)] for every concurrency construct in the manager's modules."""
    out = []
    for mod in P.modules.values():
        top = mod.name.split(".")[0]
        if top not in MANAGER_PACKAGES:
            continue
        # imports of concurrency modules are only reported through their uses
        for node in ast.walk(mod.tree):
            if isinstance(node, ast.Call):
                if any(isinstance(x, ast.Call) for x in ast.walk(node.func)):
                    continue      # method called on a constructed object (`Thread(...).start()`): the constructor call is the construct
                txt = norm(node.func)
                last = txt.split(".")[-1]
                root = txt.split(".")[0]
                imp = mod.imports.get(root)
                origin = None
                if imp is not None:
                    origin = imp[1] if imp[0] == "module" else f"{imp[1]}.{imp[2]}"
                hit = False
                if origin and origin.split(".")[0] in CONC_MODULES:
                    hit = True
                if last in CONC_NAMES and (origin is not None and (origin.split(".")[0] in CONC_MODULES + ("socketserver", "os"))):
                    hit = True
                if txt in ("os.fork", "os.forkpty", "os.system", "os.popen") or txt.startswith("os.spawn") or txt.startswith("os.exec"):
                    hit = True
                if hit:
                    out.append((mod, node, f"{txt}(...) [{origin}]"))
            elif isinstance(node, ast.ClassDef):
                for b in node.bases:
                    bt = norm(b)
                    if any(x in bt for x in ("Threading", "Forking")) or bt.split(".")[-1] in ("Thread", "Process"):
                        out.append((mod, node, f"class {node.name}({bt})"))
            elif isinstance(node, (ast.AsyncFunctionDef, ast.Await, ast.AsyncWith, ast.AsyncFor)):
                out.append((mod, node, f"async construct {type(node).__name__}"))
    return out


def run(run):
    P, A = run.P, run.A
    F = Facts(A)
    PV = Prov(A)
    # ------------------------------------------------------- positive witness
    run.rule("R0", "Positive witness: the census must flag every construct of /verif/witness/c12 (ThreadingMixIn subclass, "
             "ThreadingTCPServer, ThreadPoolExecutor, Timer, Thread, asyncio.run); otherwise the analysis is broken.")
    WP = Program(WITNESS)
    WA = Analysis(WP)
    wc = census(WP, WA)
    descs = " ; ".join(d for _, _, d in wc)
    for needle in ("ThreadingMixIn", "ThreadingTCPServer", "ThreadPoolExecutor", "threading.Timer", "threading.Thread", "asyncio.run"):
        if needle not in descs:
            raise AnalysisError(f"C12 witness: the census did not flag `{needle}` ({descs})")
    run.ok("R0", f"witness: {len(wc)} constructs flagged", "witness/c12")

    # ---------------------------------------------------------------- R1
    run.rule("R1", "The server object is constructed from the expression resolving to exactly socketserver.TCPServer (no "
             "Threading*/Forking* class, no local subclass or mix-in), at one site, with _TCPServerRequestHandler as handler "
             "class; serve_forever is called at one site, on that object.")
    srv = P.cls("comm.server.TCPServer")
    runm = P.method(srv, "run")
    g = A.cfg(runm, srv)
    ctor_sites = []
    for fn in P.all_functions:
        for n in A.own_nodes(fn):
            if isinstance(n, ast.Call):
                vals = A.values_of(n.func, fn, None)
                for v in vals:
                    if isinstance(v, ExtVal) and v.dotted.startswith("socketserver.") and v.dotted.split(".")[-1].endswith("Server"):
                        ctor_sites.append((fn, n, v.dotted))
                    if isinstance(v, ClsVal) and any(e.startswith("socketserver.") and e.endswith("Server") for e in v.cls.ext_bases()):
                        ctor_sites.append((fn, n, f"{v.cls.qualname} (subclass of {v.cls.ext_bases()})"))
    run.floor("R1", "socket server construction sites", len(ctor_sites), 1)
    run.check("R1", len(ctor_sites) == 1 and ctor_sites[0][0] is runm and ctor_sites[0][2] == "socketserver.TCPServer",
              "one server, plain socketserver.TCPServer, built in TCPServer.run", key="server|construction", where=runm.loc(),
              message="socket servers are constructed at: " + "; ".join(f"{f.qualname}: {d}" for f, n, d in ctor_sites) +
                      " - only the sequential socketserver.TCPServer keeps requests from interleaving")
    for fn, n, d in ctor_sites:
        if fn is runm:
            run.check("R1", len(n.args) >= 2 and norm(n.args[1]) == "_TCPServerRequestHandler", "handler class is _TCPServerRequestHandler",
                      key="server|handler-class", where=runm.loc(n), message=f"the server is built with handler `{norm(n.args[1]) if len(n.args) > 1 else None}`")
    H = P.cls("comm.server._TCPServerRequestHandler")
    run.check("R1", [b.dotted if hasattr(b, "dotted") else b.qualname for b in H.bases] == ["socketserver.StreamRequestHandler"],
              "handler derives from StreamRequestHandler only", key="_TCPServerRequestHandler|bases", where=H.module.relpath,
              message=f"_TCPServerRequestHandler bases: {[norm(b) for b in H.node.bases]}")
    sf = [(fn, c) for fn in P.all_functions for c in find_calls(A, fn, "serve_forever")]
    # the server object may be held in a local of run() before / besides being stored in self.server: a local whose only binding is the constructor call
    held = set()
    if ctor_sites:
        for st_ in A.own_nodes(runm):
            if isinstance(st_, ast.Assign) and st_.value is ctor_sites[0][1] and len(st_.targets) == 1 and isinstance(st_.targets[0], ast.Name):
                nm_ = st_.targets[0].id
                if sum(1 for x in ast.walk(runm.node) if isinstance(x, ast.Name) and x.id == nm_ and isinstance(x.ctx, (ast.Store, ast.Del))) == 1:
                    held.add(nm_)
    run.check("R1", len(sf) == 1 and sf[0][0] is runm and (norm(sf[0][1].func.value) == "self.server" or norm(sf[0][1].func.value) in held), "one serve_forever on that server",
              key="server|serve_forever", where=runm.loc(), message=f"serve_forever sites: {[(f.qualname, norm(c)) for f, c in sf]}")
    sd = [(rhs, wfn) for (rhs, wfn, tgt) in A._field_writes.get("server", []) if wfn.cls is srv]
    sd = [((ctor_sites[0][1] if (ctor_sites and isinstance(r, ast.Name) and r.id in held and w is runm) else r), w) for r, w in sd]
    run.check("R1", sorted(norm(r) for r, w in sd if r is not None) == sorted(["None", norm(ctor_sites[0][1])]) if ctor_sites else False,
              "self.server is None or that TCPServer", key="server|field", where=srv.module.relpath,
              message=f"TCPServer.server is assigned {[norm(r) for r, w in sd]}")
    aa = [n for n in A.own_nodes(runm) if isinstance(n, ast.Assign) and "allow_reuse_address" in norm(n.targets[0])]
    # class attribute tweaks other than allow_reuse_address would change dispatch behaviour
    tw = [n for n in A.own_nodes(runm) if isinstance(n, ast.Assign) and norm(n.targets[0]).startswith("socketserver.")]
    run.check("R1", all("allow_reuse_address" in norm(n.targets[0]) for n in tw), "only allow_reuse_address is tweaked on socketserver",
              key="server|socketserver-tweaks", where=runm.loc(), message=f"socketserver attributes assigned: {[norm(n.targets[0]) for n in tw]}")

    # ---------------------------------------------------------------- R2
    run.rule("R2", "In the manager's modules (comm, ledger, sgx, mgr, user, thirdparty, manager_*.py) the only concurrency "
             "construct is `threading.Thread(target=tgt).start()` in _TCPServerRequestHandler.shutdown; the functions its "
             "target can reach contain no device exchange and no protocol call - only self.server.shutdown().")
    cs = census(P, A)
    run.extra["concurrency_constructs"] = [f"{m.relpath}:{getattr(n, 'lineno', 0)} {d}" for m, n, d in cs]
    sdm = P.method(H, "shutdown")
    allowed = [x for x in cs if x[0] is H.module and isinstance(x[1], ast.Call) and norm(x[1].func) == "threading.Thread"
               and any(x[1] is y for y in ast.walk(sdm.node))]
    run.check("R2", len(allowed) == 1, "the shutdown helper thread exists", key="census|shutdown-thread", where=sdm.loc(),
              message=f"expected the single shutdown helper thread, found {len(allowed)}")
    for m, n, d in cs:
        if any(n is a[1] for a in allowed):
            continue
        run.fail("R2", f"{m.name}|{d}|concurrency-construct", f"{m.relpath}:{getattr(n, 'lineno', 0)}",
                 f"concurrency construct `{d}` in the manager: requests (or background work) running on another "
                 "thread/process can interleave their APDUs with the request being served")
    run.check("R2", len(cs) - len(allowed) == 0, "no other concurrency construct in the manager's modules", key="census|others",
              where="middleware/", message=f"{len(cs) - len(allowed)} unexpected concurrency construct(s)")
    dev = device_touching(run)
    for m, n, d in allowed:
        tgt = [k.value for k in n.keywords if k.arg == "target"] or n.args[1:2]
        run.require(bool(tgt), "shutdown thread has no target")
        vals = [v for v in A.values_of(tgt[0], sdm, H) if hasattr(v, "fn")]
        run.check("R2", len(vals) == 1, "thread target resolves to one function", key="shutdown-thread|target", where=sdm.loc(n),
                  message=f"thread target `{norm(tgt[0])}` resolves to {len(vals)} functions")
        for v in vals:
            reach = A.reachable_functions([(v.fn, H)])
            names = sorted(f.qualname for f, sc in reach)
            bad = [q for q in names if q in dev]
            run.check("R2", not bad, "shutdown thread cannot reach a device exchange", key="shutdown-thread|device", where=sdm.loc(n),
                      message=f"the shutdown helper thread can reach device exchanges through {bad[:3]}")
            okn = all(q.startswith("comm.server._TCPServerRequestHandler.") for q in names)
            run.check("R2", okn, "shutdown thread stays inside the handler class", key="shutdown-thread|scope", where=sdm.loc(n),
                      message=f"the shutdown helper thread reaches {names}")
        ds = P.method(H, "_do_shutdown")
        body = [norm(s) for s in ds.node.body]
        run.check("R2", body == ["self.server.shutdown()"], "_do_shutdown only shuts the server down", key="_do_shutdown|body", where=ds.loc(),
                  message=f"_do_shutdown does {body}")

    # ---------------------------------------------------------------- R3
    run.rule("R3", "Every call chain to a transport exchange starts in bring-up (TCPServer.run -> initialize_device, before "
             "serve_forever) or in _TCPServerRequestHandler.handle (the serving thread), or in the admin/CLI tools which are "
             "separate processes: in the manager's modules no other root (module-level code, callbacks, __del__, signal "
             "handlers, atexit) can reach one.")
    roots_ok = {"comm.server._TCPServerRequestHandler.handle", "comm.server.TCPServer.run", "mgr.runner.ManagerRunner.run"}
    callers = {}
    allf = list(P.all_functions) + list(A.module_level.values())
    for fn in allf:
        for call, cs_ in A.callees(fn, None):
            for c in cs_:
                if c.fn is not None:
                    callers.setdefault(c.fn.qualname, set()).add(fn.qualname)
    mgr_dev = [q for q in dev if q.split(".")[0] in MANAGER_PACKAGES]
    run.floor("R3", "device-touching functions in manager modules", len(mgr_dev), 20)
    bad_roots = set()
    for q in mgr_dev:
        seen = set()
        todo = [q]
        while todo:
            x = todo.pop()
            if x in seen:
                continue
            seen.add(x)
            cl = callers.get(x, set())
            if not cl and x not in roots_ok:
                top = x.split(".")[0]
                if top in MANAGER_PACKAGES and not x.endswith(".<module>"):
                    fn = P.functions.get(x)
                    # uncalled methods of the dongle/protocol API (used by admin tools) are not roots of the manager
                    if fn is not None and (fn.name.startswith("__") and fn.name not in ("__init__",)
                                           or x in ("comm.server._RequestHandler.handle",)):
                        bad_roots.add(x)
                elif x.endswith(".<module>") and top in MANAGER_PACKAGES and not top.startswith("manager_"):
                    bad_roots.add(x)
            todo.extend(cl)
    run.check("R3", not bad_roots, "no stray root reaches the device in the manager", key="device-roots", where="middleware/",
              message=f"device exchanges are reachable from {sorted(bad_roots)}")
    hdl = P.method(H, "handle")
    hc = [c for c in find_calls(A, hdl, "handle")]
    run.check("R3", len(hc) == 1 and norm(hc[0]) == "handler.handle(self.client_address[0], self.rfile, self.wfile)",
              "the request is handled synchronously on the serving thread with its own streams", key="_TCPServerRequestHandler.handle|call",
              where=hdl.loc(), message="_TCPServerRequestHandler.handle no longer calls handler.handle(client, self.rfile, self.wfile) inline")

    # ---------------------------------------------------------------- R4
    run.rule("R4", "The reply goes to the requester: _reply writes to its wfile parameter, which handle() passes from its own "
             "wfile parameter, bound to self.wfile of the StreamRequestHandler created for this request; _RequestHandler is "
             "instantiated per request and keeps only the protocol and the logger; no module- or class-level mutable holds a "
             "stream or a response; the request is read from the rfile of the same call.")
    RH = P.cls("comm.server._RequestHandler")
    rep = P.method(RH, "_reply")
    ws = [c for c in find_calls(A, rep, "write")]
    run.check("R4", len(ws) == 2 and all(norm(c.func.value) == rep.params[1] for c in ws), "_reply writes to its wfile argument",
              key="_reply|target", where=rep.loc(), message=f"_reply writes to {[norm(c.func.value) for c in ws]}")
    hh = P.method(RH, "handle")
    for c in find_calls(A, hh, "_reply"):
        run.check("R4", norm(c.args[0]) == hh.params[3], "handle replies on the wfile it was given", key="_RequestHandler.handle|reply-stream",
                  where=hh.loc(c), message=f"handle replies on `{norm(c.args[0])}`, not on the stream of this request")
    rl = [c for c in find_calls(A, hh, "readline")]
    run.check("R4", len(rl) == 1 and norm(rl[0].func.value) == hh.params[2], "request read from the rfile it was given",
              key="_RequestHandler.handle|request-stream", where=hh.loc(), message="the request is not read from this call's rfile")
    ini = P.method(RH, "__init__")
    fields = sorted(norm(n.targets[0]) for n in A.own_nodes(ini) if isinstance(n, ast.Assign))
    run.check("R4", fields == ["self.logger", "self.protocol"], "_RequestHandler keeps only protocol and logger", key="_RequestHandler|fields",
              where=ini.loc(), message=f"_RequestHandler stores {fields}: a stored stream/response could be shared between requests")
    allw = sorted({tgt.attr for attr, lst in A._field_writes.items() for (rhs, wfn, tgt) in lst if wfn.cls is RH})
    run.check("R4", allw == ["logger", "protocol"], "_RequestHandler has no other instance state", key="_RequestHandler|state",
              where=RH.module.relpath, message=f"_RequestHandler instance attributes written: {allw}")
    inst = [n for n in A.own_nodes(hdl) if isinstance(n, ast.Call) and norm(n.func) == "_RequestHandler"]
    run.check("R4", len(inst) == 1 and [norm(a) for a in inst[0].args] == ["self.server.protocol", "self.server.logger"],
              "a fresh _RequestHandler per request", key="_TCPServerRequestHandler.handle|instantiation", where=hdl.loc(),
              message="_RequestHandler is not instantiated afresh for every request")
    mod = RH.module
    cls_mut = []
    for ci in (RH, H, srv):
        for nm, e in ci.assigns.items():
            if isinstance(e, (ast.List, ast.Dict, ast.Set, ast.Call)):
                cls_mut.append(f"{ci.name}.{nm}")
    mod_mut = [k for k, e in mod.assigns.items() if isinstance(e, (ast.List, ast.Dict, ast.Set, ast.Call))]
    run.check("R4", not cls_mut and not mod_mut, "no module/class-level mutable state in comm.server", key="comm.server|shared-state",
              where=mod.relpath, message=f"shared mutable state in comm.server: class {cls_mut}, module {mod_mut}")
    glob = [n for n in ast.walk(mod.tree) if isinstance(n, (ast.Global, ast.Nonlocal))]
    run.check("R4", not glob, "no global statements in comm.server", key="comm.server|global", where=mod.relpath,
              message="comm.server uses global/nonlocal state")

    # the objects that live across requests (the protocol and the dongle) keep nothing of a request: outside their constructors they only write the
    # link / version bookkeeping attributes (closed world) - a reply or a device reading stored there could be served to another client's request
    LONG_LIVED = {comm_flag(run): "link-failure flag", "_dongle_app_version": "bring-up", "_dongle_ui_version": "bring-up", "dongle": "transport handle",
                  "last_comm_exception": "diagnostics"}
    seen_cls = set()
    n_w = 0
    serving = set()       # what runs after construction: bring-up and request handling
    for pc_ in protocol_classes(run):
        roots_ = [(pc_.lookup(nm_)[2], pc_) for nm_ in ("handle_request", "initialize_device") if pc_.lookup(nm_) is not None]
        serving |= {f.qualname for f, _ in A.reachable_functions(roots_)}
    for root in protocol_classes(run) + dongle_classes(run):
        for c_ in root.mro():
            if not hasattr(c_, "methods") or c_.qualname in seen_cls:
                continue
            seen_cls.add(c_.qualname)
            for mname, m in sorted(c_.methods.items()):
                if mname == "__init__" or m.qualname not in serving:
                    continue
                for n_ in A.own_nodes(m):
                    tg = []
                    if isinstance(n_, ast.Assign):
                        tg = n_.targets
                    elif isinstance(n_, (ast.AugAssign, ast.AnnAssign)):
                        tg = [n_.target]
                    for t in tg:
                        for x in (t.elts if isinstance(t, (ast.Tuple, ast.List)) else [t]):
                            base = x
                            while isinstance(base, ast.Subscript):
                                base = base.value
                            if isinstance(base, ast.Attribute) and isinstance(base.value, ast.Name) and base.value.id == "self":
                                n_w += 1
                                run.check("R4", base.attr in LONG_LIVED, f"{m.qualname}: self.{base.attr} is link / version bookkeeping",
                                          key=f"{c_.name}|cross-request-state|{base.attr}", where=m.loc(n_),
                                          message=f"{m.qualname} stores `{norm(n_)[:70]}` on an object that outlives the request: what one request leaves in "
                                                  f"self.{base.attr} can be served to, or alter the handling of, another client's request")
    run.floor("R4", "attribute writes of the long-lived protocol / dongle objects checked", n_w, 4)
    # nor is anything memoised on the way of a request
    memo = []
    for fn_, sc_ in manager_reachable(run):
        node = fn_.node
        for d in getattr(node, "decorator_list", []):
            dn = norm(d.func) if isinstance(d, ast.Call) else norm(d)
            if dn.split(".")[-1] in ("lru_cache", "cache", "cached_property", "memoize", "memoized"):
                memo.append((fn_, dn))
    for mod_ in {f.module for f, _ in manager_reachable(run)}:
        for st_ in mod_.tree.body:
            if isinstance(st_, ast.Assign) and isinstance(st_.value, ast.Call) and norm(st_.value.func).split(".")[-1] in ("lru_cache", "cache"):
                memo.append((None, norm(st_)[:60]))
    run.check("R4", not memo, "no memoised function on the request path", key="manager|memoised-functions", where="middleware/comm/server.py",
              message=f"memoised functions in the manager: {[(f.qualname if f else '<module>', d) for f, d in memo][:3]}: a cached object (e.g. a parsed request that "
                      "the protocol layer modifies in place) is shared between the requests of different clients")

    # ---------------------------------------------------------------- R5
    run.rule("R5", "Every answer read belongs to the exchange just sent: an exchange that ends without its answer must be treated as a link failure "
             "(connection closed and re-opened before the next APDU) unless the transport itself discards the late answer. Only ledgerblue's own "
             "time-out signal (CommException, sw 0x6F00, message 'Timeout', raised by the HID transport, which drops the pending report) is "
             "answered without a reconnection: is_timeout() accepts exactly that signal (table shared with C11 under the prefix T.), and the "
             "stream (TCP) transport is used without a socket time-out.")
    from . import c11
    run.rid_prefix = "T."
    try:
        c11.transport_predicates(run, "R4")
    finally:
        run.rid_prefix = ""
    TCPD = P.cls("ledger.hsm2dongle_tcp.HSM2DongleTCP")
    st_calls = []
    for f_ in P.all_functions:
        if f_.module.name.split(".")[0] in ("ledger", "sgx", "comm", "mgr"):
            for n_ in A.own_nodes(f_):
                if isinstance(n_, ast.Call) and isinstance(n_.func, ast.Attribute) and n_.func.attr in ("settimeout", "setdefaulttimeout"):
                    st_calls.append((f_, n_))
    run.check("R5", not st_calls, "no socket time-out is configured on the stream transport", key="tcp-dongle|settimeout", where=TCPD.module.relpath,
              message="a socket time-out is configured (" + "; ".join(f"{f_.qualname}: {norm(n_)[:50]}" for f_, n_ in st_calls) + "): an exchange can then end "
                      "without its answer while the connection stays open, and the late answer is read by the next exchange (a later client receives the "
                      "reply computed for an earlier request)")
