"""C06 - a Ledger (version 1) attestation is accepted only if every link up to
the root key verifies."""
import ast
import re
from sa.model import AnalysisError, Unknown, norm, unwrap
from sa.query import Facts, call_name, find_calls, try_fold, calls_in, defs_of
from sa.prov import Prov
from .common import doc

TECHNIQUE = ("dominator and reaching-definition rules on the chain walk, provenance expansion of the "
             "verification expression against the specified construction, purity (no state carried "
             "between calls/targets) by field-write census, table agreement of the extractors with "
             "docs/attestation.md")
EXPLANATION = (
    "Static analysis of /repo's current source (nothing executed). Decides that the code asks the "
    "right questions in the right order: validate_and_get_values climbs signed_by until the root "
    "element with no other way out of the climb, validates from the root of trust downwards, "
    "stores (True, value, tweak) of the leaf only under a successful is_valid of every element with "
    "the certifier being exactly the previously validated element (the given root for the first), "
    "names the first failing element and stops; neither it nor is_valid reads or writes state "
    "that survives the call; is_valid returns False or exactly ecdsa_verify(message, "
    "deserialize(signature)) under the certifier's key, HMAC-SHA256-tweaked iff the element "
    "declares a tweak; extractors equal the documented `extract`. Does not decide the correctness "
    "of secp256k1 nor the 'genuine chain is accepted' direction."
)


def _loops(fn):
    return [n for n in ast.walk(fn.node) if isinstance(n, ast.While)]


def run(run):
    P, A = run.P, run.A
    F = Facts(A)
    PV = Prov(A)
    C = P.cls("admin.certificate_v1.HSMCertificate")
    E = P.cls("admin.certificate_v1.HSMCertificateElement")
    chain_walk(run, F, PV, C)
    element_check(run, F, PV, E)
    values(run, F, PV, C, E)


def chain_walk(run, F, PV, C):
    P, A = run.P, run.A
    run.rule("R1", "HSMCertificate.validate_and_get_values (shared by v2): (a) the climb from a target "
             "follows signed_by and its only exit is `current.signed_by == ROOT_ELEMENT`; (b) inside the "
             "validation loop the (True, ...) store and the advance to the next element are dominated by "
             "a successful current.is_valid(current_certifier); (c) current_certifier is defined only as "
             "the root_of_trust parameter and as the element just validated; (d) the failure store names "
             "current.name and is followed by break; (e) per-target state is re-initialised inside the "
             "target loop and the method reads/writes no other instance state.")
    fn = P.method(C, "validate_and_get_values")
    g = A.cfg(fn, C)
    root_param = fn.params[1]
    loops = _loops(fn)
    run.floor("R1", "while loops in validate_and_get_values", len(loops), 2)
    tl = [n for n in ast.walk(fn.node) if isinstance(n, ast.For)]
    run.require(len(tl) == 1 and norm(tl[0].iter) == "self._targets", "the target loop vanished")
    tloop = tl[0]
    climb, valid = loops[0], loops[1]
    # (a) climb loop
    brk = [n for n in ast.walk(climb) if isinstance(n, ast.Break)]
    climb_exits = []
    for b in brk:
        for bn in g.nodes_of_stmt(b) if hasattr(g, "nodes_of_stmt") else []:
            climb_exits.append(bn)
    # exits of the loop = nodes inside the loop with a successor outside; compute via node sets
    inside = set()
    for st in ast.walk(climb):
        for cn in g.nodes_of(st):
            inside.add(cn)
    for n in g.nodes:
        if n.kind in ("T", "F") and n.cond in inside:
            inside.add(n)
        if n.kind == "stmt" and isinstance(n.ast, ast.Break) and any(n.ast is b for b in brk):
            inside.add(n)
    root_T = [n for n in g.nodes if n.kind == "T" and isinstance(n.ast, ast.Compare) and n.cond in inside
              and norm(n.ast) == "current.signed_by == self.ROOT_ELEMENT"]
    run.check("R1", len(root_T) == 1, "climb tests `current.signed_by == self.ROOT_ELEMENT`",
              key="validate_and_get_values|climb|root-test", where=fn.loc(climb),
              message="the climb loop no longer stops on `current.signed_by == self.ROOT_ELEMENT`")
    after = [n for n in g.nodes if n.kind == "join" and n.ast is climb and n.note == "while-after"]
    run.require(len(after) == 1, "climb loop structure not understood")
    if root_T:
        # every way from the loop head to the code after the loop passes the root test's true edge
        head = [n for n in g.nodes if n.kind == "join" and n.ast is climb and n.note == "while-head"][0]
        p = g.witness_path(head, after[0], avoid={root_T[0]},
                           edge_ok=lambda a, b: not g.is_exc_edge(a, b))
        run.check("R1", p is None, "the only exit of the climb is reaching the root element",
                  key="validate_and_get_values|climb|other-exit", where=fn.loc(climb),
                  message="the climb from a target towards the root can stop before the element signed by "
                          "the root is reached: validation would then start below the root of trust",
                  witness=g.describe_path(p) if p else None)
    steps = [n for n in ast.walk(climb) if isinstance(n, ast.Assign) and norm(n.targets[0]) == "current"]
    run.check("R1", len(steps) == 1 and norm(steps[0].value) == "self._elements[current.signed_by]",
              "climb step is current = self._elements[current.signed_by]",
              key="validate_and_get_values|climb|step", where=fn.loc(climb),
              message="the climb no longer moves to `self._elements[current.signed_by]`")
    apps = [n for n in ast.walk(climb) if isinstance(n, ast.Call) and call_name(n) == "append"]
    run.check("R1", len(apps) == 1 and norm(apps[0]) == "chain.append(current)",
              "every element below the root is pushed on the chain",
              key="validate_and_get_values|climb|push", where=fn.loc(climb),
              message="the climb does not push every visited element on the chain (`chain.append(current)`)")
    for a in apps:
        for an in g.nodes_of(a):
            for s in steps:
                run.check("R1", all(g.dominates(an, sn) for sn in g.nodes_of(s)),
                          "push dominates the step", key="validate_and_get_values|climb|push-before-step",
                          where=fn.loc(a), message="an element can be skipped: the climb step is not dominated by the push")
    # (b) validation loop
    iv = [c for c in find_calls(A, fn, "is_valid")]
    run.check("R1", len(iv) == 1 and norm(iv[0]) == "current.is_valid(current_certifier)",
              "one verification site: current.is_valid(current_certifier)",
              key="validate_and_get_values|is_valid-site", where=fn.loc(),
              message=f"verification sites: {[norm(c) for c in iv]}; expected exactly "
                      "`current.is_valid(current_certifier)`")
    stores = [n for n in ast.walk(fn.node) if isinstance(n, ast.Assign) and norm(n.targets[0]) == "result[target]"]
    true_st = [s for s in stores if isinstance(s.value, ast.Tuple) and isinstance(s.value.elts[0], ast.Constant)
               and s.value.elts[0].value is True]
    false_st = [s for s in stores if isinstance(s.value, ast.Tuple) and isinstance(s.value.elts[0], ast.Constant)
                and s.value.elts[0].value is False]
    run.check("R1", len(true_st) == 1 and len(false_st) == 1 and len(stores) == 2,
              "one valid store and one invalid store", key="validate_and_get_values|stores", where=fn.loc(),
              message=f"result stores: {[norm(s)[:50] for s in stores]}")
    adv = [n for n in ast.walk(valid) if isinstance(n, ast.Assign)
           and norm(n.targets[0]) in ("current_certifier", "current")]
    for s in true_st + adv:
        for sn in g.nodes_of(s):
            ok = any(f.kind == "call" and f.pol and norm(f.expr) == "current.is_valid(current_certifier)"
                     for f in F.local(fn, C, sn))
            run.check("R1", ok, f"`{norm(s)[:40]}` only after a successful is_valid",
                      key=f"validate_and_get_values|{norm(s.targets[0])}|after-valid", where=fn.loc(s),
                      message=f"`{norm(s)[:60]}` is reachable without the current element having verified")
    for s in true_st:
        for sn in g.nodes_of(s):
            ok = any(f.kind == "cmp" and f.op == "==" and norm(f.left) == "len(chain)" and norm(f.right) == "0"
                     for f in F.local(fn, C, sn))
            run.check("R1", ok, "valid verdict only when the chain is exhausted (leaf reached)",
                      key="validate_and_get_values|valid-store|leaf", where=fn.loc(s),
                      message="a target can be reported valid before its own element was verified "
                              "(chain not exhausted)")
    # (c) certifier definitions
    cdefs = defs_of(A, fn, "current_certifier")
    vals = sorted(norm(d.value) for d in cdefs)
    run.check("R1", vals == sorted([root_param, "current"]),
              "current_certifier defined only as root_of_trust and as the validated element",
              key="validate_and_get_values|current_certifier|definitions", where=fn.loc(),
              message=f"current_certifier is defined as {vals}; it must be the root-of-trust parameter first and "
                      "then the element just validated")
    for d in cdefs:
        if norm(d.value) == root_param:
            inside_t = any(d is x for x in ast.walk(tloop))
            in_loop = any(d is x for x in ast.walk(valid))
            run.check("R1", inside_t and not in_loop, "root of trust assigned per target, before the validation loop",
                      key="validate_and_get_values|current_certifier|root-init", where=fn.loc(d),
                      message="current_certifier is not (re)initialised to the root of trust for every target")
        if norm(d.value) == "current":
            # followed by current = chain.pop()
            pops = [n for n in ast.walk(valid) if isinstance(n, ast.Assign) and norm(n.targets[0]) == "current"]
            run.check("R1", len(pops) == 1 and norm(pops[0].value) == "chain.pop()" and pops[0].lineno > d.lineno,
                      "next element is chain.pop() after the certifier moved down",
                      key="validate_and_get_values|advance|pop", where=fn.loc(d),
                      message="the walk down does not take the next element with chain.pop() after updating the certifier")
    # (d) failure store
    for s in false_st:
        ok = len(s.value.elts) == 2 and norm(s.value.elts[1]) == "current.name"
        blk = _block_of(fn.node, s)
        nxt = blk[blk.index(s) + 1] if blk and blk.index(s) + 1 < len(blk) else None
        run.check("R1", ok and isinstance(nxt, ast.Break), "failure names current.name and stops",
                  key="validate_and_get_values|invalid-store", where=fn.loc(s),
                  message="the failing verdict does not name the element that failed (current.name) or the "
                          "walk continues after a failure")
        for sn in g.nodes_of(s):
            ok2 = any(f.kind == "call" and not f.pol and norm(f.expr) == "current.is_valid(current_certifier)"
                      for f in F.local(fn, C, sn))
            run.check("R1", ok2, "failure store only when is_valid failed",
                      key="validate_and_get_values|invalid-store|guard", where=fn.loc(s),
                      message="the failing verdict is stored on a path where verification did not fail")
    # (e) state
    inits = {"chain": "[]", "current": "self._elements[target]"}
    for nm, want in inits.items():
        ds = [d for d in defs_of(A, fn, nm) if norm(d.value) == want]
        ok = len(ds) == 1 and any(ds[0] is x for x in ast.walk(tloop)) and not any(ds[0] is x for l in loops for x in ast.walk(l))
        run.check("R1", ok, f"`{nm} = {want}` inside the target loop",
                  key=f"validate_and_get_values|init|{nm}", where=fn.loc(),
                  message=f"`{nm}` is not re-initialised to `{want}` for every target")
    _purity(run, fn, {"_targets", "_elements", "ROOT_ELEMENT"}, "validate_and_get_values")
    rdefs = defs_of(A, fn, "result")
    run.check("R1", len(rdefs) == 1 and norm(rdefs[0].value) == "{}" and not any(rdefs[0] is x for x in ast.walk(tloop)),
              "result starts empty for each call", key="validate_and_get_values|result-init", where=fn.loc(),
              message="`result` is not a fresh dict per call")
    uses = [n for n in ast.walk(fn.node) if isinstance(n, ast.Name) and n.id == "result" and isinstance(n.ctx, ast.Load)]
    reads = [u for u in uses if not _is_store_target(fn.node, u) and not _is_returned(fn.node, u)]
    run.check("R1", not reads, "verdicts of other targets are never read back",
              key="validate_and_get_values|result-read", where=fn.loc(),
              message="validate_and_get_values reads `result` while computing a verdict: one target's validity "
                      "can depend on another's")


def _is_store_target(root, name_node):
    for n in ast.walk(root):
        if isinstance(n, ast.Assign):
            for t in n.targets:
                if isinstance(t, ast.Subscript) and t.value is name_node:
                    return True
    return False


def _is_returned(root, name_node):
    for n in ast.walk(root):
        if isinstance(n, ast.Return) and n.value is name_node:
            return True
    return False


def _block_of(root, stmt):
    for n in ast.walk(root):
        for field in ("body", "orelse", "finalbody"):
            blk = getattr(n, field, None)
            if isinstance(blk, list) and stmt in blk:
                return blk
    return None


def _purity(run, fn, allowed_reads, label, rule="R1"):
    """No instance attribute is written; only the allowed ones are read."""
    writes = []
    reads = set()
    for n in ast.walk(fn.node):
        if isinstance(n, ast.Attribute) and isinstance(n.value, ast.Name) and n.value.id in ("self", "cls"):
            if isinstance(n.ctx, ast.Store):
                writes.append(n)
            else:
                r_ = fn.cls.lookup(n.attr) if fn.cls is not None else None
                if r_ is not None and r_[1] == "method" and not r_[2].is_property:
                    continue
                reads.add(n.attr)
        if isinstance(n, ast.Call) and isinstance(n.func, ast.Name) and n.func.id in ("setattr", "getattr"):
            writes.append(n)
    run.check(rule, not writes, f"{label} writes no instance state",
              key=f"{fn.qualname}|writes-state:{sorted(set(norm(w)[:30] for w in writes))}", where=fn.loc(),
              message=f"{fn.qualname} writes instance state ({', '.join(sorted(set(norm(w)[:40] for w in writes)))}): "
                      "a verdict could be carried over from an earlier call / another certifier")
    extra = reads - allowed_reads
    return extra


def element_check(run, F, PV, E):
    P, A = run.P, run.A
    run.rule("R2", "HSMCertificateElement.is_valid: every return is the constant False or exactly "
             "K.ecdsa_verify(hexdecode(self.message), K.ecdsa_deserialize(hexdecode(self.signature))) with "
             "K = certifier.get_pubkey() when no tweak is declared and K = certifier.get_pubkey().tweak_add("
             "HMAC-SHA256(key=hexdecode(self.tweak), msg=uncompressed certifier key)) otherwise; the tweaked "
             "form is used iff self.tweak is not None; any exception yields False; no state is read or written "
             "besides the element's own message/signature/tweak.")
    top = P.method(E, "is_valid")
    # the function that actually performs the verification (is_valid itself, or a helper
    # it delegates to with the certifier passed through)
    fn = top
    holders = [m for m in E.methods.values()
               if any(isinstance(n, ast.Call) and call_name(n) == "ecdsa_verify" for n in A.own_nodes(m))]
    run.require(len(holders) == 1, f"expected one method of HSMCertificateElement calling ecdsa_verify, found {len(holders)}")
    if holders[0] is not top:
        fn = holders[0]
        for r in [n for n in A.own_nodes(top) if isinstance(n, ast.Return)]:
            v = r.value
            okd = (isinstance(v, ast.Constant) and v.value is False) or \
                (isinstance(v, ast.Call) and isinstance(v.func, ast.Attribute) and norm(v.func.value) == "self"
                 and v.func.attr == fn.name and [norm(a) for a in v.args] == [top.params[1]] and not v.keywords)
            run.check("R2", okd, "is_valid returns False or the verification helper's result for this certifier",
                      key=f"HSMCertificateElement.is_valid|return {norm(v)[:40]}|not-this-call's-verdict",
                      where=top.loc(r),
                      message=f"is_valid returns `{norm(v)[:60]}`, which is not the result of verifying against "
                              "the certifier given in this call (stale or stored verdict)")
        extra0 = _purity(run, top, {"message", "signature", "tweak"}, "is_valid", "R2")
        run.check("R2", not extra0, "is_valid reads only message/signature/tweak",
                  key=f"HSMCertificateElement.is_valid|reads:{sorted(extra0)}", where=top.loc(),
                  message=f"is_valid reads other instance state: {sorted(extra0)}")
    g = A.cfg(fn, E)
    cert = fn.params[1]
    plain = f"{cert}.get_pubkey()"
    tweak = f"hmac.new(bytes.fromhex(self.tweak), {plain}.serialize(compressed=False), hashlib.sha256).digest()"
    tw_key = f"{plain}.tweak_add({tweak})"

    def want(k):
        return _strip(f"{k}.ecdsa_verify(bytes.fromhex(self.message), {k}.ecdsa_deserialize(bytes.fromhex(self.signature)))")
    rets = [n for n in A.own_nodes(fn) if isinstance(n, ast.Return)]
    run.floor("R2", "returns in the verification function", len(rets), 1)
    got = set()
    for r in rets:
        if isinstance(r.value, ast.Constant) and r.value.value is False:
            run.ok("R2", "return False", fn.loc(r))
            continue
        for rn in g.nodes_of(r):
            for v in PV.expand_consistent(fn, E, r.value, rn):
                got.add(_strip(v))
    exp = {want(plain), want(tw_key)}
    run.check("R2", got == exp, "non-False returns are the specified verification expression (plain / tweaked)",
              key="HSMCertificateElement.is_valid|verification-expression", where=fn.loc(),
              message="is_valid's verdict is not the specified construction. Unexpected: "
                      f"{sorted(got - exp)[:2]}; missing: {sorted(exp - got)[:2]}")
    # tweak iff declared
    tws = [n for n in A.own_nodes(fn) if isinstance(n, ast.Call) and call_name(n) == "tweak_add"]
    run.check("R2", len(tws) == 1, "one tweak_add site", key="HSMCertificateElement.is_valid|tweak-sites",
              where=fn.loc(), message=f"{len(tws)} tweak_add sites in is_valid")
    for t in tws:
        for tn in g.nodes_of(t):
            ok = any(f.kind == "cmp" and f.op == "is not" and norm(f.left) == "self.tweak" and norm(f.right) == "None"
                     for f in F.local(fn, E, tn))
            run.check("R2", ok, "tweak applied only when declared", key="HSMCertificateElement.is_valid|tweak-guard",
                      where=fn.loc(t), message="the certifier key is tweaked although the element declares no tweak")
    # the plain variant must only be reachable when tweak is None: the verify return after the if
    conds = [n for n in g.nodes if n.kind == "cond" and norm(n.ast) == "self.tweak is not None"]
    run.check("R2", len(conds) == 1, "tweak presence test", key="HSMCertificateElement.is_valid|tweak-test",
              where=fn.loc(), message="is_valid no longer tests `self.tweak is not None`")
    if conds and tws:
        tnode = [n for n in g.nodes if n.kind == "T" and n.cond is conds[0]][0]
        twn = [x for t in tws for x in g.nodes_of(t)]
        verify = [x for r in rets if not isinstance(r.value, ast.Constant) for x in g.nodes_of(r)]
        for v in verify:
            p = g.witness_path(tnode, v, avoid=set(twn), edge_ok=lambda a, b: not g.is_exc_edge(a, b))
            run.check("R2", p is None, "a declared tweak is always applied before verifying",
                      key="HSMCertificateElement.is_valid|tweak-skipped", where=fn.loc(),
                      message="with a declared tweak, verification can proceed under the untweaked key")
    # exceptions -> False
    trys = [n for n in A.own_nodes(fn) if isinstance(n, ast.Try)]
    okh = len(trys) == 1 and len([s_ for s_ in fn.node.body if not isinstance(s_, ast.Expr)]) == 1 and any(
        (h.type is None or norm(h.type) in ("Exception", "BaseException")) and len(h.body) == 1
        and isinstance(h.body[0], ast.Return) and isinstance(h.body[0].value, ast.Constant)
        and h.body[0].value.value is False for h in trys[0].handlers)
    run.check("R2", okh, "whole body guarded; exceptions give False", key="HSMCertificateElement.is_valid|handler",
              where=fn.loc(), message="is_valid is not entirely inside `try: ... except Exception: return False`")
    extra = _purity(run, fn, {"message", "signature", "tweak"}, "is_valid", "R2")
    run.check("R2", not extra, "is_valid reads only message/signature/tweak",
              key=f"HSMCertificateElement.is_valid|reads:{sorted(extra)}", where=fn.loc(),
              message=f"is_valid reads other instance state: {sorted(extra)}")
    # properties return the stored fields
    for prop, fld in (("message", "_message"), ("signature", "_signature"), ("tweak", "_tweak"),
                      ("name", "_name"), ("signed_by", "_signed_by")):
        pf = P.method(E, prop)
        rr = [n for n in A.own_nodes(pf) if isinstance(n, ast.Return)]
        run.check("R2", len(rr) == 1 and norm(rr[0].value) == f"self.{fld}", f"property {prop} returns self.{fld}",
                  key=f"HSMCertificateElement.{prop}|getter", where=pf.loc(),
                  message=f"property {prop} does not return the parsed field self.{fld}")
        ws = [(rhs, wfn) for (rhs, wfn, tgt) in A._field_writes.get(fld, []) if wfn.cls is E]
        run.check("R2", all(w.name == "__init__" for r_, w in ws) and ws, f"{fld} written only by the constructor",
                  key=f"HSMCertificateElement.{fld}|writers", where=E.module.relpath,
                  message=f"self.{fld} is written outside __init__")


def _strip(s):
    """Remove redundant parentheses / whitespace for comparison."""
    try:
        return ast.unparse(ast.parse(s, mode="eval").body)
    except SyntaxError:
        return re.sub(r"\s+", "", s)


def values(run, F, PV, C, E):
    P, A = run.P, run.A
    run.rule("R3", "A valid result is (True, current.get_value(), current.get_tweak()) of the leaf; "
             "get_value = EXTRACTORS[name](hexdecode(message)).hex(); EXTRACTORS and VALID_NAMES equal the "
             "`extract` definition and the name list of docs/attestation.md; get_pubkey parses get_value(); "
             "a certificate's element map is keyed by element name.")
    fn = P.method(C, "validate_and_get_values")
    stores = [n for n in ast.walk(fn.node) if isinstance(n, ast.Assign) and norm(n.targets[0]) == "result[target]"
              and isinstance(n.value, ast.Tuple) and isinstance(n.value.elts[0], ast.Constant) and n.value.elts[0].value is True]
    for s in stores:
        run.check("R3", [norm(e) for e in s.value.elts[1:]] == ["current.get_value()", "current.get_tweak()"],
                  "valid verdict carries the leaf's value and tweak", key="validate_and_get_values|valid-store|value",
                  where=fn.loc(s), message=f"valid verdict is `{norm(s.value)}`")
    gv = P.method(E, "get_value")
    rr = [n for n in A.own_nodes(gv) if isinstance(n, ast.Return)]
    run.check("R3", len(rr) == 1 and norm(rr[0].value) == "self.EXTRACTORS[self.name](bytes.fromhex(self.message)).hex()",
              "get_value extracts from the signed message", key="HSMCertificateElement.get_value|expr", where=gv.loc(),
              message="get_value is not EXTRACTORS[name](hexdecode(message)).hex()")
    gp = P.method(E, "get_pubkey")
    rr = [n for n in A.own_nodes(gp) if isinstance(n, ast.Return)]
    run.check("R3", len(rr) == 1 and norm(rr[0].value) == "ec.PublicKey(bytes.fromhex(self.get_value()), raw=True)",
              "get_pubkey parses the extracted value", key="HSMCertificateElement.get_pubkey|expr", where=gp.loc(),
              message="get_pubkey does not build the key from get_value()")
    gt = P.method(E, "get_tweak")
    rr = [n for n in A.own_nodes(gt) if isinstance(n, ast.Return)]
    run.check("R3", len(rr) == 1 and norm(rr[0].value) == "self.tweak", "get_tweak returns the tweak",
              key="HSMCertificateElement.get_tweak|expr", where=gt.loc(), message="get_tweak changed")
    # extractors vs docs
    d = doc(run, "attestation.md")
    m = re.search(r"def extract\(element\):(.*?)```", d.text, re.S)
    run.require(m is not None, "docs/attestation.md: `extract` definition not found")
    spec = {}
    for names, expr in re.findall(r"if (element\.name == \"\w+\"(?: or element\.name == \"\w+\")*):\s*\n\s*return (\S+)", m.group(1)):
        for nm in re.findall(r'"(\w+)"', names):
            spec[nm] = expr.replace("message", "b")
    run.require(len(spec) >= 4, f"docs/attestation.md: extract cases not understood ({spec})")
    ex = E.assigns.get("EXTRACTORS")
    run.require(isinstance(ex, ast.Dict), "EXTRACTORS is no longer a dict literal")
    got = {}
    for k, v in zip(ex.keys, ex.values):
        if isinstance(k, ast.Constant) and isinstance(v, ast.Lambda) and len(v.args.args) == 1:
            a = v.args.args[0].arg
            body = norm(v.body)
            body = re.sub(rf"\b{a}\b", "b", body)
            if body == "b[:]":
                body = "b"
            got[k.value] = body
    for nm in sorted(set(spec) | set(got)):
        run.check("R3", spec.get(nm) == got.get(nm), f"extractor `{nm}` == documented `{spec.get(nm)}`",
                  key=f"EXTRACTORS|{nm}", where=E.module.relpath,
                  message=f"extractor for `{nm}` is `{got.get(nm)}`; docs/attestation.md defines `{spec.get(nm)}`")
    vn = P.class_const(E, "VALID_NAMES")
    run.check("R3", sorted(vn) == sorted(spec), "VALID_NAMES == documented element names",
              key="VALID_NAMES|set", where=E.module.relpath,
              message=f"VALID_NAMES is {vn}, documentation allows {sorted(spec)}")
    re_ = P.class_const(C, "ROOT_ELEMENT")
    run.check("R3", re_ == "root", "ROOT_ELEMENT == 'root'", key="HSMCertificate.ROOT_ELEMENT|value",
              where=C.module.relpath, message=f"ROOT_ELEMENT is {re_!r}, documented value is 'root'")
    # element map keyed by name
    for mname, want in (("add_element", "self._elements[element.name]"),):
        m_ = P.method(C, mname)
        st = [n for n in A.own_nodes(m_) if isinstance(n, ast.Assign) and norm(n.targets[0]).startswith("self._elements[")]
        run.check("R3", len(st) == 1 and norm(st[0].targets[0]) == want and norm(st[0].value) == "element",
                  f"{mname} stores the element under its own name", key=f"HSMCertificate.{mname}|store",
                  where=m_.loc(), message=f"{mname} does not store the element under element.name")
