"""C06 - a Ledger (version 1) attestation is accepted only if every link up to
the root key verifies."""
import ast
import re
from sa.model import AnalysisError, Unknown, norm, unwrap
from sa.query import Facts, call_name, find_calls, try_fold, calls_in, defs_of
from sa.prov import Prov
from sa.decide import Walker, completions, cmp_parts, values_at, return_values
from .common import doc

TECHNIQUE = ("decision tables of the climb and validation loops of the chain walk and of is_valid (predicate-abstraction walk, shape-independent), provenance expansion of the "
             "verification expression against the specified construction, purity (no state carried "
             "between calls/targets) by field-write census, table agreement of the extractors with "
             "docs/attestation.md")
EXPLANATION = (
    "Static analysis of /repo's current source (nothing executed). Decides that the code asks the "
    "right questions in the right order: validate_and_get_values climbs signed_by until the root "
    "element with no other way out of the climb, validates from the root of trust downwards, "
    "stores (True, value, tweak) of the leaf only under a successful is_valid of every element with "
    "the certifier being exactly the previously validated element (the given root for the first), "
    "names the first failing element and stops; neither it nor is_valid reads or writes state "
    "that survives the call; is_valid returns False or exactly ecdsa_verify(message, "
    "deserialize(signature)) under the certifier's key, HMAC-SHA256-tweaked iff the element "
    "declares a tweak; extractors equal the documented `extract`. Does not decide the correctness "
    "of secp256k1 nor the 'genuine chain is accepted' direction."
)


def _loops(fn):
    return [n for n in ast.walk(fn.node) if isinstance(n, ast.While)]


def run(run):
    P, A = run.P, run.A
    F = Facts(A)
    PV = Prov(A)
    C = P.cls("admin.certificate_v1.HSMCertificate")
    E = P.cls("admin.certificate_v1.HSMCertificateElement")
    chain_walk(run, F, PV, C)
    element_check(run, F, PV, E)
    declared_tweak(run, E)
    values(run, F, PV, C, E)


def declared_tweak(run, E, rid="R2"):
    """An element `declares a tweak` exactly when its map has one: the constructor's handling of the optional field as a table."""
    P, A = run.P, run.A
    from sa.decide import subst
    ini = P.method(E, "__init__")
    g = A.cfg(ini, E)
    mp = ini.params[1]
    st = {"W": None}

    def res(e):
        b = st["W"]._bind or {}
        for _ in range(6):
            nm_ = {x.id for x in ast.walk(e) if isinstance(x, ast.Name)}
            hit = {k: v for k, v in b.items() if k in nm_}
            if not hit:
                break
            e = subst(e, hit)
        return e

    def atom(e):
        cp = cmp_parts(e)
        if cp is not None:
            l, op, r = cp
            if op in ("in", "not in") and isinstance(l, ast.Constant) and l.value == "tweak" and norm(r) == mp:
                return ("HAS", op == "in")
            x = res(l)
            if isinstance(x, ast.Call) and call_name(x) == "get" and norm(x.func.value) == mp and x.args and isinstance(x.args[0], ast.Constant) and x.args[0].value == "tweak" \
                    and isinstance(r, ast.Constant) and r.value is None and op in ("is", "is not", "==", "!="):
                return ("HAS", op in ("is not", "!="))
        x = res(e)
        if isinstance(x, ast.Call) and call_name(x) == "is_nonempty_hex_string" and len(x.args) == 1 and _strip(norm(x.args[0])) in (f"{mp}['tweak']", f"{mp}.get('tweak')"):
            return ("HEX", True)
        return None
    W = Walker(A, ini, E, atom, max_leaves=512, max_steps=40000)
    st["W"] = W
    n = 0
    for lf in W.walk(g.entry):
        keys = [k for k in lf.pc if k in ("HAS", "HEX")]
        if not keys:
            continue
        n += 1
        where = ini.loc(lf.node.ast) if lf.node.ast is not None else ini.loc()
        has, hx = lf.pc.get("HAS"), lf.pc.get("HEX")
        last = [k for k in lf.pc][-1]
        if lf.kind == "raise":
            if last in ("HAS", "HEX"):
                run.check(rid, has is True and hx is False, "an element is refused for its tweak only when it has one that is not hex", key=f"HSMCertificateElement.__init__|tweak|refusal|{has}|{hx}",
                          where=where, message=f"HSMCertificateElement.__init__ raises on its tweak test under [tweak present: {has}, hex: {hx}]; expected only for a present tweak that is "
                          "not a non-empty hex string")
            continue
        tw = [_strip(norm(lf.deep(st_.value))) for k_, st_, v_ in lf.effects if k_ == "assign" and any(norm(t_) == "self._tweak" for t_ in st_.targets)]
        want = [f"{mp}['tweak']", f"{mp}.get('tweak')"] if has else ["None"]
        run.check(rid, bool(tw) and tw[-1] in want and (not has or hx is True), f"[tweak {'present' if has else 'absent'}] the element keeps {'that tweak' if has else 'no tweak'}",
                  key=f"HSMCertificateElement.__init__|tweak|stored|{has}", where=where,
                  message=f"HSMCertificateElement.__init__ completes with [tweak present: {has}, hex: {hx}] storing _tweak = {tw[-1:] or 'nothing'}; expected {want[0]}"
                          + (" after checking it is hex" if has else "") + ": an element that declares a tweak must be verified under the tweaked key, and one that does not under the plain key")
    run.floor(rid, "paths of HSMCertificateElement.__init__ deciding on the tweak", n, 3)


def _while_nodes(g, loop):
    head = [n for n in g.nodes if n.kind == "join" and n.ast is loop and n.note == "while-head"]
    after = [n for n in g.nodes if n.kind == "join" and n.ast is loop and n.note == "while-after"]
    return (head[0], after[0]) if len(head) == 1 and len(after) == 1 else (None, None)


def chain_walk(run, F, PV, C):
    """R1, decided on the decision tables of the two loops' iterations (any surface shape of `while`)."""
    P, A = run.P, run.A
    run.rule("R1", "HSMCertificate.validate_and_get_values (shared by v2), decided on decision tables so that the loops' surface "
             "shape does not matter. Per target: before the climb chain = [] and cur = self._elements[target]. Climb iteration, "
             "with ROOT = (cur.signed_by == self.ROOT_ELEMENT): ROOT -> leave the loop with nothing changed; not ROOT -> "
             "chain.append(cur) then cur = self._elements[cur.signed_by], next iteration. Between the loops cert = the "
             "root_of_trust parameter and cur / chain are untouched. Validation iteration, with V = cur.is_valid(cert), E = chain "
             "is empty: not V -> result[target] = (False, cur.name) and leave; V and E -> result[target] = (True, "
             "cur.get_value(), cur.get_tweak()) and leave; V and not E -> cert = cur, cur = chain.pop(), next iteration. Nothing "
             "is stored in result afterwards; result is a fresh dict whose entries are never read back; no other instance state "
             "is read or written.")
    fn = P.method(C, "validate_and_get_values")
    g = A.cfg(fn, C)
    root_param = fn.params[1]
    tl = [n for n in A.own_nodes(fn) if isinstance(n, ast.For) and any(isinstance(x, ast.Call) and call_name(x) == "is_valid" for x in ast.walk(n))
          and not any(isinstance(p_, ast.For) and p_ is not n and any(n is y for y in ast.walk(p_)) for p_ in A.own_nodes(fn))]
    run.require(len(tl) == 1 and isinstance(tl[0].target, ast.Name), "validate_and_get_values: the per-target loop vanished (idiom not understood)")
    tloop = tl[0]
    run.check("R1", norm(tloop.iter) == "self._targets", "verdicts are computed for the certificate's targets", key="validate_and_get_values|targets-source", where=fn.loc(tloop),
              message=f"validate_and_get_values iterates `{norm(tloop.iter)}` instead of self._targets: the set of verdicts is no longer the certificate's declared targets "
                      "(a saved and re-loaded certificate, whose targets are written as loaded, can answer for other elements)")
    TGT = tloop.target.id
    iv = find_calls(A, fn, "is_valid")
    run.require(len(iv) >= 1, "validate_and_get_values: no is_valid call (anchor vanished)")
    run.check("R1", len(iv) == 1, "one verification site", key="validate_and_get_values|is_valid-site", where=fn.loc(),
              message=f"verification sites: {[norm(c) for c in iv]}; expected exactly one `<element>.is_valid(<certifier>)`")
    ivc = iv[0]
    run.require(isinstance(ivc.func.value, ast.Name) and len(ivc.args) == 1 and isinstance(ivc.args[0], ast.Name) and not ivc.keywords,
                "validate_and_get_values: is_valid is not called as <name>.is_valid(<name>) (idiom not understood)")
    X, Y = ivc.func.value.id, ivc.args[0].id
    loops = [n for n in A.own_nodes(fn) if isinstance(n, ast.While) and any(n is x for x in ast.walk(tloop))]
    valid = [l for l in loops if any(ivc is x for x in ast.walk(l))]
    climb = [l for l in loops if l not in valid and any(isinstance(x, ast.Attribute) and x.attr == "signed_by" for x in ast.walk(l))]
    vfors = [n for n in A.own_nodes(fn) if isinstance(n, ast.For) and n is not tloop and any(n is x for x in ast.walk(tloop)) and any(ivc is x for x in ast.walk(n))
             and _path_iter(n.iter) is not None and isinstance(n.target, ast.Name)]
    if not valid and len(climb) == 1 and len(vfors) == 1:
        # the other common shape: the whole path is collected in a list (top element included) and verified with `for e in reversed(path)`
        RES = _chain_walk_list(run, fn, g, C, tloop, TGT, ivc, climb[0], vfors[0], root_param)
        _chain_walk_state(run, fn, tloop, RES)
        return
    run.require(len(valid) == 1 and len(climb) == 1, "validate_and_get_values: expected one `while` climbing signed_by and one `while` around is_valid "
                f"inside the target loop, found {len(climb)} / {len(valid)} (idiom not understood)")
    climb, valid = climb[0], valid[0]
    ch, ca = _while_nodes(g, climb)
    vh, va = _while_nodes(g, valid)
    run.require(ch is not None and vh is not None, "validate_and_get_values: loop structure not understood")
    fh = [n for n in g.nodes if n.kind == "for" and n.ast is tloop]
    ft = [n for n in g.nodes if n.kind == "T" and n.note == "has-item" and n.cond in fh]
    run.require(len(fh) == 1 and len(ft) == 1, "validate_and_get_values: target loop structure not understood")
    state = {}

    def is_name(e, nm):
        return isinstance(e, ast.Name) and e.id == nm

    def climb_atom(e):
        cp = cmp_parts(e)
        if cp is None:
            return None
        l, op, r = cp
        if op in ("==", "!=", "is", "is not"):
            t = {norm(l), norm(r)}
            if t == {f"{X}.signed_by", "self.ROOT_ELEMENT"}:
                return ("ROOT", op in ("==", "is"))
        return None

    # ---- (a) climb iteration
    W = Walker(A, fn, C, climb_atom)
    n_cases = 0
    W.stop_at_for = True
    for lf in W.walk(ch, stops={ch, ca}):
        kind = "next" if lf.kind == "stop" and lf.node is ch else ("leave" if lf.kind == "stop" and lf.node is ca else f"{lf.kind} at line {lf.node.lineno}")
        pushes = [v for k, st, v in lf.effects if k == "expr" and isinstance(v, ast.Call) and call_name(v) == "append"
                  and isinstance(v.func.value, ast.Name)]
        others = [st for k, st, v in lf.effects if k in ("store", "delete", "aug") or (k == "expr" and v not in pushes and isinstance(v, ast.Call)
                                                                                      and call_name(v) in ("pop", "append", "extend", "insert", "clear", "remove"))]
        for v in completions({k: b for k, b in lf.pc.items() if k == "ROOT"}, ["ROOT"]):
            n_cases += 1
            if v["ROOT"]:
                ok = kind == "leave" and not pushes and not others and X not in lf.env and X not in lf.bind
                run.check("R1", ok, "[ROOT] -> the climb ends with nothing changed", key="validate_and_get_values|climb|root-exit", where=fn.loc(climb),
                          message=f"when the element is signed by the root the climb does `{kind}` (pushes: {len(pushes)}, cur changed: {X in lf.env or X in lf.bind}); "
                                  "it must simply end")
            else:
                okp = len(pushes) == 1 and len(pushes[0].args) == 1 and is_name(pushes[0].args[0], X)
                if okp:
                    if state.setdefault("CH", pushes[0].func.value.id) != pushes[0].func.value.id:
                        okp = False
                step = lf.env.get(X, lf.bind.get(X))
                oks = step is not None and norm(step) == f"self._elements[{X}.signed_by]"
                run.check("R1", kind == "next", "[not ROOT] -> the climb goes on", key="validate_and_get_values|climb|other-exit", where=fn.loc(climb),
                          message=f"the climb from a target towards the root does `{kind}` although the element reached is not signed by the root: "
                                  "validation would then start below the root of trust")
                run.check("R1", okp and not others, "[not ROOT] -> exactly the element just visited is pushed on the chain", key="validate_and_get_values|climb|push",
                          where=fn.loc(climb), message=f"a climb step pushes {[norm(p) for p in pushes]} (other effects: {[norm(o)[:40] for o in others]}); every element "
                          "below the root must be pushed exactly once, before stepping up")
                run.check("R1", oks, f"[not ROOT] -> {X} = self._elements[{X}.signed_by]", key="validate_and_get_values|climb|step", where=fn.loc(climb),
                          message=f"the climb moves to `{norm(step) if step is not None else X + ' (unchanged)'}`, not to `self._elements[{X}.signed_by]`")
    CH = state.get("CH")
    run.require(CH is not None, "validate_and_get_values: the chain list could not be identified (idiom not understood)")

    # ---- per-target initialisation and the hand-over between the loops
    for lf in Walker(A, fn, C, lambda e: None).walk(ft[0], stops={ch}):
        run.check("R1", lf.kind == "stop", "every target reaches the climb", key="validate_and_get_values|init|reaches-climb", where=fn.loc(tloop),
                  message=f"for some target the method does `{lf.kind}` at line {lf.node.lineno} before climbing")
        if lf.kind != "stop":
            continue
        for nm, want in ((CH, "[]"), (X, f"self._elements[{TGT}]")):
            got = lf.env.get(nm, lf.bind.get(nm))
            run.check("R1", got is not None and norm(got) == want, f"`{nm} = {want}` for every target", key=f"validate_and_get_values|init|{'chain' if nm == CH else 'current'}",
                      where=fn.loc(), message=f"`{nm}` is `{norm(got) if got is not None else 'left over from the previous target'}` when the climb for a target starts, "
                      f"not `{want}`")
    for lf in Walker(A, fn, C, lambda e: None).walk(ca, stops={vh}):
        run.check("R1", lf.kind == "stop", "the climb is followed by the validation loop", key="validate_and_get_values|handover|reaches-validation", where=fn.loc(),
                  message=f"after the climb the method does `{lf.kind}` at line {lf.node.lineno} instead of validating")
        if lf.kind != "stop":
            continue
        got = lf.env.get(Y, lf.bind.get(Y))
        run.check("R1", got is not None and norm(got) == root_param, "the first certifier is the root of trust given by the caller",
                  key="validate_and_get_values|current_certifier|root-init", where=fn.loc(),
                  message=f"validation of a target starts with certifier `{norm(got) if got is not None else Y + ' (left over from the previous target)'}`, not with the "
                          f"`{root_param}` parameter")
        touched = [nm for nm in (X, CH) if nm in lf.env or nm in lf.bind] + [norm(v)[:40] for k, st, v in lf.effects if k == "expr" and isinstance(v, ast.Call)
                                                                              and isinstance(v.func, ast.Attribute) and is_name(v.func.value, CH)]
        run.check("R1", not touched, "element and chain untouched between the loops", key="validate_and_get_values|handover|untouched", where=fn.loc(),
                  message=f"between the climb and the validation {touched} is modified")

    # ---- (b) validation iteration
    def valid_atom(e):
        if isinstance(e, ast.Call) and call_name(e) == "is_valid" and norm(e) == f"{X}.is_valid({Y})":
            return ("V", True)
        if is_name(e, CH):
            return ("E", False)
        cp = cmp_parts(e)
        if cp is not None:
            l, op, r = cp
            if norm(l) == f"len({CH})" and isinstance(r, ast.Constant) and r.value == 0 and op in ("==", "!=", ">", "<="):
                return ("E", op in ("==", "<="))
            if norm(l) == f"len({CH})" and isinstance(r, ast.Constant) and r.value == 1 and op in ("<", ">="):
                return ("E", op == "<")
        return None

    # the verdict dict: the name the method returns (bound once, to an empty dict, outside the target loop)
    rets = [n for n in A.own_nodes(fn) if isinstance(n, ast.Return)]
    run.require(len(rets) == 1 and isinstance(rets[0].value, ast.Name), "validate_and_get_values: does not end in `return <verdict dict>` (idiom not understood)")
    RES = rets[0].value.id

    def stores(lf):
        out = []
        for k, st, v in lf.effects:
            if k == "assign" and any(isinstance(t, ast.Subscript) and is_name(t.value, RES) for t in st.targets):
                # a verdict held in a temporary is what the temporary stands for on this path
                if isinstance(v, ast.Name) and v.id in lf.bind:
                    v = lf.bind[v.id]
                out.append((st, v))
        return out
    # one iteration of the validation loop, followed to where it ends: back at the loop head (next) or at the target loop's head (the
    # target is finished: break, or the return of a helper the loop was moved into)
    for lf in Walker(A, fn, C, valid_atom).walk(vh, stops={vh, fh[0]}):
        kind = "next" if lf.kind == "stop" and lf.node is vh else ("leave" if lf.kind == "stop" and lf.node is fh[0] else f"{lf.kind} at line {lf.node.lineno}")
        sts = stores(lf)
        for v in completions({k: b for k, b in lf.pc.items() if k in ("V", "E")}, ["V", "E"]):
            n_cases += 1
            desc = f"V={'T' if v['V'] else 'F'}, E={'T' if v['E'] else 'F'}"
            if not v["V"]:
                ok = kind == "leave" and len(sts) == 1 and norm(sts[0][0].targets[0]) == f"{RES}[{TGT}]" and norm(sts[0][1]) == f"(False, {X}.name)"
                run.check("R1", ok, "[not V] -> (False, failing element's name), stop", key="validate_and_get_values|invalid-store", where=fn.loc(valid),
                          message=f"[{desc}] when an element does not verify the walk does `{kind}` and stores {[norm(s[1])[:60] for s in sts]}; it must store "
                                  f"(False, {X}.name) for the target and stop")
            elif v["E"]:
                ok = kind == "leave" and len(sts) == 1 and norm(sts[0][0].targets[0]) == f"{RES}[{TGT}]" \
                    and norm(sts[0][1]) == f"(True, {X}.get_value(), {X}.get_tweak())"
                run.check("R1", ok, "[V, chain exhausted] -> (True, value, tweak) of the leaf, stop", key="validate_and_get_values|valid-store", where=fn.loc(valid),
                          message=f"[{desc}] when the last element verified the walk does `{kind}` and stores {[norm(s[1])[:60] for s in sts]}; it must store "
                                  f"(True, {X}.get_value(), {X}.get_tweak()) and stop")
            else:
                cert = lf.env.get(Y, lf.bind.get(Y))
                nxt = lf.env.get(X, lf.bind.get(X))
                ok = kind == "next" and not sts
                run.check("R1", ok, "[V, more elements] -> go on without a verdict", key="validate_and_get_values|valid-store|leaf", where=fn.loc(valid),
                          message=f"[{desc}] with elements still to verify the walk does `{kind}` and stores {[norm(s[1])[:60] for s in sts]}: a target can be "
                                  "reported valid before its own element was verified (chain not exhausted)")
                run.check("R1", cert is not None and is_name(cert, X), "the verified element becomes the next certifier", key="validate_and_get_values|advance|certifier",
                          where=fn.loc(valid), message=f"after an element verified the next certifier is `{norm(cert) if cert is not None else Y + ' (unchanged)'}`, not the "
                          "element just verified")
                run.check("R1", nxt is not None and norm(nxt) == f"{CH}.pop()", "the next element is chain.pop()", key="validate_and_get_values|advance|pop",
                          where=fn.loc(valid), message=f"the walk down continues with `{norm(nxt) if nxt is not None else X + ' (unchanged)'}`, not with `{CH}.pop()`")
    run.floor("R1", "decision-table cases of the two loops", n_cases, 5)
    # (a verdict written after the loop shows as a second store on the `leave` rows above)
    _chain_walk_state(run, fn, tloop, RES)


def _path_iter(e):
    """`for x in <e>` over the path list: (list name, visits it back to front?, an element visited before the list - `[top] + L[::-1]` - or None)"""
    if isinstance(e, ast.BinOp) and isinstance(e.op, ast.Add) and isinstance(e.left, ast.List) and len(e.left.elts) == 1 and isinstance(e.left.elts[0], ast.Name):
        r = e.right
        if isinstance(r, ast.Call) and norm(r.func) == "list" and len(r.args) == 1 and not r.keywords:
            r = r.args[0]
        sub = _path_iter(r)
        if sub is not None and sub[2] is None and sub[1]:
            return sub[0], True, e.left.elts[0].id
        return None
    sub = _path_iter2(e)
    return None if sub is None else sub + (None,)


def _path_iter2(e):
    if isinstance(e, ast.Call) and norm(e.func) == "reversed" and len(e.args) == 1 and isinstance(e.args[0], ast.Name) and not e.keywords:
        return e.args[0].id, True
    if isinstance(e, ast.Subscript) and isinstance(e.value, ast.Name) and norm(e.slice) == "::-1":
        return e.value.id, True
    if isinstance(e, ast.Name):
        return e.id, False
    return None


def _chain_walk_list(run, fn, g, C, tloop, TGT, ivc, climb, vfor, root_param):
    """The chain walk written over a list holding the whole path: target element first, the element signed by the root last; verified from
    the root's side, i.e. visiting the list back to front, or front to back after one `list.reverse()` between the loops."""
    P, A = run.P, run.A
    from sa.decide import subst
    X, Y = vfor.target.id, ivc.args[0].id
    L, backwards, TOP = _path_iter(vfor.iter)
    run.require(isinstance(ivc.func.value, ast.Name) and ivc.func.value.id == X, "validate_and_get_values: is_valid is not called on the element the loop visits (idiom not understood)")
    ch, ca = _while_nodes(g, climb)
    run.require(ch is not None, "validate_and_get_values: climb loop structure not understood")
    fh = [n for n in g.nodes if n.kind == "for" and n.ast is tloop]
    ft = [n for n in g.nodes if n.kind == "T" and n.note == "has-item" and n.cond in fh]
    vh = [n for n in g.nodes if n.kind == "for" and n.ast is vfor]
    run.require(len(fh) == 1 and len(ft) == 1 and len(vh) == 1, "validate_and_get_values: loop structure not understood")
    v_item = [n for n in g.nodes if n.kind == "T" and n.note == "has-item" and n.cond is vh[0]]
    v_done = [n for n in g.nodes if n.kind == "F" and n.note == "exhausted" and n.cond is vh[0]]
    run.require(len(v_item) == 1 and len(v_done) == 1, "validate_and_get_values: validation loop edges not found")
    state = {}

    def is_name(e, nm):
        return isinstance(e, ast.Name) and e.id == nm

    def climb_atom(e):
        cp = cmp_parts(e)
        if cp is None:
            return None
        l, op, r = cp
        if op in ("==", "!=", "is", "is not"):
            for a, b in ((l, r), (r, l)):
                if norm(b) == "self.ROOT_ELEMENT" and isinstance(a, ast.Attribute) and a.attr == "signed_by":
                    cur = norm(a.value)
                    if cur in (f"{L}[-1]", f"{L}[0]") or isinstance(a.value, ast.Name):
                        if state.setdefault("CUR", cur) == cur:
                            return ("ROOT", op in ("==", "is"))
        return None
    n_cases = 0
    W = Walker(A, fn, C, climb_atom, stop_at_for=True)
    for lf in W.walk(ch, stops={ch, ca}):
        kind = "next" if lf.kind == "stop" and lf.node is ch else ("leave" if lf.kind == "stop" and lf.node is ca else f"{lf.kind} at line {lf.node.lineno}")
        CUR = state.get("CUR")
        pushes = [v for k, st, v in lf.effects if k == "expr" and isinstance(v, ast.Call) and call_name(v) == "append" and is_name(v.func.value, L)]
        if CUR == f"{L}[0]":
            # the path kept root-first: each step puts the certifier of the first element in front
            pushes = [v for k, st, v in lf.effects if k == "expr" and isinstance(v, ast.Call) and call_name(v) == "insert" and is_name(v.func.value, L) and len(v.args) == 2
                      and isinstance(v.args[0], ast.Constant) and v.args[0].value == 0 and type(v.args[0].value) is int]
        others = [st for k, st, v in lf.effects if k in ("store", "delete", "aug") or (k == "expr" and v not in pushes and isinstance(v, ast.Call)
                                                                                      and call_name(v) in ("pop", "append", "extend", "insert", "clear", "remove", "reverse", "sort"))]
        for v in completions({k: b for k, b in lf.pc.items() if k == "ROOT"}, ["ROOT"]):
            n_cases += 1
            if v["ROOT"]:
                cur_changed = CUR is not None and CUR != f"{L}[-1]" and (CUR in lf.env or CUR in lf.bind)
                run.check("R1", kind == "leave" and not pushes and not others and not cur_changed and "ROOT" in lf.pc, "[ROOT] -> the climb ends with nothing changed",
                          key="validate_and_get_values|climb|root-exit", where=fn.loc(climb),
                          message=f"when the element is signed by the root the climb does `{kind}` (pushes: {len(pushes)}); it must simply end")
            elif CUR in (f"{L}[-1]", f"{L}[0]"):
                okp = len(pushes) == 1 and norm(pushes[0].args[-1]) == f"self._elements[{CUR}.signed_by]"
                wantp = f"{L}.append(self._elements[{L}[-1].signed_by])" if CUR == f"{L}[-1]" else f"{L}.insert(0, self._elements[{L}[0].signed_by])"
                run.check("R1", kind == "next" and okp and not others, "[not ROOT] -> the certifier of the outermost element joins the path on that side", key="validate_and_get_values|climb|push",
                          where=fn.loc(climb), message=f"a climb step does `{kind}` and adds {[norm(p) for p in pushes]} (other effects: {[norm(o)[:40] for o in others]}); expected "
                          f"exactly {wantp}")
            else:
                okp = len(pushes) == 1 and len(pushes[0].args) == 1 and norm(pushes[0].args[0]) == CUR
                step = lf.env.get(CUR, lf.bind.get(CUR)) if CUR else None
                oks = step is not None and norm(step) == f"self._elements[{CUR}.signed_by]"
                run.check("R1", kind == "next" and okp and oks and not others, "[not ROOT] -> the element visited is appended, then its certifier is visited", key="validate_and_get_values|climb|push",
                          where=fn.loc(climb), message=f"a climb step does `{kind}`, appends {[norm(p) for p in pushes]} and moves to `{norm(step) if step is not None else CUR}`; expected "
                          f"{L}.append({CUR}) then {CUR} = self._elements[{CUR}.signed_by]")
    CUR = state.get("CUR")
    run.require(CUR is not None, "validate_and_get_values: the climb's test of signed_by against the root was not identified (idiom not understood)")
    cursor = CUR not in (f"{L}[-1]", f"{L}[0]")
    FRONT = CUR == f"{L}[0]"
    # a path built by insertion in front is root-first already: it must be visited front to back, as it is
    run.check("R1", not (FRONT and backwards), "a root-first path is visited front to back", key="validate_and_get_values|handover|front-order", where=fn.loc(vfor),
              message="the path is built root-first (insert(0, ..)) and then visited back to front: verification would start at the leaf")
    # `for e in [top] + L[::-1]`: the top element is visited first without being put on the list - only the cursor form leaves it outside the list
    run.check("R1", TOP is None or (cursor and TOP == CUR), "an element visited ahead of the list is the top element the climb stopped at",
              key="validate_and_get_values|handover|top-first", where=fn.loc(vfor),
              message=f"the validation visits `{TOP}` before the collected path, but the climb leaves the element signed by the root in `{CUR}`"
                      + ("" if cursor else " (already the last element of the list: it would be verified twice)"))
    # per target: the list starts as [] (cursor form: cursor = the target's element) or as [the target's element]
    for lf in Walker(A, fn, C, lambda e: None).walk(ft[0], stops={ch}):
        run.check("R1", lf.kind == "stop", "every target reaches the climb", key="validate_and_get_values|init|reaches-climb", where=fn.loc(tloop),
                  message=f"for some target the method does `{lf.kind}` at line {lf.node.lineno} before climbing")
        if lf.kind != "stop":
            continue
        wants = ((L, "[]"), (CUR, f"self._elements[{TGT}]")) if cursor else ((L, f"[self._elements[{TGT}]]"),)
        for nm, want in wants:
            got = lf.env.get(nm, lf.bind.get(nm))
            run.check("R1", got is not None and norm(got) == want, f"`{nm} = {want}` for every target", key=f"validate_and_get_values|init|{'chain' if nm == L else 'current'}",
                      where=fn.loc(), message=f"`{nm}` is `{norm(got) if got is not None else 'left over from the previous target'}` when the climb for a target starts, not `{want}`")
    # between the loops: (cursor form) the top element joins the list; the first certifier is the caller's root of trust
    for lf in Walker(A, fn, C, lambda e: None, stop_at_for=True).walk(ca, stops={vh[0]}):
        run.check("R1", lf.kind == "stop" and lf.node is vh[0], "the climb is followed by the validation loop", key="validate_and_get_values|handover|reaches-validation", where=fn.loc(),
                  message=f"after the climb the method does `{lf.kind}` at line {lf.node.lineno} instead of validating")
        if lf.kind != "stop":
            continue
        got = lf.env.get(Y, lf.bind.get(Y))
        run.check("R1", got is not None and norm(got) == root_param, "the first certifier is the root of trust given by the caller",
                  key="validate_and_get_values|current_certifier|root-init", where=fn.loc(),
                  message=f"validation of a target starts with certifier `{norm(got) if got is not None else Y + ' (left over from the previous target)'}`, not with the `{root_param}` parameter")
        lcalls = [norm(v) for k, st, v in lf.effects if k == "expr" and isinstance(v, ast.Call) and isinstance(v.func, ast.Attribute) and is_name(v.func.value, L)]
        want_calls = ([f"{L}.append({CUR})"] if cursor and TOP is None else []) + ([] if (backwards or FRONT) else [f"{L}.reverse()"])
        rebound = [nm for nm in ((L, CUR) if cursor else (L,)) if nm in lf.env or nm in lf.bind]
        run.check("R1", lcalls == want_calls and not rebound, "between the loops the path is completed with the top element (cursor form), put in root-first visiting order, and otherwise untouched",
                  key="validate_and_get_values|handover|untouched", where=fn.loc(),
                  message=f"between the climb and the validation the path list sees {lcalls} (re-bound: {rebound}) and is then visited {'back to front' if backwards else 'front to back'}; "
                          f"expected {want_calls}: the element signed by the root would be missing from (or twice in) the path that is verified, or the path would be verified from the leaf's side")
    # the verdict dict
    rets = [n for n in A.own_nodes(fn) if isinstance(n, ast.Return)]
    run.require(len(rets) == 1 and isinstance(rets[0].value, ast.Name), "validate_and_get_values: does not end in `return <verdict dict>` (idiom not understood)")
    RES = rets[0].value.id

    def stores(lf):
        out = []
        for k, st, v in lf.effects:
            if k == "assign" and any(isinstance(t, ast.Subscript) and is_name(t.value, RES) for t in st.targets):
                for _ in range(4):
                    if isinstance(v, ast.Name) and v.id in lf.bind:
                        v = lf.bind[v.id]
                    elif isinstance(v, ast.Name) and v.id in lf.env:
                        v = lf.env[v.id]
                    else:
                        break
                out.append((st, lf.deep(v, stop=(X, Y, L))))
        return out

    def valid_atom(e):
        if isinstance(e, ast.Call) and call_name(e) == "is_valid" and norm(e) == f"{X}.is_valid({Y})":
            return ("V", True)
        return None
    for lf in Walker(A, fn, C, valid_atom, stop_at_for=True).walk(v_item[0], stops={vh[0], fh[0]}):
        kind = "next" if lf.kind == "stop" and lf.node is vh[0] else ("leave" if lf.kind == "stop" and lf.node is fh[0] else f"{lf.kind} at line {lf.node.lineno}")
        sts = stores(lf)
        for v in completions({k: b for k, b in lf.pc.items() if k == "V"}, ["V"]):
            n_cases += 1
            if not v["V"]:
                ok = kind == "leave" and len(sts) == 1 and norm(sts[0][0].targets[0]) == f"{RES}[{TGT}]" and norm(sts[0][1]) == f"(False, {X}.name)" and "V" in lf.pc
                run.check("R1", ok, "[not V] -> (False, failing element's name), stop", key="validate_and_get_values|invalid-store", where=fn.loc(vfor),
                          message=f"when an element does not verify the walk does `{kind}` and stores {[norm(s[1])[:60] for s in sts]}; it must store (False, {X}.name) for the target and stop")
            else:
                cert = lf.env.get(Y, lf.bind.get(Y))
                run.check("R1", kind == "next" and not sts and "V" in lf.pc, "[V] -> go on to the next element without a verdict", key="validate_and_get_values|valid-store|leaf", where=fn.loc(vfor),
                          message=f"after an element verified the walk does `{kind}` and stores {[norm(s[1])[:60] for s in sts]}: a target can be reported valid before its own element was verified")
                run.check("R1", cert is not None and is_name(cert, X), "the verified element becomes the next certifier", key="validate_and_get_values|advance|certifier",
                          where=fn.loc(vfor), message=f"after an element verified the next certifier is `{norm(cert) if cert is not None else Y + ' (unchanged)'}`, not the element just verified")
    # all elements verified: the verdict is the leaf's value (the leaf is the first element of the path as built = the last one visited)
    LEAF = "0" if (backwards and not FRONT) else "-1"
    for lf in Walker(A, fn, C, lambda e: None, stop_at_for=True).walk(v_done[0], stops={fh[0]}):
        n_cases += 1
        sts = stores(lf)
        kind = "leave" if lf.kind == "stop" and lf.node is fh[0] else f"{lf.kind} at line {lf.node.lineno}"
        okv = kind == "leave" and len(sts) == 1 and norm(sts[0][0].targets[0]) == f"{RES}[{TGT}]" \
            and norm(sts[0][1]) in (f"(True, {X}.get_value(), {X}.get_tweak())", f"(True, {L}[{LEAF}].get_value(), {L}[{LEAF}].get_tweak())")
        run.check("R1", okv, "[every element verified] -> (True, value, tweak) of the leaf", key="validate_and_get_values|valid-store", where=fn.loc(vfor),
                  message=f"when every element of the path verified the walk does `{kind}` and stores {[norm(s[1])[:70] for s in sts]}; it must store (True, <leaf>.get_value(), "
                          f"<leaf>.get_tweak()) with the leaf = {L}[{LEAF}] (= the last element visited)")
    run.floor("R1", "decision-table cases of the two loops", n_cases, 5)
    return RES


def _chain_walk_state(run, fn, tloop, RES):
    P, A = run.P, run.A
    # ---- state
    _purity(run, fn, {"_targets", "_elements", "ROOT_ELEMENT"}, "validate_and_get_values")
    rdefs = defs_of(A, fn, RES)
    run.check("R1", len(rdefs) == 1 and norm(rdefs[0].value) == "{}" and not any(rdefs[0] is x for x in ast.walk(tloop)),
              "result starts empty for each call", key="validate_and_get_values|result-init", where=fn.loc(),
              message="`result` is not a fresh dict per call")
    uses = [n for n in ast.walk(fn.node) if isinstance(n, ast.Name) and n.id == RES and isinstance(n.ctx, ast.Load)]
    reads = [u for u in uses if not _is_store_target(fn.node, u) and not _is_returned(fn.node, u)]
    run.check("R1", not reads, "verdicts of other targets are never read back",
              key="validate_and_get_values|result-read", where=fn.loc(),
              message="validate_and_get_values reads `result` while computing a verdict: one target's validity "
                      "can depend on another's")


def _is_store_target(root, name_node):
    for n in ast.walk(root):
        if isinstance(n, ast.Assign):
            for t in n.targets:
                if isinstance(t, ast.Subscript) and t.value is name_node:
                    return True
    return False


def _is_returned(root, name_node):
    for n in ast.walk(root):
        if isinstance(n, ast.Return) and n.value is name_node:
            return True
    return False


def _block_of(root, stmt):
    for n in ast.walk(root):
        for field in ("body", "orelse", "finalbody"):
            blk = getattr(n, field, None)
            if isinstance(blk, list) and stmt in blk:
                return blk
    return None


def _purity(run, fn, allowed_reads, label, rule="R1"):
    """No instance attribute is written; only the allowed ones are read."""
    writes = []
    reads = set()
    for n in ast.walk(fn.node):
        if isinstance(n, ast.Attribute) and isinstance(n.value, ast.Name) and n.value.id in ("self", "cls"):
            if isinstance(n.ctx, ast.Store):
                writes.append(n)
            else:
                r_ = fn.cls.lookup(n.attr) if fn.cls is not None else None
                if r_ is not None and r_[1] == "method" and not r_[2].is_property:
                    continue
                reads.add(n.attr)
        if isinstance(n, ast.Call) and isinstance(n.func, ast.Name) and n.func.id in ("setattr", "getattr"):
            writes.append(n)
    run.check(rule, not writes, f"{label} writes no instance state",
              key=f"{fn.qualname}|writes-state:{sorted(set(norm(w)[:30] for w in writes))}", where=fn.loc(),
              message=f"{fn.qualname} writes instance state ({', '.join(sorted(set(norm(w)[:40] for w in writes)))}): "
                      "a verdict could be carried over from an earlier call / another certifier")
    extra = reads - allowed_reads
    return extra


def element_check(run, F, PV, E):
    P, A = run.P, run.A
    run.rule("R2", "HSMCertificateElement.is_valid: every return is the constant False or exactly "
             "K.ecdsa_verify(hexdecode(self.message), K.ecdsa_deserialize(hexdecode(self.signature))) with "
             "K = certifier.get_pubkey() when no tweak is declared and K = certifier.get_pubkey().tweak_add("
             "HMAC-SHA256(key=hexdecode(self.tweak), msg=uncompressed certifier key)) otherwise; the tweaked "
             "form is used iff self.tweak is not None; any exception yields False; no state is read or written "
             "besides the element's own message/signature/tweak.")
    top = P.method(E, "is_valid")
    # the function that actually performs the verification (is_valid itself, or a helper
    # it delegates to with the certifier passed through)
    fn = top
    holders = [m for m in E.methods.values()
               if any(isinstance(n, ast.Call) and call_name(n) == "ecdsa_verify" for n in A.own_nodes(m))]
    if top in holders:
        holders = [top]
    run.require(len(holders) == 1, f"expected one method of HSMCertificateElement calling ecdsa_verify, found {len(holders)}")
    if holders[0] is not top:
        fn = holders[0]
        for r in [n for n in A.own_nodes(top) if isinstance(n, ast.Return)]:
            v = r.value
            okd = (isinstance(v, ast.Constant) and v.value is False) or \
                (isinstance(v, ast.Call) and isinstance(v.func, ast.Attribute) and norm(v.func.value) == "self"
                 and v.func.attr == fn.name and [norm(a) for a in v.args] == [top.params[1]] and not v.keywords)
            run.check("R2", okd, "is_valid returns False or the verification helper's result for this certifier",
                      key=f"HSMCertificateElement.is_valid|return {norm(v)[:40]}|not-this-call's-verdict",
                      where=top.loc(r),
                      message=f"is_valid returns `{norm(v)[:60]}`, which is not the result of verifying against "
                              "the certifier given in this call (stale or stored verdict)")
        extra0 = _purity(run, top, {"message", "signature", "tweak"}, "is_valid", "R2")
        run.check("R2", not extra0, "is_valid reads only message/signature/tweak",
                  key=f"HSMCertificateElement.is_valid|reads:{sorted(extra0)}", where=top.loc(),
                  message=f"is_valid reads other instance state: {sorted(extra0)}")
    g = A.cfg(fn, E)
    cert = fn.params[1]
    plain = f"{cert}.get_pubkey()"
    tweak = f"hmac.new(bytes.fromhex(self.tweak), {plain}.serialize(compressed=False), hashlib.sha256).digest()"
    tw_key = f"{plain}.tweak_add({tweak})"

    def want(k):
        return _strip(f"{k}.ecdsa_verify(bytes.fromhex(self.message), {k}.ecdsa_deserialize(bytes.fromhex(self.signature)))")

    def atom(e):
        cp = cmp_parts(e)
        if cp is not None:
            l, op, r = cp
            if {norm(l), norm(r)} == {"self.tweak", "None"} and op in ("is", "is not", "==", "!="):
                return ("NOTWEAK", op in ("is", "=="))
        return None
    n_ret = 0
    for lf in Walker(A, fn, E, atom).walk(g.entry):
        if lf.kind != "return":
            continue
        n_ret += 1
        v = _strip(norm(lf.deep(lf.node.ast.value))) if lf.node.ast.value is not None else "None"
        if v == "False":
            run.ok("R2", "return False", fn.loc(lf.node.ast))
            continue
        for val in completions({k: b for k, b in lf.pc.items() if k == "NOTWEAK"}, ["NOTWEAK"]):
            w = want(plain) if val["NOTWEAK"] else want(tw_key)
            which = "no tweak declared" if val["NOTWEAK"] else "a tweak is declared"
            run.check("R2", v == w, f"[{which}] the verdict is the specified verification expression",
                      key=f"HSMCertificateElement.is_valid|verification-expression|{'plain' if val['NOTWEAK'] else 'tweaked'}", where=fn.loc(lf.node.ast),
                      message=f"when {which}, is_valid's verdict is `{v[:300]}`; the specified construction is `{w}`")
    run.floor("R2", "returns in the verification function", n_ret, 1)
    # exceptions -> False: nothing escapes, and every way out of a handler is `return False`
    esc = g.raise_exit in g.reachable(g.entry)
    run.check("R2", not esc, "no exception escapes is_valid", key="HSMCertificateElement.is_valid|handler",
              where=fn.loc(), message="an exception raised while verifying (malformed hex, key or signature) can escape is_valid instead of giving False")
    for hn in [n for n in g.nodes if n.kind == "handler"]:
        for lf in Walker(A, fn, E, lambda e: None).walk(hn):
            okf = lf.kind == "return" and lf.node.ast.value is not None and norm(lf.deep(lf.node.ast.value)) == "False"
            run.check("R2", okf, "a failing verification step gives False", key="HSMCertificateElement.is_valid|handler-verdict", where=fn.loc(hn.ast),
                      message=f"after an exception is_valid does `{lf.kind}` `{norm(lf.node.ast)[:60] if lf.node.ast is not None else ''}` instead of returning False")
    extra = _purity(run, fn, {"message", "signature", "tweak"}, "is_valid", "R2")
    run.check("R2", not extra, "is_valid reads only message/signature/tweak",
              key=f"HSMCertificateElement.is_valid|reads:{sorted(extra)}", where=fn.loc(),
              message=f"is_valid reads other instance state: {sorted(extra)}")
    # properties return the stored fields
    for prop, fld in (("message", "_message"), ("signature", "_signature"), ("tweak", "_tweak"),
                      ("name", "_name"), ("signed_by", "_signed_by")):
        pf = P.method(E, prop)
        rr = [n for n in A.own_nodes(pf) if isinstance(n, ast.Return)]
        run.check("R2", len(rr) == 1 and norm(rr[0].value) == f"self.{fld}", f"property {prop} returns self.{fld}",
                  key=f"HSMCertificateElement.{prop}|getter", where=pf.loc(),
                  message=f"property {prop} does not return the parsed field self.{fld}")
        ws = [(rhs, wfn) for (rhs, wfn, tgt) in A._field_writes.get(fld, []) if wfn.cls is E]
        run.check("R2", all(w.name == "__init__" for r_, w in ws) and ws, f"{fld} written only by the constructor",
                  key=f"HSMCertificateElement.{fld}|writers", where=E.module.relpath,
                  message=f"self.{fld} is written outside __init__")


def _strip(s):
    """Remove redundant parentheses / whitespace for comparison."""
    try:
        return ast.unparse(ast.parse(s, mode="eval").body)
    except SyntaxError:
        return re.sub(r"\s+", "", s)


def values(run, F, PV, C, E):
    P, A = run.P, run.A
    run.rule("R3", "A valid result carries get_value() and get_tweak() of the leaf (R1); "
             "get_value = EXTRACTORS[name](hexdecode(message)).hex(); EXTRACTORS and VALID_NAMES equal the "
             "`extract` definition and the name list of docs/attestation.md; get_pubkey parses get_value(); "
             "a certificate's element map is keyed by element name.")
    # EXTRACTORS maps a name to a one-argument function of the decoded message, or (all entries alike) to the slice() to take of it
    ex0 = E.assigns.get("EXTRACTORS")
    state_slices = {"on": isinstance(ex0, ast.Dict) and bool(ex0.values) and all(isinstance(v_, ast.Call) and norm(v_.func) == "slice" and not v_.keywords
                                                                                 and 1 <= len(v_.args) <= 2 for v_ in ex0.values)}
    for meth, want, label, msg in (
            ("get_value", "self.EXTRACTORS[self.name](bytes.fromhex(self.message)).hex()", "get_value extracts from the signed message",
             "get_value is not EXTRACTORS[name](hexdecode(message)).hex()"),
            ("get_pubkey", "ec.PublicKey(bytes.fromhex(self.get_value()), raw=True)", "get_pubkey parses the extracted value",
             "get_pubkey does not build the key from get_value()"),
            ("get_tweak", "self.tweak", "get_tweak returns the tweak", "get_tweak changed")):
        m_ = P.method(E, meth)
        got = {_strip(x) for x in return_values(A, m_, E, PV)}
        if meth == "get_value" and state_slices["on"]:
            # the table holds the slices themselves: the value is that slice of the decoded message
            want = "bytes.fromhex(self.message)[self.EXTRACTORS[self.name]].hex()"
        run.check("R3", got == {_strip(want)}, label, key=f"HSMCertificateElement.{meth}|expr", where=m_.loc(),
                  message=f"{msg} (returns {sorted(got)[:2]})")
        # ... for every element alike: any element may certify another one (chains of depth four), so the accessors are unconditional
        gm_ = A.cfg(m_, E)
        conds_ = [n for n in gm_.nodes if n.kind == "cond"]
        raises_ = [n for n in A.own_nodes(m_) if isinstance(n, ast.Raise)]
        run.check("R3", not conds_ and not raises_, f"{meth} is unconditional", key=f"HSMCertificateElement.{meth}|unconditional", where=m_.loc(),
                  message=f"HSMCertificateElement.{meth} depends on {[norm(c.ast)[:50] for c in conds_][:2]} / raises: an element for which it fails cannot be "
                          "validated or act as a certifier although its signature chain is sound")
    # extractors vs docs
    d = doc(run, "attestation.md")
    m = re.search(r"def extract\(element\):(.*?)```", d.text, re.S)
    run.require(m is not None, "docs/attestation.md: `extract` definition not found")
    spec = {}
    for names, expr in re.findall(r"if (element\.name == \"\w+\"(?: or element\.name == \"\w+\")*):\s*\n\s*return (\S+)", m.group(1)):
        for nm in re.findall(r'"(\w+)"', names):
            spec[nm] = expr.replace("message", "b")
    run.require(len(spec) >= 4, f"docs/attestation.md: extract cases not understood ({spec})")
    ex = E.assigns.get("EXTRACTORS")
    run.require(isinstance(ex, ast.Dict), "EXTRACTORS is no longer a dict literal")
    got = {}
    for k, v in zip(ex.keys, ex.values):
        body = a = None
        if isinstance(k, ast.Constant) and isinstance(v, ast.Lambda) and len(v.args.args) == 1:
            a = v.args.args[0].arg
            body = norm(v.body)
        elif isinstance(k, ast.Constant) and state_slices["on"]:
            # slice(stop) / slice(start, stop) with None for an open end: b[start:stop]
            lo, hi = (None, v.args[0]) if len(v.args) == 1 else (v.args[0], v.args[1])
            txt = lambda x: "" if x is None or (isinstance(x, ast.Constant) and x.value is None) else norm(x)   # noqa: E731
            a, body = "b", f"b[{txt(lo)}:{txt(hi)}]"
        elif isinstance(k, ast.Constant) and isinstance(v, ast.Name):
            # a named one-parameter function of the module: what it returns
            try:
                xf = P.func(f"{E.module.name}.{v.id}")
            except AnalysisError:
                xf = None
            if xf is not None and len(xf.params) == 1:
                rv = {_strip(x) for x in return_values(A, xf, None, PV)}
                if len(rv) == 1:
                    a, body = xf.params[0], next(iter(rv))
        if body is not None:
            body = re.sub(rf"\b{a}\b", "b", body)
            if body == "b[:]":
                body = "b"
            got[k.value] = body
    for nm in sorted(set(spec) | set(got)):
        run.check("R3", spec.get(nm) == got.get(nm), f"extractor `{nm}` == documented `{spec.get(nm)}`",
                  key=f"EXTRACTORS|{nm}", where=E.module.relpath,
                  message=f"extractor for `{nm}` is `{got.get(nm)}`; docs/attestation.md defines `{spec.get(nm)}`")
    vn = P.class_const(E, "VALID_NAMES")
    run.check("R3", sorted(vn) == sorted(spec), "VALID_NAMES == documented element names",
              key="VALID_NAMES|set", where=E.module.relpath,
              message=f"VALID_NAMES is {vn}, documentation allows {sorted(spec)}")
    re_ = P.class_const(C, "ROOT_ELEMENT")
    run.check("R3", re_ == "root", "ROOT_ELEMENT == 'root'", key="HSMCertificate.ROOT_ELEMENT|value",
              where=C.module.relpath, message=f"ROOT_ELEMENT is {re_!r}, documented value is 'root'")
    # element map keyed by name
    for mname, want in (("add_element", "self._elements[element.name]"),):
        m_ = P.method(C, mname)
        st = [n for n in A.own_nodes(m_) if isinstance(n, ast.Assign) and norm(n.targets[0]).startswith("self._elements[")]
        run.check("R3", len(st) == 1 and norm(st[0].targets[0]) == want and norm(st[0].value) == "element",
                  f"{mname} stores the element under its own name", key=f"HSMCertificate.{mname}|store",
                  where=m_.loc(), message=f"{mname} does not store the element under element.name")
