"""C04 - device outcomes map onto the documented result codes."""
import ast
import json
import os
import re
from sa.model import AnalysisError, Unknown, norm, unwrap, EnumMember
from sa.query import Facts, call_name, find_calls, try_fold, calls_in, kwarg, defs_of
from sa.exc import ExcAnalysis
from sa.decide import eval_predicate, accepted_set, tabulate
from .common import (dongle_classes, protocol_classes, device_touching, command_methods,
                     firmware, doc)
from .c11 import _parents, catching_handler

TECHNIQUE = ("table extraction and agreement (Python enums/dicts, firmware C enums and THROW/FAIL "
             "sets, Markdown code lists), value-set folding of every returnable result code, "
             "dominance rules for success codes, exception-escape analysis for device-range errors")
EXPLANATION = (
    "Static analysis of /repo's current source (nothing executed). Decides: the set of result codes "
    "each command can return (validator + operation + translation tables, folded per protocol class) "
    "is contained in the set docs/protocol.md (protocol-v1.md) lists for it plus the generic codes; "
    "0/1 are produced only under the device's SUCCESS/PARTIAL opcode and every loop iteration "
    "examines the last answer for them; every error name the firmware can THROW/FAIL in a step is "
    "mapped explicitly by that step's Python table; named causes compose (enum value -> step table -> "
    "translate table) to the documented code; Python error enums equal the firmware enums and lie in "
    "the user-defined range; HSM2DongleErrorResult cannot escape a command method (re-bring-up chain "
    "set apart). One rule instance per table/handler, not per status word; nothing is executed."
)

SPEC = os.path.join(os.path.dirname(os.path.dirname(os.path.abspath(__file__))), "spec",
                    "named_causes.json")


def _dict_display(A, fn, e):
    """the dict display `e` denotes: a display itself, or a local name bound exactly once to one"""
    if isinstance(e, ast.Dict):
        return e
    if isinstance(e, ast.Name):
        ds = defs_of(A, fn, e.id)
        if len(ds) == 1 and isinstance(getattr(ds[0], "value", None), ast.Dict):
            stores = [n for n in A.own_nodes(fn) if isinstance(n, ast.Name) and n.id == e.id and isinstance(n.ctx, (ast.Store, ast.Del))]
            muts = [n for n in A.own_nodes(fn) if isinstance(n, ast.Subscript) and isinstance(n.ctx, (ast.Store, ast.Del))
                    and isinstance(n.value, ast.Name) and n.value.id == e.id]
            muts += [n for n in A.own_nodes(fn) if isinstance(n, ast.Call) and isinstance(n.func, ast.Attribute) and isinstance(n.func.value, ast.Name)
                     and n.func.value.id == e.id and n.func.attr in ("update", "pop", "setdefault", "clear", "popitem")]
            if len(stores) == 1 and not muts:
                return ds[0].value
    return None


# ---------------------------------------------------------------------------
def value_set(run, expr, fn, pc, depth=0):
    """Set of ints an expression can evaluate to (result-code position)."""
    P, A = run.P, run.A
    if depth > 6:
        raise AnalysisError(f"value_set: depth bound hit at {fn.qualname}: {norm(expr)[:60]}")
    ok, v = try_fold(P, expr, fn, pc)
    if ok and isinstance(v, int):
        return {v}
    if isinstance(expr, ast.IfExp):
        return value_set(run, expr.body, fn, pc, depth + 1) | value_set(run, expr.orelse, fn, pc, depth + 1)
    if isinstance(expr, ast.Name):
        ds = defs_of(A, fn, expr.id)
        if not ds:
            raise AnalysisError(f"value_set: `{expr.id}` has no local definition in {fn.qualname}")
        out = set()
        for d in ds:
            out |= value_set(run, d.value, fn, pc, depth + 1)
        return out
    if isinstance(expr, ast.Subscript):
        # {..}[k] / d[k] with d a local bound once to a dict display: one of the display's values (or KeyError)
        base = _dict_display(A, fn, expr.value)
        if base is not None:
            out = set()
            for vv in base.values:
                out |= value_set(run, vv, fn, pc, depth + 1)
            return out
    if isinstance(expr, ast.Call):
        f = expr.func
        if A.is_noreturn_call(expr, fn, pc):
            return set()
        # {..}.get(k, default)
        if isinstance(f, ast.Attribute) and f.attr == "get":
            base = _dict_display(A, fn, f.value)
            if base is not None:
                out = set()
                for vv in base.values:
                    out |= value_set(run, vv, fn, pc, depth + 1)
                if len(expr.args) > 1:
                    out |= value_set(run, expr.args[1], fn, pc, depth + 1)
                else:
                    raise AnalysisError(f"{fn.qualname}: dict.get without default in result position")
                return out
        cs = [c for c in A.resolve_call(expr, fn, pc) if c.fn is not None]
        if cs:
            out = set()
            for c in cs:
                rets = [n for n in A.own_nodes(c.fn) if isinstance(n, ast.Return) and n.value is not None]
                if isinstance(c.fn.node, ast.Lambda):
                    out |= value_set(run, c.fn.node.body, c.fn, pc, depth + 1)
                    continue
                if not rets:
                    raise AnalysisError(f"value_set: {c.fn.qualname} returns nothing")
                for r in rets:
                    out |= value_set(run, r.value, c.fn, c.self_cls or pc, depth + 1)
            return out
    raise AnalysisError(f"value_set: cannot bound `{norm(expr)[:70]}` in {fn.qualname} (UNDECIDED)")


def doc_codes(run):
    """{mode: {command: set(codes)}}, generic sets."""
    out = {}
    d5 = doc(run, "protocol.md")
    secs = d5.sections(3)
    gen5 = set(int(x) for x in re.findall(r"^-`(-?\d+)`:", secs.get("Error and success codes", ""), re.M)
               if int(x) <= -900)
    if len(gen5) < 6:
        raise AnalysisError("docs/protocol.md: generic 9xx code list not found")
    all5 = set(int(x) for x in re.findall(r"^-\s*`(-?\d+)`:", secs.get("Error and success codes", ""), re.M))
    m5 = {}
    for title, body in secs.items():
        cm = re.search(r'"command":\s*"(\w+)"', body)
        if not cm:
            continue
        s = re.search(r"This operation can return (.*?)\.", body, re.S)
        if not s:
            raise AnalysisError(f"docs/protocol.md section `{title}`: no 'can return' sentence")
        m5[cm.group(1)] = set(int(x) for x in re.findall(r"`(-?\d+)`", s.group(1)))
    out[5] = (m5, gen5, all5)
    d1 = doc(run, "protocol-v1.md")
    secs = d1.sections(3)
    gen1 = set(int(x) for x in re.findall(r"^-`(-?\d+)`:", secs.get("Error and success codes", ""), re.M))
    if gen1 != {-2, -666}:
        raise AnalysisError(f"docs/protocol-v1.md: generic code list is {gen1}")
    m1 = {}
    for title, body in secs.items():
        cm = re.search(r'"command":\s*"(\w+)"', body)
        if not cm:
            continue
        s = re.search(r"This operation can return (.*?)\.", body, re.S)
        m1[cm.group(1)] = set(int(x) for x in re.findall(r"`(-?\d+)`", s.group(1))) if s else {0}
    out[1] = (m1, gen1, gen1 | {0})
    return out


def returned_codes(run, m, pc):
    """Codes a command method / validator can put in the result position."""
    A = run.A
    out = set()
    if m is None:
        return out
    if isinstance(m.node, ast.Lambda):
        return value_set(run, m.node.body, m, pc)
    for r in [n for n in A.own_nodes(m) if isinstance(n, ast.Return)]:
        v = r.value
        if v is None:
            raise AnalysisError(f"{m.qualname}: bare return in a command method")
        if isinstance(v, ast.Tuple) and v.elts:
            out |= value_set(run, v.elts[0], m, pc)
        elif isinstance(v, ast.Call) and run.A.is_noreturn_call(v, m, pc):
            continue
        else:
            out |= value_set(run, v, m, pc)
    return out


# ---------------------------------------------------------------------------
def run(run):
    P, A = run.P, run.A
    F = Facts(A)
    E = ExcAnalysis(A)
    fw = firmware(run)
    D = P.cls("ledger.hsm2dongle.HSM2Dongle")
    V2 = P.cls("ledger.protocol.HSM2ProtocolLedger")

    # ------------------------------------------------------------------ R1
    run.rule("R1", "For each protocol mode and command, every value that can appear in the result-code "
             "position of its validator or operation (folded through _translate_* tables and .get "
             "defaults, per class) belongs to the set the protocol document lists for that command, "
             "or to the generic codes.")
    docs = doc_codes(run)
    ncmd = 0
    for pc in protocol_classes(run):
        ver = P.class_const(pc, "VERSION")
        cmds, generic, _ = docs[ver]
        maps = command_methods(run, pc)
        run.check("R1", set(maps["_mappings"]) == set(cmds), f"v{ver}: implemented commands == documented",
                  key=f"{pc.name}|commands|set", where=pc.module.relpath,
                  message=f"v{ver} command set {sorted(maps['_mappings'])} != documented {sorted(cmds)}")
        for cmd, m in sorted(maps["_mappings"].items()):
            if cmd not in cmds:
                continue
            ncmd += 1
            got = returned_codes(run, m, pc) | returned_codes(run, maps["_validation_mappings"].get(cmd), pc)
            extra = got - cmds[cmd] - generic
            run.check("R1", not extra, f"v{ver} {cmd}: codes {sorted(got)} within documented {sorted(cmds[cmd] | generic)}",
                      key=f"{pc.name}|{cmd}|undocumented:{sorted(extra)}", where=m.loc(),
                      message=f"{pc.name} `{cmd}` can answer {sorted(extra)}, which the protocol document "
                              f"does not list for it (documented: {sorted(cmds[cmd])} + generic)")
        # generic gate constants
        for cname, want in (("ERROR_CODE_DEVICE", -905 if ver == 5 else -2),
                            ("ERROR_CODE_UNKNOWN", -906 if ver == 5 else -2)):
            v = P.class_const(pc, cname)
            run.check("R1", v == want and v in generic, f"{pc.name}.{cname} == {want}",
                      key=f"{pc.name}.{cname}|value", where=pc.module.relpath,
                      message=f"{pc.name}.{cname} is {v}, documents say {want}")
    run.floor("R1", "commands checked", ncmd, 13)

    # ------------------------------------------------------------------ R2
    _success_rules(run, F, D, V2)

    # ------------------------------------------------------------------ R3
    _tables(run, fw, D, V2)
    # a transport failure must be classified (never escape unclassified): the classifier rules of C11 under the prefix X.
    from . import c11
    run.rule("X.R4", "Transport failures are classified before they can reach the protocol layer: the exchange in _send_command is guarded by a handler for "
             "BaseException whose decision table maps every failure to HSM2DongleErrorResult / TimeoutError / CommError / HSM2DongleError (rules shared with C11).")
    run.rid_prefix = "X."
    try:
        c11._classifier(run, E)
    finally:
        run.rid_prefix = ""

    # a well-formed SUCCESS answer always yields code 0: the signature parser demands nothing beyond DER well-formedness (rules of C01 under S.)
    from . import c01
    from sa.prov import Prov
    run.rule("S.R5", "A signature the device returned with SUCCESS is accepted whenever it is well-formed DER: HSM2DongleSignature checks the header, markers and "
             "lengths and nothing else (no size `sanity` conditions: minimal DER integers may be shorter than 32 bytes); rules shared with C01.")
    run.rid_prefix = "S."
    try:
        c01.signature_parser(run, F, Prov(A), "R5")
    finally:
        run.rid_prefix = ""
    # the result code the command produced is the one the client reads: reply assembly (rule R8 of C13) under the prefix A.
    from . import c13
    run.rid_prefix = "A."
    try:
        c13.reply_assembly(run, "R8")
    finally:
        run.rid_prefix = ""

    # ------------------------------------------------------------------ R4
    run.rule("R4", "HSM2DongleErrorResult (a status word in the device's own error range) cannot escape "
             "any command method, nor be converted into HSM2ProtocolError/Interrupt on the way; chains "
             "through ensure_connection's re-run of the bring-up are set apart (bring-up may stop the "
             "manager, C09).")
    ens = P.method(V2, "ensure_connection")
    E2 = ExcAnalysis(A, cut={ens.qualname})
    nm = 0
    for pc in protocol_classes(run):
        for cmd, m in sorted(command_methods(run, pc)["_mappings"].items()):
            nm += 1
            esc = E2.esc(m, pc)
            w = esc.get("HSM2DongleErrorResult")
            chain = w.render() if w else ""
            site = ""
            if w:
                top = [c for c in w.chain if c[0] == m.qualname]
                site = top[0][2] if top else ""
            run.check("R4", w is None, f"{pc.name}.{m.name}: device-range error cannot escape",
                      key=f"{pc.name}.{m.name}|{site}|HSM2DongleErrorResult-escapes", where=m.loc(),
                      message=f"a device status in the 0x69A0-0x6BFF/0x6D00 range raised during "
                              f"`{site}` escapes {pc.name}.{m.name}: the server's catch-all turns it "
                              "into a shutdown instead of a result code",
                      witness=chain[:400])
            full = E.esc(m, pc)
            for exc in ("HSM2DongleCommError", "HSM2DongleTimeoutError"):
                w2 = full.get(exc)
                run.check("R4", w2 is None, f"{pc.name}.{m.name}: {exc} cannot escape",
                          key=f"{pc.name}.{m.name}|{exc}|escapes", where=m.loc(),
                          message=f"a link failure / time-out ({exc}) can escape {pc.name}.{m.name}: the client "
                                  "gets an empty reply instead of the device-error code and the manager stops",
                          witness=w2.render()[:400] if w2 else None)
            # conversion into protocol error inside the method
            for n in A.own_nodes(m):
                if isinstance(n, ast.ExceptHandler) and "HSM2DongleErrorResult" in E.class_names_of(n.type, m, pc):
                    bad = [x for x in ast.walk(n) if isinstance(x, ast.Raise)] + \
                          [x for x in ast.walk(n) if isinstance(x, ast.Call) and A.is_noreturn_call(x, m, pc)]
                    run.check("R4", not bad, f"{pc.name}.{m.name}: ErrorResult handler does not raise",
                              key=f"{pc.name}.{m.name}|ErrorResult-handler|raises", where=m.loc(n),
                              message=f"{pc.name}.{m.name} converts a device-range error into a fatal protocol error")
    run.floor("R4", "command methods", nm, 13)


# ---------------------------------------------------------------------------
def _op_member(run, expr, fn, cls):
    try:
        v = run.P.const_eval(expr, fn.module, cls=cls)
    except (Unknown, AnalysisError):
        return None
    return v


def _success_rules(run, F, D, V2):
    P, A = run.P, run.A
    run.rule("R2", "Success codes only on device success, and always then: _do_block_operation returns "
             "OK_TOTAL only under `answer op == ops.SUCCESS` and OK_PARTIAL only under `== ops.PARTIAL` "
             "(advance), and every path from an assignment of the answer inside the block loop back to "
             "the loop head passes those two tests; _translate_* map exactly OK_TOTAL->0, OK_PARTIAL->1 "
             "and nothing else to a non-negative code; sign_authorized/unauthorized return (True, ..) "
             "only after the SUCCESS op / all four steps; command methods return ERROR_CODE_OK only "
             "outside handlers, after a completed device call, under the device's positive answer.")
    dbo = P.method(D, "_do_block_operation")
    g = A.cfg(dbo, D)
    # _do_block_operation: which answers end the operation with OK_TOTAL / OK_PARTIAL, tested after every exchange and before the next block, and the
    # whole flow of the operation per segment - rules R8 and R9 of C05, re-applied here under the prefix O. (decided on roles, not on local names)
    from . import c05 as _c05
    from sa.prov import Prov as _Prov
    run.rid_prefix = "O."
    try:
        _c05._block_loop_outcome(run, _Prov(A), D, dbo, g)
        _c05._flow_table(run, _Prov(A), D, dbo, g)
        _c05._header_flow(run, _Prov(A), D, P.method(D, "_send_block_header"))
    finally:
        run.rid_prefix = ""
    # translation tables
    for pc in protocol_classes(run):
        for tname, enum in (("_translate_advance_result", "_AdvanceResponse"),
                            ("_translate_update_ancestor_result", "_UpdateAncestorResponse")):
            r = pc.lookup(tname)
            if r is None:
                continue
            t = r[2]
            d = _translate_dict(run, t, pc)
            mem = P.enum_members(P.cls("ledger.hsm2dongle." + enum))
            for k, v in d.items():
                want = {"OK_TOTAL": 0, "OK_PARTIAL": 1}.get(k.name)
                if want is not None:
                    run.check("R2", v == want, f"{tname}: {k.name} -> {want}", key=f"{pc.name}.{tname}|{k.name}|code",
                              where=t.loc(), message=f"{tname} maps {k.name} to {v}, must be {want}")
                else:
                    run.check("R2", isinstance(v, int) and v < 0, f"{tname}: {k.name} -> negative",
                              key=f"{pc.name}.{tname}|{k.name}|nonnegative", where=t.loc(),
                              message=f"{tname} maps the failure {k.name} to the success-range code {v}")
            for k in ("OK_TOTAL",) + (("OK_PARTIAL",) if "OK_PARTIAL" in mem else ()):
                run.check("R2", any(kk.name == k for kk in d), f"{tname} maps {k}",
                          key=f"{pc.name}.{tname}|{k}|missing", where=t.loc(),
                          message=f"{tname} has no entry for {k}: a device success would be answered with the default error")
    # sign: (True, sig) only after success op
    su = P.method(D, "sign_unauthorized")
    gs = A.cfg(su, D)
    for r in [n for n in A.own_nodes(su) if isinstance(n, ast.Return) and isinstance(n.value, ast.Tuple)
              and isinstance(n.value.elts[0], ast.Constant) and n.value.elts[0].value is True]:
        for rn in gs.nodes_of(r):
            facts = F.local(su, D, rn)
            hit = [f for f in facts if f.kind == "cmp" and f.op == "==" and norm(f.right).endswith("SIGN.SUCCESS")]
            run.check("R2", bool(hit), "sign_unauthorized success only under op == SUCCESS",
                      key="HSM2Dongle.sign_unauthorized|return True|gate", where=su.loc(r),
                      message="sign_unauthorized can report success without the device's SUCCESS op")
    sa_ = P.method(D, "sign_authorized")
    ga = A.cfg(sa_, D)
    trues = [n for n in A.own_nodes(sa_) if isinstance(n, ast.Return) and isinstance(n.value, ast.Tuple)
             and isinstance(n.value.elts[0], ast.Constant) and n.value.elts[0].value is True]
    run.check("R2", len(trues) == 1, "sign_authorized has one success return",
              key="HSM2Dongle.sign_authorized|success-returns", where=sa_.loc(),
              message=f"sign_authorized has {len(trues)} success returns")
    chunk_calls = find_calls(A, sa_, "_send_data_in_chunks")
    run.floor("R2", "chunked sends in sign_authorized", len(chunk_calls), 3)
    for r in trues:
        for rn in ga.nodes_of(r):
            for c in chunk_calls:
                ok = any(ga.dominates(x, rn) for x in ga.nodes_of(c))
                run.check("R2", ok, "success return after every chunked step",
                          key=f"HSM2Dongle.sign_authorized|{norm(kwarg(c, 'operation') or c)[:40]}|not-before-success",
                          where=sa_.loc(r), message="sign_authorized can report success without having run step "
                          f"`{norm(kwarg(c, 'operation') or c)}`")
            facts = F.local(sa_, D, rn)
            oks = [f for f in facts if f.kind == "truthy" and f.pol and norm(f.expr) == "response[0]"]
            run.check("R2", len(oks) >= 3, "success return dominated by response[0] of each chunked step",
                      key="HSM2Dongle.sign_authorized|return True|step-results", where=sa_.loc(r),
                      message="sign_authorized's success return is not dominated by the success flag of all "
                              f"three chunked steps ({len(oks)} found)")
    # last step's next op must be SUCCESS
    last = [c for c in chunk_calls if norm(kwarg(c, "operation")).endswith("MERKLE_PROOF")]
    for c in last:
        nx = kwarg(c, "next_operations")
        run.check("R2", isinstance(nx, ast.List) and len(nx.elts) == 1 and norm(nx.elts[0]).endswith("SIGN.SUCCESS"),
                  "merkle-proof step expects SUCCESS next", key="HSM2Dongle.sign_authorized|merkle|next-op",
                  where=sa_.loc(c), message="the last sign step accepts an op other than SUCCESS as completion")
    # command methods: OK only outside handlers, after a device call
    dev = device_touching(run)
    for pc in protocol_classes(run):
        for cmd, m in sorted(command_methods(run, pc)["_mappings"].items()):
            if m.name == "_version":
                continue
            gm = A.cfg(m, pc)
            par = _parents(m.node)
            for r in [n for n in A.own_nodes(m) if isinstance(n, ast.Return) and isinstance(n.value, ast.Tuple)
                      and len(n.value.elts) == 2]:
                try:
                    vs = value_set(run, r.value.elts[0], m, pc)
                except AnalysisError:
                    continue
                if not (vs & {0, 1}):
                    continue
                cur = r
                in_handler = False
                while id(cur) in par:
                    cur = par[id(cur)]
                    if isinstance(cur, ast.ExceptHandler):
                        in_handler = True
                run.check("R2", not in_handler, f"{pc.name}.{m.name}: OK not returned from a handler",
                          key=f"{pc.name}.{m.name}|return OK|in-handler", where=m.loc(r),
                          message=f"{pc.name}.{m.name} returns a success code from inside an exception handler")
                for rn in gm.nodes_of(r):
                    devnodes = set()
                    for c, cs in A.callees(m, pc):
                        if any(x.fn is not None and x.fn.qualname in dev and x.fn.name != "ensure_connection"
                               for x in cs):
                            devnodes |= set(gm.nodes_of(c))
                    done = bool(devnodes) and gm.all_paths_pass(gm.entry, rn, devnodes)
                    run.check("R2", bool(done), f"{pc.name}.{m.name}: OK after a completed device call",
                              key=f"{pc.name}.{m.name}|return OK|no-device-call", where=m.loc(r),
                              message=f"{pc.name}.{m.name} can return a success code without a completed device exchange")
                    if m.name in ("_sign", "_signer_heartbeat", "_ui_heartbeat"):
                        facts = F.local(m, pc, rn)
                        flag = [f for f in facts if f.kind == "truthy" and f.pol and
                                isinstance(f.expr, ast.Subscript) and norm(f.expr).endswith("[0]")]
                        run.check("R2", bool(flag), f"{pc.name}.{m.name}: OK under the dongle's positive result flag",
                                  key=f"{pc.name}.{m.name}|return OK|result-flag", where=m.loc(r),
                                  message=f"{pc.name}.{m.name} returns ERROR_CODE_OK without testing the dongle "
                                          "layer's success flag (result[0])")


def _translate_dict(run, t, pc):
    """{EnumMember: int} of a `_translate_*` method's dict literal."""
    P, A = run.P, run.A
    ds = [n for n in A.own_nodes(t) if isinstance(n, ast.Dict)]
    if len(ds) != 1:
        raise AnalysisError(f"{t.qualname}: expected exactly one dict literal")
    env = {}
    for n in A.own_nodes(t):
        if isinstance(n, ast.Assign) and len(n.targets) == 1 and isinstance(n.targets[0], ast.Name):
            try:
                env[n.targets[0].id] = P.const_eval(n.value, t.module, cls=pc)
            except (Unknown, AnalysisError):
                pass
    out = {}
    for k, v in zip(ds[0].keys, ds[0].values):
        try:
            kk = P.const_eval(k, t.module, cls=pc, env=env)
            vv = unwrap(P.const_eval(v, t.module, cls=pc, env=env))
        except Unknown:
            raise AnalysisError(f"{t.qualname}: entry `{norm(k)}` not foldable")
        if not isinstance(kk, EnumMember):
            raise AnalysisError(f"{t.qualname}: key `{norm(k)}` is not an enum member")
        out[kk] = vv
    return out


def _handler_lists(run, fn, D, domain=None):
    """For each `except HSM2DongleErrorResult` handler in fn: the try body's step id and
    [(set of EnumMember listed, response member name)] plus the default response."""
    P, A = run.P, run.A
    E = ExcAnalysis(A)
    out = []
    for n in A.own_nodes(fn):
        if not isinstance(n, ast.Try):
            continue
        for h in n.handlers:
            if "HSM2DongleErrorResult" not in E.class_names_of(h.type, fn, D):
                continue
            step = None
            for st in n.body:
                for c in calls_in(st):
                    if call_name(c) == "_send_data_in_chunks":
                        step = norm(kwarg(c, "operation"))
                    elif call_name(c) == "_send_command" and step is None:
                        step = "first"
            # the handler as a table: device status -> answer, by tabulating its body over every status the enum names plus one
            # status it does not name (if-chains, `in` lists, dispatch dicts with .get / `in` + index all give the same table)
            table = None
            if h.name and domain is not None:
                OTHER = 0x6FFE
                # locals bound once, before the handler runs, to constants (named lists of status words) are part of the table's environment
                env0 = {}
                for n_ in A.own_nodes(fn):
                    if isinstance(n_, ast.Assign) and len(n_.targets) == 1 and isinstance(n_.targets[0], ast.Name) and len(defs_of(A, fn, n_.targets[0].id)) == 1:
                        try:
                            env0[n_.targets[0].id] = P.const_eval(n_.value, fn.module, cls=D)
                        except (Unknown, AnalysisError):
                            pass
                tab = tabulate(P, fn, D, h.body, [f"{h.name}.error_code"], list(domain) + [OTHER], env0=env0)

                def resp_of(o):
                    if o[0] != "return" or not isinstance(o[1], tuple) or len(o[1]) != 2:
                        return None
                    return o[1]
                table = {"other": resp_of(tab[OTHER]), "by_value": {unwrap(v): resp_of(tab[v]) for v in domain}}
            out.append({"try": n, "handler": h, "step": step, "table": table})
    return out


def _ranges(vals):
    out = []
    for v in sorted(vals):
        if out and out[-1][1] == v - 1:
            out[-1][1] = v
        else:
            out.append([v, v])
    return out


def _tables(run, fw, D, V2):
    P, A = run.P, run.A
    run.rule("R3", "(a) Python error enums equal the firmware enums (auth.h, bc_err.h) and every value "
             "satisfies is_user_defined_error; (b) for each exchange step, every error name the "
             "firmware sources of that step THROW/FAIL (protocol-state errors excepted) is listed "
             "explicitly in that step's Python table; (c) named causes compose to the documented code "
             "(spec/named_causes.json).")
    SE = P.enum_members(P.cls("ledger.hsm2dongle._SignError"))
    AE = P.enum_members(P.cls("ledger.hsm2dongle._AdvanceUpdateError"))
    c_auth = fw.file("powhsm/src/auth.h").enums().get("err_code_sign_t")
    c_bc = fw.file("powhsm/src/bc_err.h").enums().get("err_code_t")
    run.require(c_auth and c_bc, "firmware error enums not found")
    py_sign_vals = {m.value: m for m in SE.values()}
    for cname, cv in c_auth.items():
        run.check("R3", cv in py_sign_vals, f"firmware {cname}={hex(cv)} has a Python _SignError member",
                  key=f"_SignError|{cname}|missing", where="middleware/ledger/hsm2dongle.py",
                  message=f"firmware {cname} ({hex(cv)}) has no _SignError member of that value "
                          "(an auto() chain shifted?)")
    py_adv = {m.name: m.value for m in AE.values()}
    for cname, cv in c_bc.items():
        run.check("R3", py_adv.get(cname) == cv, f"_AdvanceUpdateError.{cname} == {hex(cv)}",
                  key=f"_AdvanceUpdateError|{cname}|value", where="middleware/ledger/hsm2dongle.py",
                  message=f"_AdvanceUpdateError.{cname} is {py_adv.get(cname)} but bc_err.h says {hex(cv)}")
    # is_user_defined_error on all
    isud = P.method(P.cls("ledger.hsm2dongle._Error"), "is_user_defined_error")
    param = isud.params[0]
    accepted = accepted_set(A, isud, None, param)
    run.extra["is_user_defined_error_accepts"] = [f"{hex(a)}-{hex(b)}" for a, b in _ranges(accepted)]

    def evb(_ret, code):
        return code in accepted
    # the device's own error range is 0x69A0-0x6BFF plus 0x6D00 (property C04, mechanism `status word classification`): exactly that set - one
    # status less (an exclusive upper bound) turns a device answer into an unknown error that stops the manager, one more swallows transport statuses
    want_acc = set(range(0x69A0, 0x6BFF + 1)) | {0x6D00}
    diff_ = sorted(accepted ^ want_acc)
    run.check("R3", not diff_, "is_user_defined_error accepts exactly 0x69A0-0x6BFF and 0x6D00", key="is_user_defined_error|exact-range", where=isud.loc(),
              message=f"is_user_defined_error deviates from the device error range 0x69A0-0x6BFF / 0x6D00 on {[f'{hex(a)}-{hex(b)}' for a, b in _ranges(diff_)][:4]} "
                      f"(accepts {[f'{hex(a)}-{hex(b)}' for a, b in _ranges(accepted)][:4]}): a status at the edge of the range is classified as the wrong kind of failure")
    ret = None
    allv = {**{n: v for n, v in c_auth.items()}, **{n: v for n, v in c_bc.items() if v}}
    for ecls in ("_SignError", "_GetPubKeyError", "_AdvanceUpdateError", "_UIError",
                 "_UIAttestationError", "_SignerAuthorizationError"):
        for mn, mv in P.enum_members(P.cls("ledger.hsm2dongle." + ecls)).items():
            if isinstance(mv.value, int) and mv.value:
                allv[f"{ecls}.{mn}"] = mv.value
    # apdu.h: the instruction-not-supported status is an answer of the device too
    apdu = fw.file("common/src/apdu.h").all_enum_members()
    run.require("ERR_INS_NOT_SUPPORTED" in apdu, "apdu.h: ERR_INS_NOT_SUPPORTED vanished")
    allv["apdu.h ERR_INS_NOT_SUPPORTED"] = apdu["ERR_INS_NOT_SUPPORTED"]
    # ... and what is not an answer of the device must stay outside: ledgerblue's default status word of a CommException
    # raised without one (time-outs, transport failures) and the success status
    for nm_, sw_ in (("ledgerblue CommException default status (time-outs / transport failures)", 0x6F00), ("APDU_OK", apdu.get("APDU_OK", 0x9000))):
        run.check("R3", sw_ not in accepted, f"{hex(sw_)} ({nm_}) is not classified as a device error result", key=f"is_user_defined_error|not|{hex(sw_)}",
                  where=isud.loc(), message=f"is_user_defined_error accepts {hex(sw_)} ({nm_}): a time-out or a transport failure would be reported as a device "
                  "error result (wrong reply code, no reconnection) instead of a device-unreachable answer")
    for n, v in sorted(allv.items()):
        run.check("R3", evb(ret, v), f"{n}={hex(v)} classified as a device error result",
                  key=f"is_user_defined_error|{n}", where=isud.loc(),
                  message=f"firmware error {n} ({hex(v)}) is not in the range is_user_defined_error accepts: "
                          "it would surface as a generic dongle error and stop the manager")
    # (b) throw sets per step
    EXCL = {"ERR_AUTH_INVALID_STATE", "ERR_INTERNAL"}
    step_src = {"first": "powhsm/src/auth_path.c", "self.OP.SIGN.BTC_TX": "powhsm/src/auth_tx.c",
                "self.OP.SIGN.TX_RECEIPT": "powhsm/src/auth_receipt.c",
                "self.OP.SIGN.MERKLE_PROOF": "powhsm/src/auth_trie.c"}
    for mname in ("sign_authorized", "sign_unauthorized"):
        fn = P.method(D, mname)
        hl = _handler_lists(run, fn, D, list(SE.values()))
        run.floor("R3", f"ErrorResult handlers in {mname}", len(hl), 4 if mname == "sign_authorized" else 1)
        for h in hl:
            src = step_src.get(h["step"])
            run.require(src is not None, f"{mname}: step `{h['step']}` not understood")
            thrown = set(fw.file(src).macro_args("THROW")) - EXCL
            need = {c_auth[n] for n in thrown if n in c_auth}
            for n in thrown:
                run.require(n in c_auth, f"{src}: THROW({n}) is not in err_code_sign_t")
            run.require(h["table"] is not None and h["table"]["other"] is not None, f"{mname}: step `{h['step']}` handler does not answer a (bool, code) pair")
            # a status is handled explicitly when its answer is not the one every unlisted status gets
            handled = {v for v, r in h["table"]["by_value"].items() if r is not None and r != h["table"]["other"]}
            for n in sorted(thrown):
                pym = py_sign_vals.get(c_auth[n])
                run.check("R3", c_auth[n] in handled,
                          f"{mname} step {h['step']}: firmware {n} handled explicitly",
                          key=f"HSM2Dongle.{mname}|{h['step']}|{n}|unmapped", where=fn.loc(h["handler"]),
                          message=f"{src} can THROW({n}) = {hex(c_auth[n])} at this step, but the step's "
                                  f"status list in {mname} omits {'ERR.SIGN.' + pym.name if pym else hex(c_auth[n])}: "
                                  "the client gets the 'unexpected' code instead of the documented one")
    for mname, csrc in (("advance_blockchain", "powhsm/src/bc_advance.c"),
                        ("update_ancestor", "powhsm/src/bc_ancestor.c")):
        fn = P.method(D, mname)
        dicts = [n for n in A.own_nodes(fn) if isinstance(n, ast.Dict) and len(n.keys) > 5]
        run.require(len(dicts) == 1, f"{mname}: chunk error mapping dict not found")
        env = {}
        for n in A.own_nodes(fn):
            if isinstance(n, ast.Assign) and len(n.targets) == 1 and isinstance(n.targets[0], ast.Name):
                try:
                    env[n.targets[0].id] = P.const_eval(n.value, fn.module, cls=D)
                except (Unknown, AnalysisError):
                    pass
        mapping = {}
        for k, v in zip(dicts[0].keys, dicts[0].values):
            kk = P.const_eval(k, fn.module, cls=D, env=env)
            vv = P.const_eval(v, fn.module, cls=D, env=env)
            mapping[kk.name] = vv.name
        failed = set(fw.file(csrc).macro_args("FAIL"))
        special = {"PROT_INVALID", "BROTHERS_TOO_MANY"}
        for n in sorted(failed):
            run.require(n in c_bc, f"{csrc}: FAIL({n}) not in err_code_t")
            run.check("R3", n in mapping or n in special, f"{mname}: firmware FAIL({n}) mapped explicitly",
                      key=f"HSM2Dongle.{mname}|chunk_error_mapping|{n}|unmapped", where=fn.loc(dicts[0]),
                      message=f"{csrc} can FAIL({n}) but {mname}'s chunk_error_mapping has no entry for it: "
                              "the client gets the 'unexpected' code")
        run.extra.setdefault("throw_sets", {})[mname] = sorted(failed)
        fn._c04_mapping = mapping
    # (c) named causes
    with open(SPEC) as f:
        spec = json.load(f)
    tr = {}
    for tname in ("_translate_advance_result", "_translate_update_ancestor_result", "_translate_sign_error"):
        tr[tname] = {k.name: v for k, v in _translate_dict(run, P.method(V2, tname), V2).items()}
    for ent in spec["block_operations"]:
        fn = P.method(D, ent["method"])
        mapping = fn._c04_mapping
        t = tr[ent["translate"]]
        for cause, code in ent["causes"].items():
            resp = mapping.get(cause)
            got = t.get(resp) if resp else None
            run.check("R3", got == code, f"{ent['method']}: {cause} -> {resp} -> {code}",
                      key=f"named-cause|{ent['method']}|{cause}", where=fn.loc(),
                      message=f"{ent['method']}: firmware {cause} maps to {resp} and then to {got}; "
                              f"the documentation names {code} for this cause ({ent.get('cites', '')})")
    for ent in spec["sign"]:
        fn = P.method(D, ent["method"])
        hl = _handler_lists(run, fn, D, list(SE.values()))
        t = tr["_translate_sign_error"]
        for cause, code in ent["causes"].items():
            run.require(cause in c_auth, f"spec names unknown firmware error {cause}")
            val = c_auth[cause]
            for h in hl:
                if h["step"] != ent["step"]:
                    continue
                resp = h["table"]["by_value"].get(val, h["table"]["other"])
                rname = resp[1].name if resp is not None and isinstance(resp[1], EnumMember) else "?"
                got = t.get(rname)
                run.check("R3", got == code, f"{ent['method']} {ent['step']}: {cause} -> {rname} -> {code}",
                          key=f"named-cause|{ent['method']}|{ent['step']}|{cause}", where=fn.loc(h["handler"]),
                          message=f"{ent['method']} step {ent['step']}: firmware {cause} is answered "
                                  f"{rname} -> {got}; the documentation names {code} for this cause")
