"""C16 - loading an attestation file always terminates with a usable verdict."""
import ast
import re
from sa.model import AnalysisError, Unknown, norm, unwrap
from sa.query import Facts, call_name, find_calls, try_fold, calls_in, defs_of
from sa.prov import Prov
from .c06 import _strip, _block_of
from . import c06
from sa.decide import Walker, completions, cmp_parts
from sa.canon import canon_list

TECHNIQUE = ('loop templates decided on the decision table of one iteration (cycle guard, strictly growing visited '
             'set / strictly consumed chain; shared chain-walk tables), loop census by source location, '
             'guards-before-use by must-facts with local names expanded, closed-world field conditions of the '
             'constructors, no-escape rule for is_valid, writer/reader inverse-pair check between every element '
             "class's constructor and its to_dict via provenance expansion")
EXPLANATION = (
    "Static analysis of /repo's current source (nothing executed). Decides: every unbounded loop of "
    "certificate_v1.py has a terminating template - the parse walk raises on a repeated element name, "
    "records each visited name before following signed_by, and raises on a dangling signer; the "
    "validation walk breaks or pops a chain that is not extended in the loop; the climb follows the "
    "map the parse certified; targets and signers are checked before being used as keys; unknown "
    "versions and element types and missing fields raise ValueError; for each element class to_dict "
    "emits exactly the keys the constructor reads, each value being the inverse encoding of what the "
    "constructor stored (identity, hex, base64, equal P-256 key), so that save+load restores the "
    "stored values. Does not decide a wall-clock bound."
)

INVERSE = [
    # (decoder pattern over M = element_map[key], encoder pattern over F = stored field)
    ("M", "F"),
    ("bytes.fromhex(M)", "F.hex()"),
    ("base64.b64decode(M)", "base64.b64encode(F).decode('ASCII')"),
]


def run(run):
    P, A = run.P, run.A
    F = Facts(A)
    PV = Prov(A)
    C = P.cls("admin.certificate_v1.HSMCertificate")
    _loops(run, F, PV, C)
    _guards(run, F, PV, C)
    _roundtrip(run, PV)


def _loops(run, F, PV, C):
    P, A = run.P, run.A
    run.rule("R1", "Loop templates, decided on the decision table of one iteration (any surface shape). _parse walk, with SEEN = "
             "cur.name in visited, ROOT = cur.signed_by == ROOT_ELEMENT, HAS = cur.signed_by in self._elements: SEEN -> raise "
             "ValueError; not SEEN and ROOT -> leave; not SEEN, not ROOT, not HAS -> raise ValueError; otherwise "
             "visited.append(cur.name) then cur = self._elements[cur.signed_by] and next iteration (so visited grows by a new name "
             "each time: at most one iteration per element); per target visited = [] and cur = self._elements[target] under "
             "target in self._elements. The two loops of validate_and_get_values follow the tables of rule W.R1 (climb: leaves at the "
             "root or pushes and steps along the map _parse certified; validation: leaves or pops the chain, which it never "
             "extends). Every other `while` in the certificate modules is a violation (no termination template).")
    parse = P.method(C, "_parse")
    g = A.cfg(parse, C)
    tl = [n for n in A.own_nodes(parse) if isinstance(n, ast.For) and norm(n.iter) == "self._targets" and isinstance(n.target, ast.Name)]
    run.require(len(tl) == 1, "_parse: the sanity loop over self._targets vanished (idiom not understood)")
    tloop = tl[0]
    TGT = tloop.target.id
    whiles = [n for n in A.own_nodes(parse) if isinstance(n, ast.While) and any(n is x for x in ast.walk(tloop))]
    run.require(len(whiles) == 1, f"_parse: expected one walk loop inside the target loop, found {len(whiles)} (idiom not understood)")
    w = whiles[0]
    head, after = c06._while_nodes(g, w)
    run.require(head is not None, "_parse: walk loop structure not understood")
    steps = [n for n in ast.walk(w) if isinstance(n, ast.Assign) and len(n.targets) == 1 and isinstance(n.targets[0], ast.Name)
             and isinstance(n.value, ast.Subscript) and norm(n.value.value) == "self._elements"]
    run.require(len(steps) >= 1, "_parse: the walk step over self._elements vanished (idiom not understood)")
    X = steps[0].targets[0].id
    state = {}

    def atom(e):
        cp = cmp_parts(e)
        if cp is None:
            return None
        l, op, r = cp
        lt, rt = norm(l), norm(r)
        if op in ("in", "not in") and lt == f"{X}.name" and isinstance(r, ast.Name):
            if state.setdefault("VIS", r.id) == r.id:
                return ("SEEN", op == "in")
        if op in ("in", "not in") and lt == f"{X}.signed_by" and rt == "self._elements":
            return ("HAS", op == "in")
        if op in ("==", "!=") and {lt, rt} == {f"{X}.signed_by", "self.ROOT_ELEMENT"}:
            return ("ROOT", op == "==")
        return None
    atoms = ["SEEN", "ROOT", "HAS"]
    n_cases = 0
    # what leaving the loop leads to counts: the walk goes on past the loop up to the next target (`while not seen: ...` followed by the raise
    # is the cycle guard just as well as a raise inside the loop)
    for lf in Walker(A, parse, C, atom, stop_at_for=True).walk(head, stops={head}):
        kind = "next" if lf.kind == "stop" and lf.node is head else ("leave" if lf.kind == "stop" else lf.kind)
        # the record of visited names: a list grown by append, or a set grown by add
        pushes = [v for k, st, v in lf.effects if k == "expr" and isinstance(v, ast.Call) and call_name(v) in ("append", "add") and isinstance(v.func.value, ast.Name)]
        for p_ in pushes:
            state.setdefault("PUSH", p_.func.attr)
        for v in completions({k: b for k, b in lf.pc.items() if k in atoms}, atoms):
            n_cases += 1
            desc = ", ".join(f"{a}={'T' if v[a] else 'F'}" for a in atoms)
            if v["SEEN"] and v["ROOT"]:
                want = ("raise", "leave")     # cannot happen: an element signed by the root is never stepped from
            elif v["SEEN"]:
                want = ("raise",)
            elif v["ROOT"]:
                want = ("leave",)
            elif not v["HAS"]:
                want = ("raise",)
            else:
                want = ("next",)
            keyk = {("raise",): "cycle-guard" if v["SEEN"] else "dangling-guard", ("leave",): "root-exit", ("next",): "step", ("raise", "leave"): "cycle-guard"}[want]
            run.check("R1", kind in want, f"[{desc}] -> {'/'.join(want)}", key=f"HSMCertificate._parse|{keyk}|{desc}", where=parse.loc(w),
                      message=f"parse walk, case [{desc}] (SEEN: element already visited, ROOT: signed by the root, HAS: signer among the elements): the loop does "
                              f"`{kind}`, the template requires `{'/'.join(want)}`" + (": a signer cycle that does not include the target makes loading loop forever"
                                                                                      if v["SEEN"] else ""))
            if kind == "raise" and "raise" in want and lf.value is not None:
                run.check("R1", isinstance(lf.value, ast.Call) and norm(lf.value.func) == "ValueError", "the walk fails with ValueError",
                          key="HSMCertificate._parse|raise-type", where=parse.loc(lf.node.ast), message=f"the parse walk raises `{norm(lf.value)[:50]}`, not a ValueError")
            if kind == "next" and want == ("next",):
                VIS = state.get("VIS")
                okp = len(pushes) == 1 and VIS is not None and pushes[0].func.value.id == VIS and len(pushes[0].args) == 1 \
                    and norm(pushes[0].args[0]) == f"{X}.name" and pushes[0].func.attr == state.get("PUSH")
                run.check("R1", okp, "each visited element is recorded before stepping", key="HSMCertificate._parse|visited-append", where=parse.loc(w),
                          message=f"the parse walk steps having recorded {[norm(p) for p in pushes]} (expected `{VIS}.append({X}.name)` of the element being left): the "
                                  "cycle guard can never fire for that element")
                step = lf.env.get(X, lf.bind.get(X))
                run.check("R1", step is not None and norm(step) == f"self._elements[{X}.signed_by]", "walk step follows signed_by", key="HSMCertificate._parse|step",
                          where=parse.loc(w), message=f"the parse walk steps to `{norm(step) if step is not None else X}`, not to `self._elements[{X}.signed_by]`")
                muts = [norm(vv)[:40] for k, st, vv in lf.effects if k == "expr" and isinstance(vv, ast.Call) and isinstance(vv.func, ast.Attribute)
                        and isinstance(vv.func.value, ast.Name) and vv.func.value.id == VIS and vv.func.attr != state.get("PUSH", "append")]
                run.check("R1", not muts and VIS not in lf.env and VIS not in lf.bind, "visited only grows", key="HSMCertificate._parse|visited-mutations",
                          where=parse.loc(w), message=f"`{VIS}` is modified by something other than {state.get('PUSH', 'append')} ({muts})")
    run.floor("R1", "parse-walk decision cases", n_cases, 8)
    VIS = state.get("VIS")
    if VIS is None:
        run.check("R1", False, "the walk keeps a record of visited elements", key="HSMCertificate._parse|cycle-guard|absent", where=parse.loc(w),
                  message="the parse walk never tests `<element>.name in <visited>`: a signer cycle makes loading loop forever")
        VIS = "visited"
    fh = [n for n in g.nodes if n.kind == "for" and n.ast is tloop]
    ft = [n for n in g.nodes if n.kind == "T" and n.note == "has-item" and n.cond in fh]
    run.require(len(ft) == 1, "_parse: target loop structure not understood")

    def atom0(e):
        cp = cmp_parts(e)
        if cp is not None and cp[1] in ("in", "not in") and norm(cp[0]) == TGT and norm(cp[2]) == "self._elements":
            return ("INEL", cp[1] == "in")
        return None
    for lf in Walker(A, parse, C, atom0).walk(ft[0], stops={head}):
        if lf.kind == "raise":
            continue
        run.check("R1", lf.kind == "stop", "every target reaches the walk or is rejected", key="HSMCertificate._parse|init|reaches-walk", where=parse.loc(tloop),
                  message=f"for some target _parse does `{lf.kind}` at line {lf.node.lineno} before the sanity walk")
        if lf.kind != "stop":
            continue
        run.check("R1", lf.pc.get("INEL") is True, "target checked before indexing", key="HSMCertificate._parse|target-guard", where=parse.loc(tloop),
                  message="a target that is not among the elements is indexed without a check")
        for nm, want in ((VIS, "set()" if state.get("PUSH") == "add" else "[]"), (X, f"self._elements[{TGT}]")):
            got = lf.env.get(nm, lf.bind.get(nm))
            run.check("R1", got is not None and norm(got) == want, f"`{nm} = {want}` for every target",
                      key=f"HSMCertificate._parse|{'visited' if nm == VIS else 'current'}-init", where=parse.loc(),
                      message=f"`{nm}` is `{norm(got) if got is not None else 'left over from the previous target'}` when the walk of a target starts, not `{want}`")
    # the two loops of validate_and_get_values: shared tables
    run.rid_prefix = "W."
    try:
        c06.chain_walk(run, F, PV, C)
    finally:
        run.rid_prefix = ""
    val = P.method(C, "validate_and_get_values")
    # _parse is the only loader and runs in the constructor
    ini = P.method(C, "__init__")
    pc = find_calls(A, ini, "_parse")
    run.check("R1", len(pc) == 1, "constructor parses the given map", key="HSMCertificate.__init__|_parse", where=ini.loc(),
              message="HSMCertificate.__init__ no longer calls _parse on the certificate map")
    # loop census by source location (inlined copies keep the location of their original)
    known_loc = {(parse.module.name, w.lineno, w.col_offset)}
    for l in [n for n in A.own_nodes(val) if isinstance(n, ast.While)]:
        known_loc.add((val.module.name, l.lineno, l.col_offset))
    for modname in ("admin.certificate_v1", "admin.certificate_v2", "admin.certificate"):
        mod = P.module(modname)
        for n in ast.walk(mod.tree):
            if isinstance(n, ast.While) and (modname, n.lineno, n.col_offset) not in known_loc:
                run.fail("R1", f"{modname}|while@{n.lineno}", f"{mod.relpath}:{n.lineno}",
                         f"{modname} has a `while` loop at line {n.lineno} that is none of the three loops with a termination template")
        run.ok("R1", f"{modname}: known loops only", mod.relpath)


# fields every element constructor requires (rule R2 checks that each is guarded; rule R3 that to_dict always writes them)
REQUIRED_FIELDS = {
    "admin.certificate_v1.HSMCertificateElement": ["name", "signed_by", "message", "signature"],
    "admin.certificate_v2.HSMCertificateV2ElementSGXQuote": ["name", "signed_by", "message", "custom_data", "signature"],
    "admin.certificate_v2.HSMCertificateV2ElementSGXAttestationKey": ["name", "signed_by", "message", "key", "auth_data", "signature"],
    "admin.certificate_v2.HSMCertificateV2ElementX509": ["name", "signed_by", "message"],
}


def _guards(run, F, PV, C):
    P, A = run.P, run.A
    run.rule("R2", "Guards before use (facts compared with local names expanded and `not (a == b)` folded): from_jsonfile builds a "
             "certificate only when the document is a dict with a supported version; _parse completes only when the version "
             "matches, targets is a list and elements is present; each element constructor completes only when every field it "
             "reads was checked; v2 from_dict dispatches only on a checked element type.")
    parse = P.method(C, "_parse")
    ef = F.exit_texts(parse, C, PV)
    for want in ("certificate_map.get('version') == self.VERSION", "'targets' in certificate_map", "type(certificate_map['targets']) == list",
                 "'elements' in certificate_map"):
        run.check("R2", want in ef, f"_parse requires `{want}`", key=f"HSMCertificate._parse|requires|{want}",
                  where=parse.loc(), message=f"_parse can complete without `{want}`")
    fj = P.method(C, "from_jsonfile")
    gj = A.cfg(fj, C)
    cmv = None
    for r in [n for n in A.own_nodes(fj) if isinstance(n, ast.Return)]:
        for rn in gj.nodes_of(r):
            facts = F.expanded(fj, C, rn, PV, stop=("certificate_map",))
            for want in ("type(certificate_map) == dict", "certificate_map.get('version') in cls.VERSION_MAPPING"):
                run.check("R2", want in facts, f"from_jsonfile requires `{want}`", key=f"HSMCertificate.from_jsonfile|requires|{want}",
                          where=fj.loc(r), message=f"from_jsonfile can build a certificate without `{want}`")
    vm = P.class_const(C, "VERSION_MAPPING")
    run.check("R2", isinstance(vm, dict) and {k: v.cls.name for k, v in vm.items()} == {1: "HSMCertificate", 2: "HSMCertificateV2"},
              "VERSION_MAPPING == {1: v1, 2: v2}", key="HSMCertificate.VERSION_MAPPING|table", where="middleware/admin/certificate.py",
              message=f"VERSION_MAPPING is {vm}")
    EL = P.cls("admin.certificate_v2.HSMCertificateV2Element")
    fd = P.method(EL, "from_dict")
    gf = A.cfg(fd, EL)
    for r in [n for n in A.own_nodes(fd) if isinstance(n, ast.Return)]:
        for rn in gf.nodes_of(r):
            facts = F.expanded(fd, EL, rn, PV)
            run.check("R2", "element_map.get('type') in cls.TYPE_MAPPING" in facts, "unknown element types rejected",
                      key="HSMCertificateV2Element.from_dict|type-guard", where=fd.loc(r),
                      message="from_dict dispatches on an element type it did not check")
    # required fields per class: every key read by the constructor is guarded by a raise
    for cname, keys in sorted(REQUIRED_FIELDS.items()):
        ci = P.cls(cname)
        ini = P.method(ci, "__init__")
        ef = " ; ".join(sorted(F.exit_texts(ini, ci, PV)))
        gi = A.cfg(ini, ci)
        # a raise guarded by `<field> is not valid hex` (possibly together with `<field> != ''` for a field that may be empty)
        rejecting = set()
        fns_ = [ini] + [m for c_ in ci.mro() for nm_, m in c_.methods.items() if nm_ == "_init_with_map"][:1]
        for f_ in fns_:
          gi = A.cfg(f_, ci)
          for r in [n for n in A.own_nodes(f_) if isinstance(n, ast.Raise)]:
            for rn in gi.nodes_of(r):
                for t in F.expanded(f_, ci, rn, PV):
                    m = re.fullmatch(r"not is_nonempty_hex_string\(element_map(?:\.get\('(\w+)'\)|\['(\w+)'\])\)", t)
                    if m:
                        rejecting.add(m.group(1) or m.group(2))
        for k in keys:
            ok = (f"'{k}' in element_map" in ef) or (f"is_nonempty_hex_string(element_map.get('{k}'))" in ef) \
                or (f"is_nonempty_hex_string(element_map['{k}'])" in ef) or (k == "message" and "X509" in cname) or k in rejecting
            run.check("R2", ok, f"{ci.name}: `{k}` required", key=f"{ci.name}.__init__|requires|{k}", where=ini.loc(),
                      message=f"{ci.name} can be constructed from a map without a valid `{k}`")
        # closed world: no condition on a field beyond the ones the writer guarantees (to_dict output must load again)
        allowed = re.compile(r"^('(\w+)' in element_map|is_nonempty_hex_string\(element_map(\.get\('\w+'\)|\['\w+'\])\)|element_map\['name'\] in self\.VALID_NAMES"
                             r"|element_map\.get\('auth_data'\) != ''|not element_map\.get\('auth_data'\) == '')$")
        extra = sorted(t for t in F.exit_texts(ini, ci, PV) if "element_map" in t and not allowed.match(t) and not t.startswith("$"))
        run.check("R2", not extra, f"{ci.name}: no further conditions on the fields", key=f"{ci.name}.__init__|extra-conditions", where=ini.loc(),
                  message=f"{ci.name} additionally requires {extra[:2]}: a value that to_dict() can emit (e.g. an empty re-encoding) may be rejected when "
                          "the saved file is loaded again")
        iv = P.method(ci, "is_valid")
        giv = A.cfg(iv, ci)
        run.check("R2", giv.raise_exit not in giv.reachable(giv.entry), f"{ci.name}.is_valid never raises (the verdict is a value)",
                  key=f"{ci.name}.is_valid|raises", where=iv.loc(),
                  message=f"an exception can escape {ci.name}.is_valid: validate_and_get_values would raise instead of reporting (False, <element>)")
        if "X509" in cname:
            iw = P.method(ci, "_init_with_map")
            tr = [n for n in A.own_nodes(iw) if isinstance(n, ast.Try)]
            ok = len(tr) == 1 and any(isinstance(x, ast.Raise) for h in tr[0].handlers for x in ast.walk(h))
            run.check("R2", ok, "x509: undecodable message raises ValueError", key="X509._init_with_map|b64-guard",
                      where=iw.loc(), message="x509 element: base64 decoding errors are not turned into ValueError")


def _ctor_reads(run, ci, PV=None):
    """{key: (decoder pattern with M, stored field)} from `self._f = dec(element_map[...])`."""
    P, A = run.P, run.A
    out = {}
    for mname in ("__init__", "_init_with_map"):
        for c in ci.mro():
            m = c.methods.get(mname)
            if m is None:
                continue
            gm_ = A.cfg(m, ci)
            for n in A.own_nodes(m):
                if isinstance(n, ast.Assign) and len(n.targets) == 1 and isinstance(n.targets[0], ast.Attribute) \
                        and norm(n.targets[0].value) == "self":
                    fld = n.targets[0].attr
                    src = norm(n.value)
                    if PV is not None and "element_map" not in src:
                        # the stored value held in a temporary: what the temporary stands for at the store
                        xs = {x for nn in gm_.nodes_of(n) for x in PV.expand_consistent(m, ci, n.value, nn, stop=("element_map",))}
                        # (an optional field starts as None and takes the map's value when present: the variant that reads the map is the field's source)
                        xs = {x for x in xs if "element_map" in x} or xs
                        if len(xs) == 1:
                            src = next(iter(xs))
                    mm = re.search(r"element_map(?:\[['\"](\w+)['\"]\]|\.get\(['\"](\w+)['\"]\))", src)
                    if mm:
                        key = mm.group(1) or mm.group(2)
                        pat = re.sub(r"element_map(?:\[['\"]\w+['\"]\]|\.get\(['\"]\w+['\"]\))", "M", src)
                        out[key] = (pat, fld)
    return out


def _roundtrip(run, PV):
    P, A = run.P, run.A
    run.rule("R3", "Round trip: per element class, to_dict() emits exactly the keys the constructor reads "
             "(plus the constant `type` of its TYPE_MAPPING entry) and each value is the inverse encoding of the "
             "stored field: identity, bytes.fromhex/.hex(), b64decode/b64encode(..).decode('ASCII'), or the "
             "uncompressed form of the same P-256 key; a slice, a re-parse through a fixed-size struct or "
             "another attribute is a violation. Certificate.to_dict emits version, targets and all elements.")
    EL = P.cls("admin.certificate_v2.HSMCertificateV2Element")
    tm = P.class_const(EL, "TYPE_MAPPING")
    tname = {v.cls.qualname: k for k, v in tm.items()}
    classes = ["admin.certificate_v1.HSMCertificateElement", "admin.certificate_v2.HSMCertificateV2ElementSGXQuote",
               "admin.certificate_v2.HSMCertificateV2ElementSGXAttestationKey", "admin.certificate_v2.HSMCertificateV2ElementX509"]
    npairs = 0
    for cq in classes:
        ci = P.cls(cq)
        reads = _ctor_reads(run, ci, PV)
        td = P.method(ci, "to_dict")
        g = A.cfg(td, ci)
        emitted = {}
        dicts = [n for n in A.own_nodes(td) if isinstance(n, ast.Dict)]
        run.require(len(dicts) >= 1, f"{ci.name}.to_dict: dict literal not found")
        by_path = len(dicts) != 1
        if by_path:
            # several displays (early return of the mandatory part, `{**base, k: v}` ...): what each returning path hands out, key by key
            emitted, cond_keys = _returned_dicts(run, td, ci)
            for kname, conds_ in sorted(cond_keys.items()):
                req_ = kname in REQUIRED_FIELDS.get(cq, ())
                run.check("R3", not req_, f"{ci.name}.to_dict: `{kname}` is always written or optional for the loader", key=f"{ci.name}.to_dict|{kname}|conditional",
                          where=td.loc(), message=f"{ci.name}.to_dict writes `{kname}` only when {conds_[:2]}, but the constructor requires the field: a certificate that "
                          "loads (and validates) cannot be loaded again after it is saved")
        else:
            for k, v in zip(dicts[0].keys, dicts[0].values):
                emitted[k.value] = v
        F_ = Facts(A)
        for n in (A.own_nodes(td) if not by_path else ()):        # result["tweak"] = self.tweak
            if isinstance(n, ast.Assign) and isinstance(n.targets[0], ast.Subscript) \
                    and isinstance(n.targets[0].slice, ast.Constant):
                emitted[n.targets[0].slice.value] = n.value
                # a key written only under a condition is sometimes missing from the saved file: fine for a field the loader treats as optional,
                # a load error after save for one it requires
                conds_ = [f.text() for sn_ in g.nodes_of(n) for f in F_.local(td, ci, sn_)]
                kname = n.targets[0].slice.value
                req_ = kname in REQUIRED_FIELDS.get(cq, ())
                run.check("R3", not (conds_ and req_), f"{ci.name}.to_dict: `{kname}` is always written or optional for the loader", key=f"{ci.name}.to_dict|{kname}|conditional",
                          where=td.loc(n), message=f"{ci.name}.to_dict writes `{kname}` only when {conds_[:2]}, but the constructor requires the field: a certificate that "
                          "loads (and validates) cannot be loaded again after it is saved")
        want_keys = set(reads) | ({"type"} if cq in tname else set())
        run.check("R3", set(emitted) == want_keys, f"{ci.name}.to_dict keys == constructor keys",
                  key=f"{ci.name}.to_dict|keys", where=td.loc(),
                  message=f"{ci.name}.to_dict emits {sorted(emitted)} but the constructor reads {sorted(want_keys)}")
        for key, vexpr in sorted(emitted.items()):
            npairs += 1
            if key == "type":
                okt_, tv_ = try_fold(P, vexpr, td, ci)       # a literal, or a constant of the class (self.ELEMENT_TYPE)
                run.check("R3", okt_ and isinstance(tv_, str) and tv_ == tname.get(cq),
                          f"{ci.name}.to_dict type == '{tname.get(cq)}'", key=f"{ci.name}.to_dict|type", where=td.loc(),
                          message=f"{ci.name}.to_dict writes type `{norm(vexpr)}`, loader maps `{tname.get(cq)}` to this class")
                continue
            if key not in reads:
                continue
            dec, fld = reads[key]
            # a value prepared in a local (`k = self.key.to_string(..)` ... `"key": k.hex()`) is the expression behind it
            vexp_ = vexpr
            if any(isinstance(x, ast.Name) and x.id != "self" for x in ast.walk(vexpr)):
                for dn_ in g.nodes_of(vexpr):
                    try:
                        xs_ = PV.expand(td, ci, vexpr, dn_)
                    except AnalysisError:
                        xs_ = set()
                    if len(xs_) == 1:
                        try:
                            vexp_ = ast.parse(next(iter(xs_)), mode="eval").body
                        except SyntaxError:
                            pass
                    break
            enc = _inline_props(run, ci, vexp_)
            ok = False
            for dpat, epat in INVERSE:
                if dec == dpat and _strip(enc) == _strip(epat.replace("F", f"self.{fld}")):
                    ok = True
            if not ok and dec == "bytes.fromhex(M)" and _strip(enc) == _strip(
                    f"ecdsa.VerifyingKey.from_string(self.{fld}, ecdsa.NIST256p).to_string('uncompressed').hex()"):
                ok = True    # same key, canonical uncompressed encoding
                # ... which changes the stored bytes (a compressed key comes back uncompressed): the verdict is the same after a reload only if nothing looks
                # at the raw stored bytes - every read of the field goes through the parsed key
                parsed = _strip(f"ecdsa.VerifyingKey.from_string(self.{fld}, ecdsa.NIST256p)")
                for mname_, m_ in sorted(ci.methods.items()):
                    par_ = {}
                    for n_ in ast.walk(m_.node):
                        for ch in ast.iter_child_nodes(n_):
                            par_[id(ch)] = n_
                    for n_ in A.own_nodes(m_):
                        if isinstance(n_, ast.Attribute) and isinstance(n_.ctx, ast.Load) and n_.attr == fld and isinstance(n_.value, ast.Name) and n_.value.id == "self":
                            up = par_.get(id(n_))
                            okp = isinstance(up, ast.Call) and _strip(norm(up)) == parsed
                            run.check("R3", okp, f"{ci.name}.{mname_}: self.{fld} is only read as the parsed key", key=f"{ci.name}.{mname_}|raw-read|{fld}", where=m_.loc(n_),
                                      message=f"{ci.name}.{mname_} reads the raw bytes of self.{fld} (`{norm(up)[:70] if up is not None else fld}`), but to_dict() saves that field "
                                              "re-encoded (uncompressed): a certificate whose key was given in another encoding gets a different verdict / value after it is "
                                              "saved and loaded again")
            run.check("R3", ok, f"{ci.name}: `{key}` re-encoded as the inverse of how it was read",
                      key=f"{ci.name}.to_dict|{key}|not-inverse", where=td.loc(),
                      message=f"{ci.name}: constructor stores `{key}` as self.{fld} = {dec.replace('M', 'map[' + repr(key) + ']')} "
                              f"but to_dict writes `{enc}`: saving and re-loading does not restore the stored value "
                              "(e.g. a truncating slice drops trailing bytes, changing the verdict)")
    run.floor("R3", "to_dict fields checked", npairs, 18)
    C = P.cls("admin.certificate_v1.HSMCertificate")
    td = P.method(C, "to_dict")
    d = [n for n in A.own_nodes(td) if isinstance(n, ast.Dict)][0]
    got = {k.value: norm(v) for k, v in zip(d.keys, d.values)}
    for k, v in zip(d.keys, d.values):
        if k.value == "elements":
            cl_ = canon_list(v)
            got["elements"] = " + ".join(cl_) if cl_ is not None else norm(v)
    run.check("R3", got == {"version": "self.VERSION", "targets": "self._targets",
                            "elements": "map(ELEM(self._elements.values()).to_dict())"},
              "certificate to_dict emits version, targets and every element", key="HSMCertificate.to_dict|shape",
              where=td.loc(), message=f"HSMCertificate.to_dict is {got}")
    sv = P.method(C, "save_to_jsonfile")
    dumps = [n for n in A.own_nodes(sv) if isinstance(n, ast.Call) and call_name(n) == "dumps"]
    run.check("R3", len(dumps) == 1 and norm(dumps[0].args[0]) == "self.to_dict()", "save writes to_dict()",
              key="HSMCertificate.save_to_jsonfile|source", where=sv.loc(), message="save_to_jsonfile does not write to_dict()")
    V2 = P.cls("admin.certificate_v2.HSMCertificateV2")
    run.check("R3", P.class_const(V2, "VERSION") == 2 and P.class_const(C, "VERSION") == 1, "VERSION constants 1 / 2",
              key="VERSION|constants", where=V2.module.relpath, message="certificate VERSION constants changed")


def _returned_dicts(run, td, ci):
    """to_dict decided path by path: ({key: value expression}, {key written on some paths only: the conditions of a path that writes it})."""
    from sa.decide import Walker
    A = run.A
    g = A.cfg(td, ci)

    def model(lf, e, depth=0):
        if depth > 6:
            return None
        if isinstance(e, ast.Name):
            base = lf.env.get(e.id, lf.bind.get(e.id))
            m = model(lf, base, depth + 1) if base is not None else None
            if m is None:
                return None
            for k, st, v in lf.effects:
                if k == "assign" and len(st.targets) == 1 and isinstance(st.targets[0], ast.Subscript) and isinstance(st.targets[0].value, ast.Name) \
                        and st.targets[0].value.id == e.id:
                    if not (isinstance(st.targets[0].slice, ast.Constant) and isinstance(st.targets[0].slice.value, str)):
                        return None
                    m[st.targets[0].slice.value] = v
            return m
        if isinstance(e, ast.Dict):
            m = {}
            for k, v in zip(e.keys, e.values):
                if k is None:
                    sub = model(lf, v, depth + 1)
                    if sub is None:
                        return None
                    m.update(sub)
                elif isinstance(k, ast.Constant) and isinstance(k.value, str):
                    m[k.value] = v
                else:
                    return None
            return m
        return None
    leaves = [lf for lf in Walker(A, td, ci, lambda e: None).walk(g.entry) if lf.kind == "return"]
    run.require(leaves, f"{ci.name}.to_dict: no returning path")
    models = []
    for lf in leaves:
        m = model(lf, lf.node.ast.value)
        run.require(m is not None, f"{ci.name}.to_dict: the returned dictionary of the path ending at line {lf.node.lineno} is not a display / spread / keyed stores (idiom not understood)")
        models.append((lf, {k: lf.deep(v) for k, v in m.items()}))
    emitted, cond = {}, {}
    for lf, m in models:
        for k, v in m.items():
            if k in emitted:
                run.require(norm(emitted[k]) == norm(v), f"{ci.name}.to_dict: `{k}` is written as `{norm(emitted[k])[:50]}` on one path and `{norm(v)[:50]}` on another (idiom not understood)")
            else:
                emitted[k] = v
    for k in emitted:
        if any(k not in m for lf, m in models):
            cond[k] = sorted({(t[1:] if isinstance(t, str) and t.startswith("?") else str(t)) + ("" if b else " is false") for lf, m in models if k in m for t, b in lf.pc.items()})
    return emitted, cond


def _inline_props(run, ci, e, depth=0):
    """Replace `self.<property>` by the property's returned expression."""
    P, A = run.P, run.A
    if depth > 3:
        return norm(e)
    s = norm(e)

    def repl(m):
        r = ci.lookup(m.group(1))
        if r is not None and r[1] == "method" and r[2].is_property:
            rets = [n for n in A.own_nodes(r[2]) if isinstance(n, ast.Return)]
            if len(rets) == 1:
                return "(" + _inline_props(run, ci, rets[0].value, depth + 1) + ")"
        return m.group(0)
    return re.sub(r"\bself\.(\w+)\b(?!\()", repl, s)
