"""C16 - loading an attestation file always terminates with a usable verdict."""
import ast
import re
from sa.model import AnalysisError, Unknown, norm, unwrap
from sa.query import Facts, call_name, find_calls, try_fold, calls_in, defs_of
from sa.prov import Prov
from .c06 import _strip, _block_of

TECHNIQUE = ("loop-template rules (cycle guard, strictly growing visited set / strictly consumed chain) "
             "by dominance inside each iteration, guards-before-use by dominance, writer/reader inverse-pair "
             "check between every element class's constructor and its to_dict via provenance expansion")
EXPLANATION = (
    "Static analysis of /repo's current source (nothing executed). Decides: every unbounded loop of "
    "certificate_v1.py has a terminating template - the parse walk raises on a repeated element name, "
    "records each visited name before following signed_by, and raises on a dangling signer; the "
    "validation walk breaks or pops a chain that is not extended in the loop; the climb follows the "
    "map the parse certified; targets and signers are checked before being used as keys; unknown "
    "versions and element types and missing fields raise ValueError; for each element class to_dict "
    "emits exactly the keys the constructor reads, each value being the inverse encoding of what the "
    "constructor stored (identity, hex, base64, equal P-256 key), so that save+load restores the "
    "stored values. Does not decide a wall-clock bound."
)

INVERSE = [
    # (decoder pattern over M = element_map[key], encoder pattern over F = stored field)
    ("M", "F"),
    ("bytes.fromhex(M)", "F.hex()"),
    ("base64.b64decode(M)", "base64.b64encode(F).decode('ASCII')"),
]


def run(run):
    P, A = run.P, run.A
    F = Facts(A)
    PV = Prov(A)
    C = P.cls("admin.certificate_v1.HSMCertificate")
    _loops(run, F, C)
    _guards(run, F, C)
    _roundtrip(run, PV)


def _loops(run, F, C):
    P, A = run.P, run.A
    run.rule("R1", "Loop templates. _parse walk: `current.name in visited` raises; `current.signed_by not in "
             "self._elements` raises; `visited.append(current.name)` dominates the step `current = "
             "self._elements[current.signed_by]`; visited starts empty per target; exit on ROOT_ELEMENT. "
             "Validation walk: every iteration breaks or executes chain.pop(), and chain is not extended "
             "inside that loop. No other `while` loops in the module.")
    parse = P.method(C, "_parse")
    g = A.cfg(parse, C)
    whiles = [n for n in ast.walk(parse.node) if isinstance(n, ast.While)]
    run.check("R1", len(whiles) == 1, "one walk loop in _parse", key="HSMCertificate._parse|loops", where=parse.loc(),
              message=f"_parse has {len(whiles)} while loops")
    for w in whiles:
        steps = [n for n in ast.walk(w) if isinstance(n, ast.Assign) and norm(n.targets[0]) == "current"]
        run.check("R1", len(steps) == 1 and norm(steps[0].value) == "self._elements[current.signed_by]",
                  "walk step follows signed_by", key="HSMCertificate._parse|step", where=parse.loc(w),
                  message="the parse walk does not step with `current = self._elements[current.signed_by]`")
        for s in steps:
            for sn in g.nodes_of(s):
                facts = [f.text() for f in F.local(parse, C, sn)]
                run.check("R1", "current.name not in visited" in facts,
                          "step only for an element not seen before (cycle guard)",
                          key="HSMCertificate._parse|cycle-guard", where=parse.loc(s),
                          message="the parse walk can follow signed_by from an element it has already visited: a "
                                  "signer cycle that does not include the target makes loading loop forever")
                run.check("R1", "current.signed_by in self._elements" in facts,
                          "step only to an existing signer", key="HSMCertificate._parse|dangling-guard",
                          where=parse.loc(s), message="the parse walk can index a signer that is not in the elements")
                run.check("R1", "current.signed_by != self.ROOT_ELEMENT" in facts,
                          "walk ends at the root element", key="HSMCertificate._parse|root-exit", where=parse.loc(s),
                          message="the parse walk does not stop at ROOT_ELEMENT")
                apps = [n for n in ast.walk(w) if isinstance(n, ast.Call) and norm(n) == "visited.append(current.name)"]
                okd = bool(apps) and all(any(g.dominates(an, sn) for an in g.nodes_of(a)) for a in apps)
                run.check("R1", okd, "each visited element is recorded before stepping",
                          key="HSMCertificate._parse|visited-append", where=parse.loc(s),
                          message="the parse walk steps without recording the current element in `visited`: the "
                                  "cycle guard can never fire for that element")
        # the guards raise
        for txt in ("current.name in visited", "current.signed_by not in self._elements"):
            conds = [n for n in g.nodes if n.kind == "cond" and norm(n.ast) == txt]
            for c in conds:
                t = [n for n in g.nodes if n.kind == "T" and n.cond is c]
                ok = bool(t) and g.exit not in g.reachable(t[0]) and not any(
                    x.kind == "join" and x.note == "while-head" for x in g.reachable(t[0]))
                run.check("R1", ok, f"`{txt}` raises", key=f"HSMCertificate._parse|{txt}|raises", where=parse.loc(c.ast),
                          message=f"`{txt}` no longer ends the load with an error")
        vdefs = [d for d in defs_of(A, parse, "visited")]
        okv = len(vdefs) == 1 and norm(vdefs[0].value) == "[]" and not any(vdefs[0] is x for x in ast.walk(w))
        tl = [n for n in ast.walk(parse.node) if isinstance(n, ast.For) and norm(n.iter) == "self._targets"]
        okv = okv and bool(tl) and any(vdefs[0] is x for x in ast.walk(tl[0]))
        run.check("R1", okv, "visited starts empty for every target", key="HSMCertificate._parse|visited-init",
                  where=parse.loc(), message="`visited` is not re-initialised to [] for every target")
        # nothing else extends/clears visited
        muts = [n for n in ast.walk(parse.node) if isinstance(n, ast.Call) and isinstance(n.func, ast.Attribute)
                and norm(n.func.value) == "visited" and n.func.attr != "append"]
        run.check("R1", not muts, "visited only grows", key="HSMCertificate._parse|visited-mutations", where=parse.loc(),
                  message="`visited` is modified by something other than append")
    val = P.method(C, "validate_and_get_values")
    gv = A.cfg(val, C)
    vw = [n for n in ast.walk(val.node) if isinstance(n, ast.While)]
    run.floor("R1", "while loops in validate_and_get_values", len(vw), 2)
    walk = vw[1]
    head = [n for n in gv.nodes if n.kind == "join" and n.ast is walk and n.note == "while-head"][0]
    pops = [x for n in ast.walk(walk) if isinstance(n, ast.Call) and norm(n) == "chain.pop()" for x in gv.nodes_of(n)]
    body_first = [s for s in gv.succ[head]]
    # every cycle through the head passes a pop
    cyc = False
    after = [n for n in gv.nodes if n.kind == "join" and n.ast is walk and n.note == "while-after"]
    for s in gv.succ[head]:
        p = gv.witness_path(s, head, avoid=set(pops) | set(after), edge_ok=lambda a, b: not gv.is_exc_edge(a, b))
        if p:
            cyc = True
    run.check("R1", bool(pops) and not cyc, "every iteration of the validation walk pops the chain or leaves",
              key="HSMCertificate.validate_and_get_values|walk|progress", where=val.loc(walk),
              message="the validation walk can iterate without consuming the chain")
    ext = [n for n in ast.walk(walk) if isinstance(n, ast.Call) and isinstance(n.func, ast.Attribute)
           and norm(n.func.value) == "chain" and n.func.attr in ("append", "extend", "insert")]
    run.check("R1", not ext, "chain is not extended while walking down", key="HSMCertificate.validate_and_get_values|walk|extends",
              where=val.loc(walk), message="the validation walk extends the chain it consumes")
    # the climb loop relies on the map certified by _parse: same follow step
    climb = vw[0]
    st = [n for n in ast.walk(climb) if isinstance(n, ast.Assign) and norm(n.targets[0]) == "current"]
    run.check("R1", len(st) == 1 and norm(st[0].value) == "self._elements[current.signed_by]",
              "climb uses the same follow step the parse walk certified", key="HSMCertificate.validate_and_get_values|climb|step",
              where=val.loc(climb), message="the climb follows something other than signed_by over self._elements")
    # _parse is the only loader and runs in the constructor
    ini = P.method(C, "__init__")
    pc = find_calls(A, ini, "_parse")
    run.check("R1", len(pc) == 1, "constructor parses the given map", key="HSMCertificate.__init__|_parse", where=ini.loc(),
              message="HSMCertificate.__init__ no longer calls _parse on the certificate map")
    # no other while loops in certificate modules
    for modname in ("admin.certificate_v1", "admin.certificate_v2", "admin.certificate"):
        mod = P.module(modname)
        n_while = len([n for n in ast.walk(mod.tree) if isinstance(n, ast.While)])
        run.check("R1", n_while == (3 if modname.endswith("v1") else 0), f"{modname}: known loops only",
                  key=f"{modname}|while-count", where=mod.relpath,
                  message=f"{modname} has {n_while} while loops; each needs a termination template")


def _guards(run, F, C):
    P, A = run.P, run.A
    run.rule("R2", "Guards before use: every `self._elements[target]` in _parse is dominated by `target in "
             "self._elements`; from_jsonfile raises ValueError unless the document is a dict with a supported "
             "version; _parse raises unless targets is a list and elements is present; each element constructor "
             "raises ValueError on a missing/invalid field; v2 from_dict rejects unknown types.")
    parse = P.method(C, "_parse")
    g = A.cfg(parse, C)
    subs = [n for n in ast.walk(parse.node) if isinstance(n, ast.Subscript) and norm(n) == "self._elements[target]"
            and isinstance(n.ctx, ast.Load)]
    run.floor("R2", "self._elements[target] uses", len(subs), 1)
    for s in subs:
        for sn in g.nodes_of(s):
            facts = [f.text() for f in F.local(parse, C, sn)]
            run.check("R2", "target in self._elements" in facts, "target checked before indexing",
                      key="HSMCertificate._parse|target-guard", where=parse.loc(s),
                      message="a target that is not among the elements is indexed without a check")
    ef = [f.text() for f in F.exit_facts(parse, C)]
    for want in ("version == self.VERSION", "'targets' in certificate_map", "type(certificate_map['targets']) == list",
                 "'elements' in certificate_map"):
        run.check("R2", want in ef, f"_parse requires `{want}`", key=f"HSMCertificate._parse|requires|{want}",
                  where=parse.loc(), message=f"_parse can complete without `{want}`")
    fj = P.method(C, "from_jsonfile")
    gj = A.cfg(fj, C)
    for r in [n for n in A.own_nodes(fj) if isinstance(n, ast.Return)]:
        for rn in gj.nodes_of(r):
            facts = [f.text() for f in F.local(fj, C, rn)]
            for want in ("type(certificate_map) == dict", "version in cls.VERSION_MAPPING"):
                run.check("R2", want in facts, f"from_jsonfile requires `{want}`", key=f"HSMCertificate.from_jsonfile|requires|{want}",
                          where=fj.loc(r), message=f"from_jsonfile can build a certificate without `{want}`")
    vm = P.class_const(C, "VERSION_MAPPING")
    run.check("R2", isinstance(vm, dict) and {k: v.cls.name for k, v in vm.items()} == {1: "HSMCertificate", 2: "HSMCertificateV2"},
              "VERSION_MAPPING == {1: v1, 2: v2}", key="HSMCertificate.VERSION_MAPPING|table", where="middleware/admin/certificate.py",
              message=f"VERSION_MAPPING is {vm}")
    EL = P.cls("admin.certificate_v2.HSMCertificateV2Element")
    fd = P.method(EL, "from_dict")
    gf = A.cfg(fd, EL)
    for r in [n for n in A.own_nodes(fd) if isinstance(n, ast.Return)]:
        for rn in gf.nodes_of(r):
            facts = [f.text() for f in F.local(fd, EL, rn)]
            run.check("R2", "element_map.get('type') in cls.TYPE_MAPPING" in facts, "unknown element types rejected",
                      key="HSMCertificateV2Element.from_dict|type-guard", where=fd.loc(r),
                      message="from_dict dispatches on an element type it did not check")
    # required fields per class: every key read by the constructor is guarded by a raise
    for cname, keys in (("admin.certificate_v1.HSMCertificateElement", ["name", "signed_by", "message", "signature"]),
                        ("admin.certificate_v2.HSMCertificateV2ElementSGXQuote", ["name", "signed_by", "message", "custom_data", "signature"]),
                        ("admin.certificate_v2.HSMCertificateV2ElementSGXAttestationKey", ["name", "signed_by", "message", "key", "auth_data", "signature"]),
                        ("admin.certificate_v2.HSMCertificateV2ElementX509", ["name", "signed_by", "message"])):
        ci = P.cls(cname)
        ini = P.method(ci, "__init__")
        ef = " ; ".join(f.text() for f in F.exit_facts(ini, ci))
        for k in keys:
            ok = (f"'{k}' in element_map" in ef) or (f"is_nonempty_hex_string(element_map.get('{k}'))" in ef) \
                or (f"is_nonempty_hex_string(element_map['{k}'])" in ef) or (k == "message" and "X509" in cname)
            run.check("R2", ok, f"{ci.name}: `{k}` required", key=f"{ci.name}.__init__|requires|{k}", where=ini.loc(),
                      message=f"{ci.name} can be constructed from a map without a valid `{k}`")
        if "X509" in cname:
            iw = P.method(ci, "_init_with_map")
            tr = [n for n in A.own_nodes(iw) if isinstance(n, ast.Try)]
            ok = len(tr) == 1 and any(isinstance(x, ast.Raise) for h in tr[0].handlers for x in ast.walk(h))
            run.check("R2", ok, "x509: undecodable message raises ValueError", key="X509._init_with_map|b64-guard",
                      where=iw.loc(), message="x509 element: base64 decoding errors are not turned into ValueError")


def _ctor_reads(run, ci):
    """{key: (decoder pattern with M, stored field)} from `self._f = dec(element_map[...])`."""
    P, A = run.P, run.A
    out = {}
    for mname in ("__init__", "_init_with_map"):
        for c in ci.mro():
            m = c.methods.get(mname)
            if m is None:
                continue
            for n in A.own_nodes(m):
                if isinstance(n, ast.Assign) and len(n.targets) == 1 and isinstance(n.targets[0], ast.Attribute) \
                        and norm(n.targets[0].value) == "self":
                    fld = n.targets[0].attr
                    src = norm(n.value)
                    mm = re.search(r"element_map(?:\[['\"](\w+)['\"]\]|\.get\(['\"](\w+)['\"]\))", src)
                    if mm:
                        key = mm.group(1) or mm.group(2)
                        pat = re.sub(r"element_map(?:\[['\"]\w+['\"]\]|\.get\(['\"]\w+['\"]\))", "M", src)
                        out[key] = (pat, fld)
    return out


def _roundtrip(run, PV):
    P, A = run.P, run.A
    run.rule("R3", "Round trip: per element class, to_dict() emits exactly the keys the constructor reads "
             "(plus the constant `type` of its TYPE_MAPPING entry) and each value is the inverse encoding of the "
             "stored field: identity, bytes.fromhex/.hex(), b64decode/b64encode(..).decode('ASCII'), or the "
             "uncompressed form of the same P-256 key; a slice, a re-parse through a fixed-size struct or "
             "another attribute is a violation. Certificate.to_dict emits version, targets and all elements.")
    EL = P.cls("admin.certificate_v2.HSMCertificateV2Element")
    tm = P.class_const(EL, "TYPE_MAPPING")
    tname = {v.cls.qualname: k for k, v in tm.items()}
    classes = ["admin.certificate_v1.HSMCertificateElement", "admin.certificate_v2.HSMCertificateV2ElementSGXQuote",
               "admin.certificate_v2.HSMCertificateV2ElementSGXAttestationKey", "admin.certificate_v2.HSMCertificateV2ElementX509"]
    npairs = 0
    for cq in classes:
        ci = P.cls(cq)
        reads = _ctor_reads(run, ci)
        td = P.method(ci, "to_dict")
        g = A.cfg(td, ci)
        emitted = {}
        dicts = [n for n in A.own_nodes(td) if isinstance(n, ast.Dict)]
        run.require(len(dicts) == 1, f"{ci.name}.to_dict: dict literal not found")
        for k, v in zip(dicts[0].keys, dicts[0].values):
            emitted[k.value] = v
        for n in A.own_nodes(td):        # result["tweak"] = self.tweak
            if isinstance(n, ast.Assign) and isinstance(n.targets[0], ast.Subscript) \
                    and isinstance(n.targets[0].slice, ast.Constant):
                emitted[n.targets[0].slice.value] = n.value
        want_keys = set(reads) | ({"type"} if cq in tname else set())
        run.check("R3", set(emitted) == want_keys, f"{ci.name}.to_dict keys == constructor keys",
                  key=f"{ci.name}.to_dict|keys", where=td.loc(),
                  message=f"{ci.name}.to_dict emits {sorted(emitted)} but the constructor reads {sorted(want_keys)}")
        for key, vexpr in sorted(emitted.items()):
            npairs += 1
            if key == "type":
                run.check("R3", isinstance(vexpr, ast.Constant) and vexpr.value == tname.get(cq),
                          f"{ci.name}.to_dict type == '{tname.get(cq)}'", key=f"{ci.name}.to_dict|type", where=td.loc(),
                          message=f"{ci.name}.to_dict writes type `{norm(vexpr)}`, loader maps `{tname.get(cq)}` to this class")
                continue
            if key not in reads:
                continue
            dec, fld = reads[key]
            enc = _inline_props(run, ci, vexpr)
            ok = False
            for dpat, epat in INVERSE:
                if dec == dpat and _strip(enc) == _strip(epat.replace("F", f"self.{fld}")):
                    ok = True
            if not ok and dec == "bytes.fromhex(M)" and _strip(enc) == _strip(
                    f"ecdsa.VerifyingKey.from_string(self.{fld}, ecdsa.NIST256p).to_string('uncompressed').hex()"):
                ok = True    # same key, canonical uncompressed encoding
            run.check("R3", ok, f"{ci.name}: `{key}` re-encoded as the inverse of how it was read",
                      key=f"{ci.name}.to_dict|{key}|not-inverse", where=td.loc(),
                      message=f"{ci.name}: constructor stores `{key}` as self.{fld} = {dec.replace('M', 'map[' + repr(key) + ']')} "
                              f"but to_dict writes `{enc}`: saving and re-loading does not restore the stored value "
                              "(e.g. a truncating slice drops trailing bytes, changing the verdict)")
    run.floor("R3", "to_dict fields checked", npairs, 18)
    C = P.cls("admin.certificate_v1.HSMCertificate")
    td = P.method(C, "to_dict")
    d = [n for n in A.own_nodes(td) if isinstance(n, ast.Dict)][0]
    got = {k.value: norm(v) for k, v in zip(d.keys, d.values)}
    run.check("R3", got == {"version": "self.VERSION", "targets": "self._targets",
                            "elements": "list(map(lambda e: e.to_dict(), self._elements.values()))"},
              "certificate to_dict emits version, targets and every element", key="HSMCertificate.to_dict|shape",
              where=td.loc(), message=f"HSMCertificate.to_dict is {got}")
    sv = P.method(C, "save_to_jsonfile")
    dumps = [n for n in A.own_nodes(sv) if isinstance(n, ast.Call) and call_name(n) == "dumps"]
    run.check("R3", len(dumps) == 1 and norm(dumps[0].args[0]) == "self.to_dict()", "save writes to_dict()",
              key="HSMCertificate.save_to_jsonfile|source", where=sv.loc(), message="save_to_jsonfile does not write to_dict()")
    V2 = P.cls("admin.certificate_v2.HSMCertificateV2")
    run.check("R3", P.class_const(V2, "VERSION") == 2 and P.class_const(C, "VERSION") == 1, "VERSION constants 1 / 2",
              key="VERSION|constants", where=V2.module.relpath, message="certificate VERSION constants changed")


def _inline_props(run, ci, e, depth=0):
    """Replace `self.<property>` by the property's returned expression."""
    P, A = run.P, run.A
    if depth > 3:
        return norm(e)
    s = norm(e)

    def repl(m):
        r = ci.lookup(m.group(1))
        if r is not None and r[1] == "method" and r[2].is_property:
            rets = [n for n in A.own_nodes(r[2]) if isinstance(n, ast.Return)]
            if len(rets) == 1:
                return "(" + _inline_props(run, ci, rets[0].value, depth + 1) + ")"
        return m.group(0)
    return re.sub(r"\bself\.(\w+)\b(?!\()", repl, s)
