"""C05 - advance / ancestor update hand the device the client's blocks intact
(message shapes, which block each datum is computed from, order, sort, slice table)."""
import ast
import re
from sa.model import AnalysisError, Unknown, norm, unwrap, EnumMember
from sa.query import Facts, call_name, find_calls, try_fold, calls_in, defs_of, kwarg
from sa.prov import Prov
from sa.layout import Layout
from .common import firmware, protocol_classes, answer_field
from .c06 import _strip
from .c04 import _ranges
from sa.canon import canon_list, canon_list_text, fold_consts
from sa.layout import _subst_target
from sa.decide import Walker, return_values, completions, cmp_parts
from .c01 import _lay

TECHNIQUE = ('provenance expansion + byte-layout normalisation of the init / metadata / chunk / brother-list '
             'messages per operation context, same-block and order rules by reaching definitions, canonical list / '
             'sort-key forms for the brothers sort and the ancestor strip, finite-domain evaluation of the '
             'merge-mining slice table over field counts x flags, decision tables for the answer to the '
             'brother-list metadata and for the chunk loop, layouts of the coinbase midstate, constant agreement '
             'with bc_advance.h / bc_ancestor.h / bc.h')
EXPLANATION = (
    "Static analysis of /repo's current source (nothing executed). Decides: init = u8(INIT)|u32be(len(blocks)); block "
    "metadata = u8(meta op)|u16be(rlp_mm_payload_size(block)) followed, iff the command is ADVANCE, by the hash of that same "
    "block's coinbase transaction; chunks carry hexdecode(block) of the same parameter with the op of the context and the "
    "documented next-op sets, expect_full_data=False; brother list metadata = u8(BROTHER_LIST_META)|u8(count); blocks are "
    "iterated front to back un-reordered and the brothers of the i-th block are brothers[i]; in the advance context each "
    "brother list is sorted ascending by the bytes of get_block_hash (merge-mining fields removed leaving the BTC header); "
    "the merge-mining slice table and the RLP list-prefix table; update_ancestor strips with the same defaults the block "
    "hash uses; the flow of the whole block operation and of one header exchange, per segment, as decision tables (which answer / flag leads where, the failure pair relayed, handlers answering (False, ..), the payload-size bound before to_bytes(2), every operation-byte test reading the answer of the exchange before it); "
    "hash uses; coinbase midstate constants equal bc.h; op codes equal the firmware's; results map to 0/1 (C04-R2). Does not "
    "decide byte-exactness for all headers nor rlp / SHA-256-midstate arithmetic."
)


def run(run):
    P, A = run.P, run.A
    F = Facts(A)
    PV = Prov(A, max_variants=64)
    fw = firmware(run)
    D = P.cls("ledger.hsm2dongle.HSM2Dongle")
    dbo = P.method(D, "_do_block_operation")
    sbh = P.method(D, "_send_block_header")
    adv = P.method(D, "advance_blockchain")
    upd = P.method(D, "update_ancestor")
    g = A.cfg(dbo, D)
    gh = A.cfg(sbh, D)

    # ---------------------------------------------------------------- R1
    run.rule("R1", "Layouts: init u8(ops.INIT) | u32be(len(blocks)); header/brother metadata u8(op_meta) | "
             "u16be(rlp_mm_payload_size(block)) [| hexdecode(coinbase_tx_get_hash(get_coinbase_txn(block))) iff command == "
             "CMD.ADVANCE]; chunks: data = hexdecode(block), operation = op_chunk, expect_full_data = False, next_operations = "
             "[op_chunk, op_meta, SUCCESS] (+ PARTIAL for advance, + BROTHER_LIST_META after a block, + HEADER_META after a "
             "brother); brother list metadata u8(ops.BROTHER_LIST_META) | u8(len(brother_list)); the contexts pass "
             "(HEADER_META, HEADER_CHUNK) for blocks and (BROTHER_META, BROTHER_CHUNK) for brothers; op codes == firmware.")
    sends = find_calls(A, dbo, "_send_command")
    lay = {}
    for c in sends:
        for cn in g.nodes_of(c):
            lay[norm(c.args[1])[:30] + str(c.lineno)] = (_lay(run, PV, dbo, D, c.args[1], cn, stop=("brother_list",)), c)
    got = sorted(tuple(sorted(v[0])) for v in lay.values())
    want = sorted([("u8(ops.INIT) | u32be(len(blocks))",), ("u8(ops.BROTHER_LIST_META) | u8(len(brother_list))",)])
    run.check("R1", got == want, "init and brother-list metadata layouts", key="_do_block_operation|layouts", where=dbo.loc(),
              message=f"_do_block_operation sends {got}; the firmware expects {want}")
    for c in sends:
        run.check("R1", norm(c.args[0]) == "command", "block operation sends use the context's command", key=f"_do_block_operation|send-command|{c.lineno}",
                  where=dbo.loc(c), message=f"send uses command `{norm(c.args[0])}`")
    hs = find_calls(A, sbh, "_send_command")
    run.check("R1", len(hs) == 1, "one metadata send per header", key="_send_block_header|sends", where=sbh.loc(), message=f"{len(hs)} direct sends")
    for c in hs:
        for cn in gh.nodes_of(c):
            got = _lay(run, PV, sbh, D, c.args[1], cn)
            want = {"u8(op_meta) | u16be(rlp_mm_payload_size(block))",
                    "u8(op_meta) | u16be(rlp_mm_payload_size(block)) | hex(coinbase_tx_get_hash(get_coinbase_txn(block)))"}
            run.check("R1", got == want, "metadata layout (with the coinbase hash of the same block for advance)",
                      key="_send_block_header|metadata-layout", where=sbh.loc(c),
                      message=f"metadata message is {sorted(got)}; expected {sorted(want)}")
    # coinbase hash iff advance
    cbd = [d for d in PV.defs(sbh, D).get("cb_txn_hash", [])]
    for d in cbd:
        if "coinbase_tx_get_hash" in norm(d.value):
            facts = {f.text() for f in F.local(sbh, D, d.cnode)}
            run.check("R1", "command == self.CMD.ADVANCE" in facts, "coinbase hash only for advance", key="_send_block_header|cb-hash-guard",
                      where=sbh.loc(d.node), message="the coinbase transaction hash is sent for a command other than ADVANCE")
        else:
            run.check("R1", norm(d.value) in ("bytes([])", "b''"), "empty coinbase hash otherwise", key="_send_block_header|cb-hash-empty",
                      where=sbh.loc(d.node), message=f"default cb_txn_hash is `{norm(d.value)}`")
    ch = find_calls(A, sbh, "_send_data_in_chunks")
    run.check("R1", len(ch) == 1, "one chunked send per header", key="_send_block_header|chunked", where=sbh.loc(), message=f"{len(ch)} chunked sends")
    for c in ch:
        kws = {k.arg: norm(k.value) for k in c.keywords}
        sdc = P.method(D, "_send_data_in_chunks")
        a_ = sdc.node.args
        ps_ = [x.arg for x in a_.args]
        for nm_, dv_ in zip(ps_[len(ps_) - len(a_.defaults):], a_.defaults):
            kws.setdefault(nm_, norm(dv_))       # arguments left to their defaults
        run.check("R1", kws.get("command") == "command" and kws.get("operation") == "op_chunk" and kws.get("data") == "bytes.fromhex(block)"
                  and kws.get("expect_full_data") == "False" and kws.get("initial_bytes") == "bytes_requested"
                  and kws.get("next_operations") == "next_operations",
                  "chunks: the block's own bytes with the context's chunk op, partial data allowed", key="_send_block_header|chunk-args",
                  where=sbh.loc(c), message=f"chunked send arguments: {kws}")
    # next operations construction
    no = defs_of(A, sbh, "next_operations")
    run.check("R1", len(no) == 1 and norm(no[0].value) == "[op_chunk, op_meta, ops.SUCCESS]", "base next-op set", key="_send_block_header|next-ops-base",
              where=sbh.loc(), message=f"next_operations starts as `{norm(no[0].value) if no else None}`")
    # what is added to the base set, per case (command is / is not ADVANCE) x (header is the block / a brother): every path to the chunked send is
    # walked with those two tests decided; if / elif / nested spellings give the same table
    extra = {}
    for is_adv in (True, False):
        for hn in ("block", "brother"):
            def na_atom(e, adv=is_adv, hn=hn):
                cp = cmp_parts(e)
                if cp is None:
                    return None
                l, op, r = cp
                if op in ("==", "!=") and norm(l) == "command" and norm(r).endswith("CMD.ADVANCE"):
                    return (adv == (op == "=="), True)
                if op in ("==", "!=") and norm(l) == "header_name" and isinstance(r, ast.Constant) and isinstance(r.value, str):
                    return ((hn == r.value) == (op == "=="), True)
                return None
            added = set()
            for c in ch[:1]:
                for cn in gh.nodes_of(c):
                    for lf in Walker(A, sbh, D, na_atom, max_leaves=600, max_steps=30000).walk(gh.entry, stops={cn}):
                        if lf.kind != "stop":
                            continue
                        added.add(tuple(sorted(norm(v.args[0]) for k_, st_, v in lf.effects if k_ == "expr" and isinstance(v, ast.Call) and call_name(v) == "append"
                                               and isinstance(st_.value, ast.Call) and isinstance(st_.value.func, ast.Attribute)
                                               and norm(st_.value.func.value) == "next_operations" and len(v.args) == 1)))
            extra[(is_adv, hn)] = sorted(added)
    want_extra = {(True, "block"): [("ops.BROTHER_LIST_META", "ops.PARTIAL")], (True, "brother"): [("ops.HEADER_META", "ops.PARTIAL")],
                  (False, "block"): [()], (False, "brother"): [()]}
    run.check("R1", extra == want_extra, "advance-only next ops", key="_send_block_header|next-ops-advance", where=sbh.loc(),
              message=f"conditional next operations by (command is ADVANCE, header kind): {extra}; expected {want_extra}")
    # contexts
    calls = find_calls(A, dbo, "_send_block_header")
    ctx = sorted((kwarg(c, "header_name").value, norm(kwarg(c, "block")), norm(kwarg(c, "op_meta")), norm(kwarg(c, "op_chunk"))) for c in calls)
    run.check("R1", ctx == sorted([("block", "block", "ops.HEADER_META", "ops.HEADER_CHUNK"),
                                   ("brother", "brother", "ops.BROTHER_META", "ops.BROTHER_CHUNK")]),
              "block and brother contexts", key="_do_block_operation|contexts", where=dbo.loc(), message=f"_send_block_header contexts: {ctx}")
    for c in calls:
        kws = {k.arg: norm(k.value) for k in c.keywords}
        run.check("R1", kws.get("command") == "command" and kws.get("ops") == "ops" and kws.get("chunk_error_mapping") == "chunk_error_mapping",
                  "context tables passed through", key=f"_do_block_operation|context-passthrough|{kws.get('header_name')}", where=dbo.loc(c),
                  message=f"_send_block_header called with {kws}")
    for fn, cmdn, opsn in ((adv, "self.CMD.ADVANCE", "self.OP.ADVANCE"), (upd, "self.CMD.UPD_ANCESTOR", "self.OP.UPD_ANCESTOR")):
        c = find_calls(A, fn, "_do_block_operation")
        run.require(len(c) == 1, f"{fn.name}: _do_block_operation call vanished")
        a = [norm(x) for x in c[0].args]
        run.check("R1", a[3] == cmdn and a[4] == opsn, f"{fn.name} uses its own command and op table", key=f"{fn.name}|context", where=fn.loc(c[0]),
                  message=f"{fn.name} runs the block operation with ({a[3]}, {a[4]})")
    ao = P.enum_members(P.cls("ledger.hsm2dongle._AdvanceOps"))
    uo = P.enum_members(P.cls("ledger.hsm2dongle._UpdateAncestorOps"))
    ca = fw.file("powhsm/src/bc_advance.h").all_enum_members()
    cu = fw.file("powhsm/src/bc_ancestor.h").all_enum_members()
    for nm, m in ao.items():
        run.check("R1", ca.get("OP_ADVANCE_" + nm) == m.value, f"_AdvanceOps.{nm} == OP_ADVANCE_{nm}", key=f"_AdvanceOps|{nm}",
                  where="middleware/ledger/hsm2dongle.py", message=f"_AdvanceOps.{nm} = {m.value}, firmware {ca.get('OP_ADVANCE_' + nm)}")
    for nm, m in uo.items():
        run.check("R1", cu.get("OP_UPD_ANCESTOR_" + nm) == m.value, f"_UpdateAncestorOps.{nm} == OP_UPD_ANCESTOR_{nm}", key=f"_UpdateAncestorOps|{nm}",
                  where="middleware/ledger/hsm2dongle.py", message=f"_UpdateAncestorOps.{nm} = {m.value}, firmware {cu.get('OP_UPD_ANCESTOR_' + nm)}")

    # ---------------------------------------------------------------- R2
    run.rule("R2", "Same block: in _send_block_header the payload size, the coinbase hash and the chunk data are all computed from the "
             "unmodified parameter `block`.")
    bd = PV.defs(sbh, D).get("block", [])
    run.check("R2", not bd, "`block` is never reassigned in _send_block_header", key="_send_block_header|block-reassigned", where=sbh.loc(),
              message="`block` is reassigned inside _send_block_header: metadata and data could describe different headers")
    uses = sorted(norm(c) for c in [*find_calls(A, sbh, "rlp_mm_payload_size"), *find_calls(A, sbh, "get_coinbase_txn"), *find_calls(A, sbh, "fromhex")]
                  if "block" in norm(c))
    run.check("R2", uses == ["bytes.fromhex(block)", "bytes.fromhex(coinbase_tx_get_hash(get_coinbase_txn(block)))", "get_coinbase_txn(block)",
                             "rlp_mm_payload_size(block)"], "three uses of the same block", key="_send_block_header|block-uses", where=sbh.loc(),
              message=f"uses of `block`: {uses}")

    # ---------------------------------------------------------------- R3
    run.rule("R3", "Order: blocks are iterated as enumerate(blocks, 1) with `blocks` the unmodified parameter (no sorted / reversed / "
             "stepped slice); the brothers of the i-th block are brothers[block_number - 1] of the unmodified parameter, iterated "
             "front to back; len(blocks) announced is that of the same list; the protocol layer passes request['blocks'] / "
             "request['brothers'] as they are.")
    loops = [n for n in ast.walk(dbo.node) if isinstance(n, ast.For)]
    its = sorted(norm(l.iter) for l in loops)
    # the block loop counts the blocks from some start k (enumerate(blocks, k)); the brothers of a block are iterated front to back
    blk_loops = [l for l in loops if isinstance(l.iter, ast.Call) and norm(l.iter.func) == "enumerate" and l.iter.args and norm(l.iter.args[0]) == "blocks"
                 and (len(l.iter.args) == 1 or (len(l.iter.args) == 2 and isinstance(l.iter.args[1], ast.Constant) and isinstance(l.iter.args[1].value, int)))
                 and isinstance(l.target, ast.Tuple) and len(l.target.elts) == 2 and all(isinstance(e, ast.Name) for e in l.target.elts)]
    bro_loops = [l for l in loops if norm(l.iter) in ("enumerate(brother_list, 1)", "enumerate(brother_list)", "brother_list")]
    run.check("R3", len(blk_loops) == 1 and len(bro_loops) == 1 and len(loops) == 2, "loops over blocks and the block's brothers",
              key="_do_block_operation|loops", where=dbo.loc(), message=f"loops iterate {its}")
    BK = blk_loops[0].iter.args[1].value if blk_loops and len(blk_loops[0].iter.args) == 2 else 0
    BC = blk_loops[0].target.elts[0].id if blk_loops else "block_number"
    for nm in ("blocks", "brothers"):
        run.check("R3", not PV.defs(dbo, D).get(nm), f"`{nm}` not reassigned in _do_block_operation", key=f"_do_block_operation|{nm}-reassigned",
                  where=dbo.loc(), message=f"`{nm}` is reassigned (re-ordered / filtered) inside _do_block_operation")
    bl = defs_of(A, dbo, "brother_list")
    from sa.canon import canon_sums
    want_sel = canon_sums(f"brothers[{BC} - {BK}]") if BK else f"brothers[{BC}]"
    run.check("R3", len(bl) == 1 and canon_sums(norm(bl[0].value)) == want_sel, "brothers of block i are brothers[i]",
              key="_do_block_operation|brother-selection", where=dbo.loc(),
              message=f"the brother list of a block is selected as `{norm(bl[0].value) if bl else None}`: if the device skips the brothers of some "
                      "block, a later block would be given another block's brothers")
    for l in blk_loops:
        stores_ = [x for b_ in l.body for x in ast.walk(b_) if isinstance(x, ast.Name) and isinstance(x.ctx, ast.Store) and x.id in (BC, l.target.elts[1].id)]
        run.check("R3", not stores_, "the block counter and the block are not re-bound inside the loop", key="_do_block_operation|enumerate-target",
                  where=dbo.loc(l), message=f"the block loop re-binds {sorted({x.id for x in stores_})}")
    for pc in protocol_classes(run):
        for mname, w in (("_advance_blockchain", "self.hsm2dongle.advance_blockchain(request['blocks'], request['brothers'])"),
                         ("_update_ancestor_block", "self.hsm2dongle.update_ancestor(request['blocks'])")):
            r = pc.lookup(mname)
            if r is None or r[2].qualname.startswith("comm.protocol."):
                continue
            m = r[2]
            cs = [norm(c) for c in find_calls(A, m, w.split("(")[0].split(".")[-1])]
            run.check("R3", cs == [w], f"{pc.name}.{mname} passes the request lists as they are", key=f"{pc.name}.{mname}|arguments", where=m.loc(),
                      message=f"{pc.name}.{mname} calls {cs}")

    # ---------------------------------------------------------------- R4
    run.rule("R4", "Sort: advance_blockchain passes brothers = list(map(lambda l: sorted(l, key=lambda h: bytes.fromhex(get_block_hash(h))), "
             "brothers)) - ascending (no reverse), keyed on the hash bytes; get_block_hash(x) = keccak_256(remove_mm_fields_if_present(x, "
             "leave_btcblock=True, hex=False)).hex(); update_ancestor passes None for brothers.")
    ga = A.cfg(adv, D)
    c = find_calls(A, adv, "_do_block_operation")[0]
    def key_text(k):
        """canonical body of a sort-key function over $x: a lambda, or a reference to a one-expression function"""
        if isinstance(k, ast.Lambda) and len(k.args.args) == 1:
            return _strip(norm(_subst_target(k.body, ast.Name(id=k.args.args[0].arg, ctx=ast.Store()), ast.Name(id="$", ctx=ast.Load())))).replace("ELEM($)", "$x")
        if isinstance(k, (ast.Name, ast.Attribute)):
            nm = k.id if isinstance(k, ast.Name) else k.attr
            cands = [f for f in P.all_functions if f.name == nm and f.module is adv.module]
            if len(cands) == 1:
                f = cands[0]
                ps = [p_ for p_ in f.params if p_ not in ("self", "cls")]
                vals = return_values(A, f, f.cls, PV)
                if len(ps) == 1 and len(vals) == 1:
                    e = ast.parse(next(iter(vals)), mode="eval").body
                    return _strip(norm(_subst_target(e, ast.Name(id=ps[0], ctx=ast.Store()), ast.Name(id="$", ctx=ast.Load())))).replace("ELEM($)", "$x")
        return "?" + norm(k)
    for cn in ga.nodes_of(c):
        got = set()
        for x in PV.expand_consistent(adv, D, c.args[2], cn):
            e = ast.parse(x, mode="eval").body

            def text(el):
                # sorted(ELEM(brothers), key=K) -> canonical text with the key function's body
                if isinstance(el, ast.Call) and call_name(el) == "sorted" and len(el.args) == 1:
                    kws = {k.arg: k.value for k in el.keywords}
                    extra = sorted(set(kws) - {"key"})
                    return f"sorted({norm(el.args[0])}, key={key_text(kws['key']) if 'key' in kws else None}{', ' + ', '.join(f'{k}={norm(kws[k])}' for k in extra) if extra else ''})"
                return norm(el)
            cl_ = canon_list(e, text)
            got.add(tuple(cl_) if cl_ is not None else ("?" + x,))
        want = ("map(sorted(ELEM(brothers), key=bytes.fromhex(get_block_hash($x))))",)
        if any(len(t) == 1 and t[0].startswith("map(") for t in got):
            got.discard(())      # a list built by appending in a loop: the zero-iteration variant is map over an empty sequence
        ok = got == {want}
        run.check("R4", ok, "each brother list is sorted ascending by block-hash bytes, all brothers kept", key="advance_blockchain|brothers-sort", where=adv.loc(c),
                  message=f"advance_blockchain passes brothers prepared as {sorted(got)[:2]}; expected {want}: another order, key or a collapsed / filtered list is not "
                          "what the device asks for when it requests a block's brothers")
        run.check("R4", norm(c.args[1]) == "blocks", "blocks passed unmodified", key="advance_blockchain|blocks", where=adv.loc(c),
                  message=f"advance_blockchain passes blocks = `{norm(c.args[1])}`")
    gbh = P.func("ledger.block_utils.get_block_hash")
    gg = A.cfg(gbh, None)
    rr = [n for n in A.own_nodes(gbh) if isinstance(n, ast.Return)]
    p = gbh.params[0]
    okh = False
    for r in rr:
        for rn in gg.nodes_of(r):
            got = {_strip(x) for x in PV.expand_consistent(gbh, None, r.value, rn)}
            okh = got == {_strip(f"keccak_256(remove_mm_fields_if_present({p}, leave_btcblock=True, hex=False)).hex()")}
            if not okh and len(got) == 1:
                # through a helper: resolve one level
                e = ast.parse(next(iter(got)), mode="eval").body
                inner = e.func.value.args[0] if isinstance(e, ast.Call) and isinstance(e.func, ast.Attribute) and isinstance(e.func.value, ast.Call) \
                    and e.func.value.args else None
                if isinstance(inner, ast.Call):
                    cs = [x.fn for x in A.resolve_call(inner, gbh, None) if x.fn is not None]
                    if len(cs) == 1 and cs[0].name != "remove_mm_fields_if_present":
                        hr = [n for n in A.own_nodes(cs[0]) if isinstance(n, ast.Return)]
                        hp = cs[0].params[0]
                        if len(hr) == 1 and norm(hr[0].value) == f"remove_mm_fields_if_present({hp}, leave_btcblock=True, hex=False)":
                            okh = True
                        else:
                            got = {norm(hr[0].value)} if hr else got
            run.check("R4", okh, "block hash = keccak of the header without merge-mining fields, BTC header kept", key="get_block_hash|expr",
                      where=gbh.loc(r), message=f"get_block_hash computes {sorted(got)[:1]}: the sort key would not be the block hash the "
                      "device compares (leave_btcblock must be True)")
    cu_ = find_calls(A, upd, "_do_block_operation")[0]
    run.check("R4", norm(cu_.args[2]) == "None", "no brothers for ancestor updates", key="update_ancestor|brothers", where=upd.loc(cu_),
              message=f"update_ancestor passes brothers = `{norm(cu_.args[2])}`")

    # ---------------------------------------------------------------- R5
    _mm_table(run, F, PV, upd, D)
    # ---------------------------------------------------------------- R7
    _brother_list_answer(run, PV, D, dbo, g, lay)
    _block_loop_outcome(run, PV, D, dbo, g)
    _flow_table(run, PV, D, dbo, g)
    _header_flow(run, PV, D, sbh)
    # byte-exact relay under any chunk-request pattern: the chunk loop's decision table (rule R3 of C01) under the prefix K.
    from . import c01
    sdc_ = P.method(D, "_send_data_in_chunks")
    dflt = {}
    a__ = sdc_.node.args
    ps__ = [x.arg for x in a__.args]
    for nm__, dv__ in zip(ps__[len(ps__) - len(a__.defaults):], a__.defaults):
        dflt[nm__] = dv__
    run.rid_prefix = "K."
    try:
        c01._chunk_loop(run, PV, D, sdc_, dflt)
    finally:
        run.rid_prefix = ""
    # ---------------------------------------------------------------- R6
    run.rule("R6", "Coinbase hash: midstate = zeros(8) | tx[:40] | zeros(4), tail = tx[40:], second round SHA-256 reversed; the three "
             "sizes equal the firmware's CB_MIDSTATE_PREFIX / CB_MIDSTATE_DATA / CB_MIDSTATE_SUFFIX; get_coinbase_txn returns the last "
             "field of a 19/20-field header.")
    bc = fw.file("powhsm/src/bc.h").defines()
    for py, c in (("_MIDSTATE_PREFIX_SIZE", "CB_MIDSTATE_PREFIX"), ("_MIDSTATE_SIZE_TRIMMED", "CB_MIDSTATE_DATA"), ("_MIDSTATE_SUFFIX_SIZE", "CB_MIDSTATE_SUFFIX")):
        v = P.module_const("comm.pow", py)
        run.check("R6", v == bc.get(c), f"{py} == {c} ({bc.get(c)})", key=f"comm.pow|{py}", where="middleware/comm/pow.py",
                  message=f"{py} = {v}, firmware {c} = {bc.get(c)}")
    cb = P.func("comm.pow.coinbase_tx_get_hash")
    gcb = A.cfg(cb, None)
    Lc = Layout(lambda e: try_fold(P, e, cb, None))
    sm_ = find_calls(A, cb, "set_midstate")
    up_ = find_calls(A, cb, "update")
    okm = len(sm_) == 1 and len(up_) == 1
    gotm = gott = None
    if okm:
        for cn in gcb.nodes_of(sm_[0]):
            gotm = {Lc.canon(x) for x in PV.expand_consistent(cb, None, sm_[0].args[0], cn, stop=("tx",))}
        for cn in gcb.nodes_of(up_[0]):
            gott = {Lc.canon(x) for x in PV.expand_consistent(cb, None, up_[0].args[0], cn, stop=("tx",))}
        okm = gotm == {"zeros(8) | tx[:40] | zeros(4)"} and gott == {"tx[40:]"} and norm(sm_[0].func.value) == norm(up_[0].func.value)
    txd = defs_of(A, cb, "tx")
    okm = okm and len(txd) == 1 and norm(txd[0].value) == f"bytes.fromhex({cb.params[0]})"
    run.check("R6", okm, "midstate / tail split", key="coinbase_tx_get_hash|split", where=cb.loc(),
              message=f"the coinbase midstate / tail composition changed: set_midstate({sorted(gotm or [])}), update({sorted(gott or [])}); expected zeros(8) | tx[:40] | "
                      "zeros(4) and tx[40:] of the decoded transaction, fed to the same hash object")
    finals = set()
    for r in [n for n in A.own_nodes(cb) if isinstance(n, ast.Return)]:
        for rn in gcb.nodes_of(r):
            for x in PV.expand_consistent(cb, None, r.value, rn, stop=("tx",)):
                e = ast.parse(x, mode="eval").body
                if isinstance(e, ast.Call) and isinstance(e.func, ast.Attribute) and e.func.attr == "hex" and not e.args:
                    finals.add(Lc.canon(e.func.value))
                else:
                    finals.add("?" + x)
    hobj = norm(sm_[0].func.value) if sm_ else "?"
    okf = len(finals) == 1 and re.fullmatch(r"rev\(hashlib\.sha256\((.+)\.digest\(\)\)\.digest\(\)\)", next(iter(finals))) is not None \
        and "thirdparty.sha256.SHA256()" in next(iter(finals))
    run.check("R6", okf, "double SHA-256, reversed", key="coinbase_tx_get_hash|final", where=cb.loc(),
              message=f"the coinbase hash finalisation changed: returns hex of {sorted(finals)[:1]}; expected the byte-reversed hashlib.sha256 of the first round's digest")
    gc = P.func("ledger.block_utils.get_coinbase_txn")
    rr = [n for n in A.own_nodes(gc) if isinstance(n, ast.Return)]
    ggc = A.cfg(gc, None)
    locs_g = set(PV.defs(gc, None)) | set(gc.params)
    for r in rr:
        for rn in ggc.nodes_of(r):
            vals = {_strip(x) for x in PV.expand_consistent(gc, None, r.value, rn)}
            run.check("R6", vals == {_strip(f"rlp.decode(bytes.fromhex({gc.params[0]}))[-1].hex()")}, "coinbase transaction is the header's last field", key="get_coinbase_txn|field",
                      where=gc.loc(r), message=f"get_coinbase_txn returns {sorted(vals)[:2]}")
            facts = set()
            for t in F.expanded(gc, None, rn, PV, stop=("block",)):
                try:
                    facts.add(_strip(norm(fold_consts(P, ast.parse(t, mode="eval").body, gc, None, locals_=locs_g))))
                except SyntaxError:
                    facts.add(t)
            run.check("R6", "len(block) in [19, 20]" in facts or "len(block) in (19, 20)" in facts, "only for 19/20-field headers", key="get_coinbase_txn|field-count", where=gc.loc(r),
                      message="get_coinbase_txn accepts headers without merge-mining fields")


def _block_loop_outcome(run, PV, D, dbo, g):
    """R8: the device decides when the operation ends."""
    P, A = run.P, run.A
    run.rule("R8", "End of the operation: inside the per-block loop, after every exchange of a block (header, brother-list metadata, brothers) and before "
             "the next block is sent, the operation byte of the device's latest answer is tested for ops.SUCCESS -> return (True, OK_TOTAL) and (advance) "
             "ops.PARTIAL -> return (True, OK_PARTIAL); these are the only sources of OK_TOTAL / OK_PARTIAL.")
    heads = [n for n in g.nodes if n.kind == "for" and isinstance(n.ast, ast.For) and isinstance(n.ast.iter, ast.Call) and norm(n.ast.iter.func) == "enumerate"
             and n.ast.iter.args and norm(n.ast.iter.args[0]) == "blocks"]
    run.require(len(heads) == 1, "_do_block_operation: the loop over enumerate(blocks, ..) was not identified")
    H = heads[0]
    loop = H.ast
    inloop = {id(x) for st_ in loop.body for x in ast.walk(st_)}
    noexc = lambda a, b: not g.is_exc_edge(a, b)   # noqa: E731
    X = [cn for c in A.own_nodes(dbo) if isinstance(c, ast.Call) and id(c) in inloop and call_name(c) in ("_send_block_header", "_send_command")
         for cn in g.nodes_of(c)]
    run.floor("R8", "device exchanges inside the block loop", len(X), 3)

    def tests(member):
        """(cond node, T edge, F edge) of the tests `<latest answer>[OFF.OP] == ops.<member>` inside the loop"""
        out = []
        for n in g.nodes:
            if n.kind != "cond" or id(n.ast) not in inloop:
                continue
            cp = cmp_parts(n.ast)
            if cp is None:
                continue
            l, op, r = cp
            if op not in ("==", "!=") or _strip(norm(r)) != f"ops.{member}":
                continue
            srcs = {_strip(x) for x in PV.expand_consistent(dbo, D, l, n)}
            okl = bool(srcs) and all(x.endswith("[self.OFF.OP]") and ("self._send_block_header(" in x or "self._send_command(" in x) for x in srcs)
            if not okl:
                continue
            te = [e for e in g.nodes if e.kind == ("T" if op == "==" else "F") and e.cond is n]
            fe = [e for e in g.nodes if e.kind == ("F" if op == "==" else "T") and e.cond is n]
            out.append((n, te, fe, srcs))
        return out
    for member, resp, advance_only in (("SUCCESS", "OK_TOTAL", False), ("PARTIAL", "OK_PARTIAL", True)):
        ts = tests(member)
        run.check("R8", len(ts) >= 1, f"the latest answer is tested for ops.{member} inside the block loop", key=f"_do_block_operation|{member}|test", where=dbo.loc(loop),
                  message=f"inside the per-block loop no test of the device's latest answer against ops.{member} was found: the device ending the operation "
                          f"after k < n blocks is not noticed and further blocks are sent to it")
        t_edges = {e for _, te, _, _ in ts for e in te}
        f_edges = {e for _, _, fe, _ in ts for e in fe}
        if advance_only:
            # `command == self.CMD.ADVANCE and ...`: for update-ancestor the F edge of the command test stands for it
            for n in g.nodes:
                if n.kind == "cond" and id(n.ast) in inloop and _strip(norm(n.ast)) in ("command == self.CMD.ADVANCE",):
                    if any(c_ in g.reachable(e, edge_ok=noexc) for e in g.nodes if e.kind == "T" and e.cond is n for c_, _, _, _ in ts):
                        f_edges |= {e for e in g.nodes if e.kind == "F" and e.cond is n}
        for x in X:
            p_ = g.witness_path(x, H, avoid=f_edges, edge_ok=noexc)
            run.check("R8", p_ is None, f"no further block is sent before the answer was tested for ops.{member}", key=f"_do_block_operation|{member}|before-next-block",
                      where=dbo.loc(x.ast) if x.ast is not None else dbo.loc(),
                      message=f"after the exchange at line {x.lineno} the loop can go on to the next block without the device's latest answer having been tested for "
                              f"ops.{member}: a device that already reported {'total' if member == 'SUCCESS' else 'partial'} success is sent the next block and the "
                              "client gets an error code instead of the success", witness=g.describe_path(p_) if p_ else None)
        # the T outcome answers (True, responses.<resp>) at once
        for e in t_edges:
            for lf in Walker(A, dbo, D, lambda e_: None, stop_at_for=True).walk(e):
                v = lf.deep(lf.node.ast.value) if lf.kind == "return" and lf.node.ast.value is not None else None
                run.check("R8", v is not None and _strip(norm(v)) == f"(True, responses.{resp})", f"ops.{member} -> (True, {resp})", key=f"_do_block_operation|{member}|answer",
                          where=dbo.loc(lf.node.ast) if lf.node.ast is not None else dbo.loc(),
                          message=f"when the device reports ops.{member} the method does `{lf.kind}` `{norm(v) if v is not None else ''}` instead of returning (True, responses.{resp})")
        # and nothing else answers it
        for r in [n for n in A.own_nodes(dbo) if isinstance(n, ast.Return) and n.value is not None and resp in norm(n.value)]:
            for rn in g.nodes_of(r):
                okd = any(g.dominates(e, rn) for e in t_edges) if hasattr(g, "dominates") else any(e in g.dominators(rn) for e in t_edges)
                run.check("R8", okd, f"{resp} only when the device reported ops.{member}", key=f"_do_block_operation|{resp}|guard", where=dbo.loc(r),
                          message=f"`{norm(r)[:60]}` is not dominated by the device's latest answer being ops.{member}")


def _flow_table(run, PV, D, dbo, g):
    """R9: the block operation as a decision table per segment of its control flow."""
    P, A = run.P, run.A
    from sa.decide import subst
    run.rule("R9", "Flow of _do_block_operation, decided per segment on the decision table of its conditions (HDR/BRO: the header exchange of a block / brother "
             "reported success; ADV: command == CMD.ADVANCE; op X: operation byte of the latest answer == ops.X; TOO: more than 255 brothers): "
             "(1) start -> block loop iff the initialisation answer's op is HEADER_META, otherwise (False, ERROR_UNEXPECTED); "
             "(2) per block: not HDR -> the header exchange's own failure pair is returned; HDR, ADV and op BROTHER_LIST_META -> TOO ? (False, ERROR_INVALID_BROTHERS) "
             ": one brother-list exchange, then (R7) the brother loop; otherwise ADV and op PARTIAL -> (True, OK_PARTIAL), op SUCCESS -> (True, OK_TOTAL), else next block; "
             "(3) per brother: not BRO -> its failure pair is returned, else next brother; (4) after the last brother: as the `otherwise` of (2); "
             "(5) blocks exhausted -> raises. No segment decides on anything else.")
    okop, OPI = try_fold(P, ast.parse("self.OFF.OP", mode="eval").body, dbo, D)
    run.require(okop, "OFF.OP not foldable")
    heads = [n for n in g.nodes if n.kind == "for" and isinstance(n.ast, ast.For) and isinstance(n.ast.iter, ast.Call) and norm(n.ast.iter.func) == "enumerate"
             and n.ast.iter.args and norm(n.ast.iter.args[0]) == "blocks"]
    run.require(len(heads) == 1, "_do_block_operation: the loop over enumerate(blocks, ..) was not identified")
    H = heads[0]
    inner = [n for n in g.nodes if n.kind == "for" and n is not H and isinstance(n.ast, ast.For) and any(n.ast is x for x in ast.walk(H.ast))]
    run.require(len(inner) == 1, f"_do_block_operation: expected one brother loop inside the block loop, found {len(inner)}")
    B = inner[0]

    def edge(head, note):
        es = [n for n in g.nodes if n.kind in ("T", "F") and n.cond is head and n.note == note]
        run.require(len(es) == 1, f"_do_block_operation: loop edge `{note}` not found")
        return es[0]
    state = {"W": None}

    def resolve(e):
        b = state["W"]._bind or {}
        for _ in range(6):
            names = {n.id for n in ast.walk(e) if isinstance(n, ast.Name)}
            hit = {k: v for k, v in b.items() if k in names}
            if not hit:
                break
            e = subst(e, hit)
        return e

    def answer_kind(x):
        """which device answer an expression stands for"""
        x = resolve(x)
        if isinstance(x, ast.Call) and call_name(x) == "_send_command":
            return "cmd"
        if isinstance(x, ast.Name):
            return "latest"       # a local holding the last raw answer, set before this segment (R8 decides that it is the latest one)
        if isinstance(x, ast.Subscript) and isinstance(x.slice, ast.Constant) and x.slice.value == 1:
            v = x.value
            if isinstance(v, ast.Call) and call_name(v) == "_send_block_header":
                return "hdr"
            if isinstance(v, ast.Name):
                return "latest"
        return None

    def atom(e):
        cp = cmp_parts(e)
        if cp is not None:
            l, op, r = cp
            rt = _strip(norm(r))
            if op in ("==", "!=") and rt.startswith("ops.") and isinstance(l, ast.Subscript) and try_fold(P, l.slice, dbo, D) == (True, OPI):
                k = answer_kind(l.value)
                if k is not None:
                    return (f"op {rt[4:]}", op == "==")
            if op in ("==", "!=") and {_strip(norm(l)), rt} == {"command", "self.CMD.ADVANCE"}:
                return ("ADV", op == "==")
            lt = _strip(norm(resolve(l)))
            if re.fullmatch(r"len\(brothers\[[^\[\]]+\]\)", lt) and isinstance(r, ast.Constant) and isinstance(r.value, int):
                if (op, r.value) in ((">", 255), (">=", 256), ("<=", 255), ("<", 256)):
                    return ("TOO", op in (">", ">="))
                if (op, r.value) in ((">", 0), ("!=", 0), (">=", 1), ("==", 0), ("<=", 0), ("<", 1)):
                    return ("C", op in (">", "!=", ">="))
        x = resolve(e)
        if isinstance(x, ast.Subscript) and isinstance(x.slice, ast.Constant) and x.slice.value == 0 and isinstance(x.value, ast.Call) \
                and call_name(x.value) == "_send_block_header":
            return ("HDR", True)
        return None

    def outcome(lf):
        if lf.kind == "stop":
            return "block loop" if lf.node is H else ("brother loop" if lf.node is B else f"stop at line {lf.node.lineno}")
        if lf.kind == "return":
            v = lf.node.ast.value
            if v is None:
                return "return None"
            v = lf.deep(v)
            if isinstance(v, ast.Tuple) and len(v.elts) == 2 and isinstance(v.elts[0], ast.Constant) and isinstance(v.elts[0].value, bool):
                return f"({v.elts[0].value}, {_strip(norm(v.elts[1]))})"
            if isinstance(v, ast.Call) and call_name(v) == "_send_block_header":
                return "relay"
            return f"return {_strip(norm(v))[:50]}"
        return lf.kind

    def end_of_block(v):
        if v.get("ADV") and v.get("op PARTIAL"):
            return "(True, responses.OK_PARTIAL)"
        if v.get("op SUCCESS"):
            return "(True, responses.OK_TOTAL)"
        return "block loop"

    def want2(v):
        if not v["HDR"]:
            return "relay"
        if v["ADV"] and v["op BROTHER_LIST_META"]:
            if v["TOO"]:
                return "(False, responses.ERROR_INVALID_BROTHERS)"
            if v["C"] and not v["op BROTHER_META"]:
                return "(False, responses.ERROR_UNEXPECTED)"
            return "brother loop"
        return end_of_block(v)
    OPS_X = ("op BROTHER_LIST_META", "op PARTIAL", "op SUCCESS")       # values of one byte: at most one holds

    def feas(v):
        return sum(1 for a in OPS_X if v.get(a)) <= 1
    segments = [
        ("start", g.entry, ["op HEADER_META"], lambda v: "block loop" if v["op HEADER_META"] else "(False, responses.ERROR_UNEXPECTED)", None),
        ("block", edge(H, "has-item"), ["HDR", "ADV", "op BROTHER_LIST_META", "TOO", "C", "op BROTHER_META", "op PARTIAL", "op SUCCESS"], want2, feas),
        ("brother", edge(B, "has-item"), ["HDR"], lambda v: "brother loop" if v["HDR"] else "relay", None),
        ("after brothers", edge(B, "exhausted"), ["ADV", "op PARTIAL", "op SUCCESS"], end_of_block, feas),
        ("blocks exhausted", edge(H, "exhausted"), [], lambda v: "raise", None),
    ]
    n_cases = 0
    for seg, start, atoms, want, feasible in segments:
        W = Walker(A, dbo, D, atom, stop_at_for=True, max_leaves=512, max_steps=20000)
        state["W"] = W
        for lf in W.walk(start):
            got = outcome(lf)
            unknown = sorted(k[1:] for k in lf.pc if isinstance(k, str) and k.startswith("?"))
            run.check("R9", not unknown, f"[{seg}] decides on the protocol's conditions only", key=f"_do_block_operation|flow|{seg}|extra|{';'.join(unknown)[:60]}",
                      where=dbo.loc(lf.node.ast) if lf.node.ast is not None else dbo.loc(),
                      message=f"segment `{seg}` of _do_block_operation decides on `{'`, `'.join(unknown)[:120]}`, which is not one of the protocol's conditions (or tests "
                              "something other than the latest answer / the header exchange's result): blocks could be withheld from, or sent to, a device that did not ask")
            if unknown:
                continue
            sends = [v_ for k_, st_, v_ in lf.effects if k_ in ("assign", "expr") and any(isinstance(c_, ast.Call) and call_name(c_) == "_send_command" for c_ in ast.walk(st_))]
            for v in completions({k: b for k, b in lf.pc.items() if k in atoms}, atoms, feasible):
                n_cases += 1
                w = want(v)
                desc = ", ".join(f"{a}={'T' if v[a] else 'F'}" for a in atoms if a in lf.pc) or "-"
                run.check("R9", got == w, f"[{seg}: {desc}] -> {w}", key=f"_do_block_operation|flow|{seg}|{desc}", where=dbo.loc(lf.node.ast) if lf.node.ast is not None else dbo.loc(),
                          message=f"_do_block_operation, segment `{seg}`, case [{desc}]: the code does `{got}`, the block protocol requires `{w}`")
                if seg == "block" and w == "brother loop" and got == w:
                    run.check("R9", len(sends) == 1, f"[{seg}: {desc}] exactly one brother-list exchange", key=f"_do_block_operation|flow|{seg}|{desc}|blm-sends",
                              where=dbo.loc(lf.node.ast) if lf.node.ast is not None else dbo.loc(),
                              message=f"_do_block_operation, case [{desc}]: {len(sends)} exchanges between the block header and its brothers (the brother-list metadata is sent once)")
    run.floor("R9", "flow cases of _do_block_operation", n_cases, 20)
    # "the latest answer": the variable a test of the operation byte reads has been bound again after every exchange that can precede the test
    # (a fresh answer put into another local leaves the test looking at the previous one)
    inloop = {id(x) for st_ in H.ast.body for x in ast.walk(st_)}
    noexc = lambda a, b: not g.is_exc_edge(a, b)   # noqa: E731
    X = [cn for c in A.own_nodes(dbo) if isinstance(c, ast.Call) and id(c) in inloop and call_name(c) in ("_send_block_header", "_send_command") for cn in g.nodes_of(c)]
    defs_all = PV.defs(dbo, D)
    n_tests = 0
    for T in g.nodes:
        if T.kind != "cond" or id(T.ast) not in inloop:
            continue
        cp = cmp_parts(T.ast)
        if cp is None:
            continue
        l, op, r = cp
        if not (op in ("==", "!=") and _strip(norm(r)).startswith("ops.")):
            continue
        # the operation byte may first be put into a local (`final_op = response[1][OP]`): the reading point is that assignment
        points = []
        if isinstance(l, ast.Subscript):
            points.append((T, l))
        elif isinstance(l, ast.Name):
            for d_ in defs_all.get(l.id, []):
                if d_.cnode is not None and isinstance(d_.value, ast.Subscript) and id(d_.value) in inloop:
                    points.append((d_.cnode, d_.value))
        for T_, l_ in points:
            _latest_point(run, g, dbo, H, X, defs_all, noexc, T_, l_, T)
            n_tests += 1
        continue
        root = l
        n_tests += 1
        dnodes = {d.cnode for d in defs_all.get(root.id, []) if d.cnode is not None}
        for x in X:
            if x in dnodes:
                continue
            others = set(X) - {x}
            p_ = g.witness_path(x, T, avoid=dnodes | others | {H}, edge_ok=noexc)
            run.check("R9", p_ is None, f"`{root.id}` tested at line {T.lineno} holds the answer of the exchange before it", key=f"_do_block_operation|latest|{T.lineno}|{x.lineno}",
                      where=dbo.loc(T.ast), message=f"the test `{norm(T.ast)[:60]}` can be reached from the exchange at line {x.lineno} without `{root.id}` having been bound again: "
                      "it looks at the answer of an earlier exchange (e.g. after an empty brother list the device's SUCCESS / PARTIAL / next-block request is lost and the "
                      "operation ends in `unexpected state` or goes on sending to a device that has finished)", witness=g.describe_path(p_) if p_ else None)
    run.floor("R9", "operation-byte tests inside the block loop", n_tests, 1)


def _latest_point(run, g, dbo, H, X, defs_all, noexc, T, l, Ttest):
    root = l
    while isinstance(root, ast.Subscript):
        root = root.value
    if not isinstance(root, ast.Name):
        return
    dnodes = {d.cnode for d in defs_all.get(root.id, []) if d.cnode is not None}
    for x in X:
        if x in dnodes:
            continue
        others = set(X) - {x}
        p_ = g.witness_path(x, T, avoid=dnodes | others | {H}, edge_ok=noexc)
        run.check("R9", p_ is None, f"`{root.id}` read at line {T.lineno} holds the answer of the exchange before it", key=f"_do_block_operation|latest|{T.lineno}|{x.lineno}",
                  where=dbo.loc(Ttest.ast), message=f"the test `{norm(Ttest.ast)[:60]}` (reading `{norm(l)[:40]}` at line {T.lineno}) can be reached from the exchange at line {x.lineno} "
                  f"without `{root.id}` having been bound again: it looks at the answer of an earlier exchange (e.g. after an empty brother list the device's SUCCESS / PARTIAL / "
                  "next-block request is lost and the operation ends in `unexpected state` or goes on sending to a device that has finished)",
                  witness=g.describe_path(p_) if p_ else None)


def _header_flow(run, PV, D, sbh):
    """R10: one header exchange (metadata + chunks) as a decision table, handlers included."""
    P, A = run.P, run.A
    from sa.decide import subst
    g = A.cfg(sbh, D)
    run.rule("R10", "Flow of _send_block_header (BIG: merge-mining payload size > 0xFFFF; OPC: the metadata answer's op == op_chunk; CHK: the chunk exchange "
             "reported success): BIG -> ValueError -> (False, ERROR_COMPUTE_METADATA), so that only sizes that fit go to to_bytes(2); not OPC -> (False, "
             "ERROR_UNEXPECTED); not CHK -> (False, ERROR_UNEXPECTED); otherwise the chunk exchange's own (True, answer) is returned. Every handler answers "
             "(False, <error>): ValueError -> ERROR_COMPUTE_METADATA, a device error during the chunks -> chunk_error_mapping.get(<its code>, "
             "ERROR_<..>) (the table R3 of C04 composes with the documented codes). Nothing else is decided.")
    okop, OPI = try_fold(P, ast.parse("self.OFF.OP", mode="eval").body, sbh, D)
    run.require(okop, "OFF.OP not foldable")
    state = {"W": None}

    def resolve(e):
        b = state["W"]._bind or {}
        for _ in range(6):
            names = {n.id for n in ast.walk(e) if isinstance(n, ast.Name)}
            hit = {k: v for k, v in b.items() if k in names}
            if not hit:
                break
            e = subst(e, hit)
        return e

    def atom(e):
        cp = cmp_parts(e)
        if cp is not None:
            l, op, r = cp
            lt, rt = _strip(norm(resolve(l))), _strip(norm(r))
            if op in ("==", "!=") and rt == "op_chunk" and isinstance(l, ast.Subscript) and try_fold(P, l.slice, sbh, D) == (True, OPI):
                x = resolve(l.value)
                if isinstance(x, ast.Call) and call_name(x) == "_send_command":
                    return ("OPC", op == "==")
            if lt == "rlp_mm_payload_size(block)":
                okr, rv = try_fold(P, r, sbh, D)
                rv = unwrap(rv) if okr else None
                if isinstance(rv, int) and (op, rv) in ((">", 0xFFFF), (">=", 0x10000), ("<=", 0xFFFF), ("<", 0x10000)):
                    return ("BIG", op in (">", ">="))
            if op in ("==", "!=") and {_strip(norm(l)), rt} == {"command", "self.CMD.ADVANCE"}:
                return ("ADV", op == "==")
            if op in ("==", "!=") and _strip(norm(l)) == "header_name" and isinstance(r, ast.Constant):
                return (f"NAME {r.value}", op == "==")
            if op in ("in", "not in") and lt.endswith(".error_code") and isinstance(r, (ast.List, ast.Tuple, ast.Set)) \
                    and all(_strip(norm(x)).startswith("errors.") for x in r.elts):
                return ("ERR " + ",".join(sorted(_strip(norm(x))[7:] for x in r.elts)), op == "in")
            if op in ("==", "!=") and lt.endswith(".error_code") and rt.startswith("errors."):
                return ("ERR " + rt[7:], op == "==")
            if op in ("in", "not in") and lt.endswith(".error_code") and rt == "chunk_error_mapping":
                return ("ERR mapped", op == "in")
        x = resolve(e)
        if isinstance(x, ast.Subscript) and isinstance(x.slice, ast.Constant) and x.slice.value == 0 and isinstance(x.value, ast.Call) \
                and call_name(x.value) == "_send_data_in_chunks":
            return ("CHK", True)
        return None
    W = Walker(A, sbh, D, atom, follow_exc=True, max_leaves=4000, max_steps=200000)
    state["W"] = W
    n_cases = 0
    for lf in W.walk(g.entry):
        unknown = sorted(k[1:] for k in lf.pc if isinstance(k, str) and k.startswith("?"))
        run.check("R10", not unknown, "decides on the protocol's conditions only", key=f"_send_block_header|flow|extra|{';'.join(unknown)[:60]}",
                  where=sbh.loc(lf.node.ast) if lf.node.ast is not None else sbh.loc(),
                  message=f"_send_block_header decides on `{'`, `'.join(unknown)[:120]}`, which is not one of the conditions of the header exchange")
        if unknown:
            continue
        hs = [n.ast for n in lf.path if n.kind == "handler" and isinstance(n.ast, ast.ExceptHandler)]
        raised = [st_ for k_, st_, v_ in lf.effects if k_ == "raised"]
        if lf.kind == "return" and lf.node.ast.value is not None:
            v = lf.deep(lf.node.ast.value)
            if isinstance(v, ast.Tuple) and len(v.elts) == 2 and isinstance(v.elts[0], ast.Constant) and isinstance(v.elts[0].value, bool):
                got = f"({v.elts[0].value}, {_strip(norm(v.elts[1]))})"
            elif isinstance(v, ast.Call) and call_name(v) == "_send_data_in_chunks":
                got = "relay"
            else:
                got = f"return {_strip(norm(v))[:60]}"
        else:
            got = lf.kind
        n_cases += 1
        where = sbh.loc(lf.node.ast) if lf.node.ast is not None else sbh.loc()
        if hs:
            h = hs[-1]
            ht = norm(h.type) if h.type is not None else "any exception"
            desc = f"handler {ht}" + "".join(f", {k}={'T' if b else 'F'}" for k, b in sorted(lf.pc.items()) if k.startswith("ERR "))
            if ht == "ValueError":
                okh = got == "(False, responses.ERROR_COMPUTE_METADATA)"
                w = "(False, responses.ERROR_COMPUTE_METADATA)"
            else:
                m_ = re.fullmatch(r"\(False, (responses\.ERROR_\w+|chunk_error_mapping\.get\((\w+)\.error_code, responses\.ERROR_\w+\))\)", got)
                okh = m_ is not None and (m_.group(2) is None or m_.group(2) == h.name)
                # `if code in mapping: (False, mapping[code]) else: (False, ERROR_..)` is the same table read
                mapped = lf.pc.get("ERR mapped")
                m2_ = re.fullmatch(r"\(False, chunk_error_mapping\[(\w+)\.error_code\]\)", got)
                via_test = (mapped is True and m2_ is not None and m2_.group(1) == h.name) or (mapped is False and m_ is not None and m_.group(2) is None)
                # the handler around the chunk exchange answers through the per-command table
                in_chunk_try = any(isinstance(c_, ast.Call) and call_name(c_) == "_send_data_in_chunks" for st_ in raised for c_ in ast.walk(st_)) or \
                    any(isinstance(c_, ast.Call) and call_name(c_) == "_send_data_in_chunks" for t_ in ast.walk(sbh.node) if isinstance(t_, ast.Try) and h in t_.handlers
                        for b_ in t_.body for c_ in ast.walk(b_))
                if in_chunk_try:
                    okh = (okh and m_.group(2) is not None) or via_test
                    w = "(False, chunk_error_mapping.get(<the status>, responses.ERROR_..))"
                else:
                    w = "(False, responses.ERROR_..)"
            run.check("R10", okh, f"[{desc}] -> {w}", key=f"_send_block_header|flow|{desc}", where=where,
                      message=f"_send_block_header, {desc}: the code does `{got}`, expected `{w}`: a failed header exchange reported as success makes the block loop go on "
                              "with an answer that is no answer; a device status not passed through the command's table loses its documented code")
            continue
        v = lf.pc
        desc = ", ".join(f"{a}={'T' if v[a] else 'F'}" for a in ("BIG", "OPC", "CHK") if a in v) or "-"
        if v.get("BIG"):
            w = "raise"          # ValueError, answered by its handler (above)
        elif v.get("OPC") is False:
            w = "(False, responses.ERROR_UNEXPECTED)"
        elif v.get("CHK") is False:
            w = "(False, responses.ERROR_UNEXPECTED)"
        else:
            w = "relay"
        run.check("R10", got == w and ("BIG" in v), f"[{desc}] -> {w}", key=f"_send_block_header|flow|{desc}", where=where,
                  message=f"_send_block_header, case [{desc}]: the code does `{got}`, the header exchange requires `{w}`"
                          + ("" if "BIG" in v else " (and the payload size is not bounded by 0xFFFF before to_bytes(2))"))
    run.floor("R10", "flow cases of _send_block_header", n_cases, 8)


def _brother_list_answer(run, PV, D, dbo, g, lay):
    """R7: what the answer to the brother-list metadata may be."""
    P, A = run.P, run.A
    run.rule("R7", "Answer to the brother-list metadata, decided on the decision table of the region from that send to the brother loop: "
             "with C = (brother count > 0) and M = (answer op == ops.BROTHER_META): C and not M -> (False, ERROR_UNEXPECTED); every "
             "other case goes on (with no brothers the device may ask for the next block, report success or partial success).")
    target = [c for k, (ls, c) in lay.items() if ls == {"u8(ops.BROTHER_LIST_META) | u8(len(brother_list))"}]
    run.require(len(target) == 1, "_do_block_operation: the brother-list metadata send was not identified")
    send = target[0]
    sn = g.nodes_of(send)
    run.require(len(sn) == 1, "_do_block_operation: brother-list send node not unique")
    okop, OPI = try_fold(P, ast.parse("self.OFF.OP", mode="eval").body, dbo, D)

    def atom(e):
        cp = cmp_parts(e)
        if cp is None:
            return None
        l, op, r = cp
        lt, rt = _strip(norm(l)), _strip(norm(r))
        cnt = ("brother_count", "len(brother_list)") + tuple(f"len({norm(d_.value)})" for d_ in defs_of(A, dbo, "brother_list") if d_.value is not None)
        if lt in cnt and isinstance(r, ast.Constant) and r.value == 0 and op in (">", "<=", "!=", "=="):
            return ("C", op in (">", "!="))
        if lt in cnt and isinstance(r, ast.Constant) and r.value == 1 and op in (">=", "<"):
            return ("C", op == ">=")
        if rt == "ops.BROTHER_META" and op in ("==", "!=") and isinstance(l, ast.Subscript):
            call, idx = answer_field(run, PV, dbo, D, l, sn[0])
            ok_ = isinstance(l.slice, ast.AST) and try_fold(P, l.slice, dbo, D) == (True, OPI)
            if ok_:
                return ("M", op == "==")
        return None
    n_cases = 0
    # seed the store with what precedes the send inside the same block (brother_count etc. stay symbolic)
    for lf in Walker(A, dbo, D, atom, stop_at_for=True).walk(sn[0]):
        if lf.kind == "return":
            v = lf.deep(lf.node.ast.value) if lf.node.ast.value is not None else None
            actual = "fail:" + (norm(v.elts[1]) if isinstance(v, ast.Tuple) and len(v.elts) == 2 else norm(v)) if v is not None else "return"
        elif lf.kind == "stop":
            actual = "go on"
        else:
            actual = lf.kind
        for val in completions({k: b for k, b in lf.pc.items() if k in ("C", "M")}, ["C", "M"]):
            n_cases += 1
            want = "fail:responses.ERROR_UNEXPECTED" if (val["C"] and not val["M"]) else "go on"
            desc = f"C={'T' if val['C'] else 'F'}, M={'T' if val['M'] else 'F'}"
            run.check("R7", actual == want, f"[{desc}] -> {want}", key=f"_do_block_operation|brother-list-answer|{desc}", where=dbo.loc(lf.node.ast) if lf.node.ast is not None else dbo.loc(),
                      message=f"after the brother-list metadata, case [{desc}] (C: the block has brothers, M: the device asks for brother metadata): the code does "
                              f"`{actual}`, the protocol requires `{want}` (e.g. with no brothers the device legitimately answers with the next block request, "
                              "success or partial success)")
    run.floor("R7", "brother-list answer cases", n_cases, 4)


def _mm_table(run, F, PV, upd, D):
    P, A = run.P, run.A
    run.rule("R5", "Merge-mining slice table of remove_mm_fields_if_present: 19|20 fields -> [:-2] keeping the BTC header, [:-3] "
             "otherwise; 17|18 fields -> unchanged keeping it, [:-1] otherwise; any other count raises ValueError; the result is "
             "rlp.encode of that slice (hex when asked); rlp_mm_payload_size strips with leave_btcblock=False, hex=False; "
             "update_ancestor strips every block with the defaults (leave_btcblock=True), the same form whose keccak is the block "
             "hash; RLP list prefixes 0xC0-0xF7 short / 0xF8-0xFF long big-endian.")
    rm = P.func("ledger.block_utils.remove_mm_fields_if_present")
    g = A.cfg(rm, None)
    d = rm.node.args.defaults
    run.check("R5", [norm(x) for x in d] == ["True", "True"] and rm.params[1:] == ["leave_btcblock", "hex"], "defaults leave_btcblock=True, hex=True",
              key="remove_mm_fields_if_present|defaults", where=rm.loc(), message=f"defaults are {[norm(x) for x in d]}")
    pr = rm.params[0]
    n_cases = 0

    def iev(e, env):
        """integer / membership evaluation of a closed expression under env (len(block) -> n, flags)"""
        if isinstance(e, ast.Constant):
            return e.value
        if isinstance(e, ast.Name) and e.id in env:
            return env[e.id]
        if isinstance(e, ast.Call) and isinstance(e.func, ast.Name) and e.func.id == "len" and len(e.args) == 1 \
                and norm(e.args[0]) in ("block", f"rlp.decode(bytes.fromhex({pr}))"):
            return env["$n"]
        if isinstance(e, (ast.List, ast.Tuple, ast.Set)):
            return [iev(x, env) for x in e.elts]
        if isinstance(e, ast.UnaryOp) and isinstance(e.op, ast.USub):
            return -iev(e.operand, env)
        if isinstance(e, ast.UnaryOp) and isinstance(e.op, ast.Not):
            return not iev(e.operand, env)
        if isinstance(e, ast.BinOp) and isinstance(e.op, (ast.Add, ast.Sub)):
            a_, b_ = iev(e.left, env), iev(e.right, env)
            return a_ + b_ if isinstance(e.op, ast.Add) else a_ - b_
        if isinstance(e, ast.IfExp):
            return iev(e.body, env) if iev(e.test, env) else iev(e.orelse, env)
        if isinstance(e, ast.BoolOp):
            vs = [iev(v, env) for v in e.values]
            return all(vs) if isinstance(e.op, ast.And) else any(vs)
        if isinstance(e, ast.Compare) and len(e.ops) == 1:
            l_, r_ = iev(e.left, env), iev(e.comparators[0], env)
            o = e.ops[0]
            return {ast.In: lambda: l_ in r_, ast.NotIn: lambda: l_ not in r_, ast.Eq: lambda: l_ == r_, ast.NotEq: lambda: l_ != r_,
                    ast.Lt: lambda: l_ < r_, ast.LtE: lambda: l_ <= r_, ast.Gt: lambda: l_ > r_, ast.GtE: lambda: l_ >= r_}[type(o)]()
        raise Unknown(norm(e))
    for n in range(15, 23):
        for leave in (True, False):
            for hx in (True, False):
                env = {"$n": n, rm.params[1]: leave, rm.params[2]: hx}

                def atom(e, env=env):
                    try:
                        return (bool(iev(fold_consts(P, e, rm, None, locals_=set(PV.defs(rm, None)) | set(rm.params)), env)), True)
                    except (Unknown, KeyError, TypeError):
                        return None
                leaves = [lf for lf in Walker(A, rm, None, atom).walk(g.entry) if not (lf.kind == "raise" and lf.node is g.raise_exit)]
                desc = f"{n} fields, leave_btcblock={leave}, hex={hx}"
                n_cases += 1
                if n not in (17, 18, 19, 20):
                    okc = all(lf.kind == "raise" and isinstance(lf.value, ast.Call) and norm(lf.value.func) == "ValueError" for lf in leaves) and bool(leaves)
                    run.check("R5", okc, f"[{desc}] -> ValueError", key=f"remove_mm_fields_if_present|slice-table|reject-{n}", where=rm.loc(),
                              message=f"a header with {n} fields is not rejected with ValueError ({[lf.kind for lf in leaves]})")
                    continue
                keep = n - (2 if leave else 3) if n in (19, 20) else n - (0 if leave else 1)
                okc = len(leaves) == 1 and leaves[0].kind == "return" and leaves[0].node.ast.value is not None
                why = f"{[lf.kind for lf in leaves]}"
                if okc:
                    lf = leaves[0]
                    v = lf.deep(lf.node.ast.value, stop=("block",))
                    if hx:
                        okc = isinstance(v, ast.Call) and isinstance(v.func, ast.Attribute) and v.func.attr == "hex" and not v.args
                        v = v.func.value if okc else v
                    okc = okc and isinstance(v, ast.Call) and norm(v.func) == "rlp.encode" and len(v.args) == 1
                    why = f"returns `{norm(lf.deep(lf.node.ast.value, stop=('block',)))[:80]}`"
                    if okc:
                        x = v.args[0]
                        for _ in range(4):      # conditional expressions decided by the case's flags
                            if isinstance(x, ast.IfExp):
                                try:
                                    x = x.body if iev(fold_consts(P, x.test, rm, None, locals_={"block"}), env) else x.orelse
                                except (Unknown, KeyError, TypeError):
                                    break
                        DEC = f"rlp.decode(bytes.fromhex({pr}))"
                        base_ = None
                        try:
                            if (isinstance(x, ast.Name) and x.id == "block") or norm(x) == DEC:
                                kept = list(range(n))
                                base_ = norm(x)
                            elif isinstance(x, ast.Subscript) and norm(x.value) in ("block", DEC) and isinstance(x.slice, ast.Slice):
                                base_ = norm(x.value)
                                sl = slice(*(None if b_ is None else iev(fold_consts(P, b_, rm, None, locals_={"block"}), env)
                                             for b_ in (x.slice.lower, x.slice.upper, x.slice.step)))
                                kept = list(range(n))[sl]
                            else:
                                kept = None
                        except (Unknown, KeyError, TypeError):
                            kept = None
                        okc = kept == list(range(keep))
                        if kept is None:
                            why = f"returns `{norm(v)[:100]}` (slice not closed under the case)"
                        else:
                          why = f"keeps fields {kept if kept is None or len(kept) < 6 else str(kept[:2])[:-1] + ', ..., ' + str(kept[-1]) + ']'} of {n}"
                        bd_ = lf.env.get("block", lf.bind.get("block"))
                        okc = okc and (base_ == DEC or (bd_ is not None and norm(lf.deep(bd_)) == DEC))
                run.check("R5", okc, f"[{desc}] -> rlp.encode of the first {keep} fields{' in hex' if hx else ''}", key=f"remove_mm_fields_if_present|slice-table|{n}|{leave}|{hx}",
                          where=rm.loc(), message=f"merge-mining slice table, case [{desc}]: {why}; expected rlp.encode(block[:{keep}]){'.hex()' if hx else ''} of the decoded header")
    run.floor("R5", "slice-table cases", n_cases, 32)
    ps = P.func("ledger.block_utils.rlp_mm_payload_size")
    gp = A.cfg(ps, None)
    rr = [n for n in A.own_nodes(ps) if isinstance(n, ast.Return)]
    okp = False
    got = set()
    for r in rr:
        for rn in gp.nodes_of(r):
            got = {_strip(x) for x in PV.expand_consistent(ps, None, r.value, rn)}
            okp = got == {_strip(f"rlp_first_element_list_payload_length(remove_mm_fields_if_present({ps.params[0]}, leave_btcblock=False, hex=False))")}
            if not okp and len(got) == 1:
                e = ast.parse(next(iter(got)), mode="eval").body
                if isinstance(e, ast.Call) and call_name(e) == "rlp_first_element_list_payload_length" and isinstance(e.args[0], ast.Call):
                    cs = [x.fn for x in A.resolve_call(e.args[0], ps, None) if x.fn is not None]
                    if len(cs) == 1:
                        hr = [n for n in A.own_nodes(cs[0]) if isinstance(n, ast.Return)]
                        hp = cs[0].params[0]
                        okp = len(hr) == 1 and norm(hr[0].value) == f"remove_mm_fields_if_present({hp}, leave_btcblock=False, hex=False)"
    run.check("R5", okp, "payload size over the header without any merge-mining field", key="rlp_mm_payload_size|expr", where=ps.loc(),
              message=f"rlp_mm_payload_size computes {sorted(got)[:1]}")
    c = find_calls(A, upd, "_do_block_operation")[0]
    gu_ = A.cfg(upd, D)
    forms = set()
    for cn in gu_.nodes_of(c):
        for x in PV.expand_consistent(upd, D, c.args[1], cn):
            cl_ = canon_list_text(x)
            forms.add(tuple(cl_) if cl_ is not None else ("?" + x,))
    run.check("R5", forms == {("map(remove_mm_fields_if_present(ELEM(blocks)))",)}, "ancestor blocks stripped with the defaults, in order, and sent",
              key="update_ancestor|strip", where=upd.loc(c), message=f"update_ancestor sends blocks prepared as {sorted(forms)[:2]}: "
              "stripping with other options (or not at all, or reordered) changes the block hash the device computes")
    fl = P.func("ledger.block_utils.rlp_first_element_list_payload_length")
    gf = A.cfg(fl, None)
    # the prefix table, one case per value of the first byte (closed under it): short list -> b - 0xC0, long list -> big-endian integer of the
    # next b - 0xF7 bytes, anything else -> ValueError.  Early returns, chained comparisons, elif ladders all give the same table.
    bsn = fl.params[0]

    def bev(e, bval, names=None):
        if isinstance(e, ast.Constant):
            return e.value
        if isinstance(e, ast.Name) and names and e.id in names:
            return names[e.id]
        if isinstance(e, ast.Subscript) and norm(e) == f"{bsn}[0]":
            return bval
        if isinstance(e, ast.UnaryOp) and isinstance(e.op, ast.Not):
            return not bev(e.operand, bval, names)
        if isinstance(e, ast.UnaryOp) and isinstance(e.op, ast.USub):
            return -bev(e.operand, bval, names)
        if isinstance(e, ast.BinOp) and type(e.op) in (ast.Add, ast.Sub, ast.LShift, ast.BitOr, ast.BitAnd, ast.Mult):
            a_, b_ = bev(e.left, bval, names), bev(e.right, bval, names)
            return {ast.Add: lambda: a_ + b_, ast.Sub: lambda: a_ - b_, ast.LShift: lambda: a_ << b_, ast.BitOr: lambda: a_ | b_,
                    ast.BitAnd: lambda: a_ & b_, ast.Mult: lambda: a_ * b_}[type(e.op)]()
        if isinstance(e, ast.BoolOp):
            vs = [bev(v, bval, names) for v in e.values]
            return all(vs) if isinstance(e.op, ast.And) else any(vs)
        if isinstance(e, (ast.List, ast.Tuple)):
            return [bev(x, bval, names) for x in e.elts]
        if isinstance(e, ast.Call) and norm(e.func) == "range" and 1 <= len(e.args) <= 2 and not e.keywords:
            return range(*[bev(a_, bval, names) for a_ in e.args])
        if isinstance(e, ast.Compare):
            l_ = bev(e.left, bval, names)
            for o, c_ in zip(e.ops, e.comparators):
                r_ = bev(c_, bval, names)
                ok_ = {ast.In: lambda: l_ in r_, ast.NotIn: lambda: l_ not in r_, ast.Eq: lambda: l_ == r_, ast.NotEq: lambda: l_ != r_,
                       ast.Lt: lambda: l_ < r_, ast.LtE: lambda: l_ <= r_, ast.Gt: lambda: l_ > r_, ast.GtE: lambda: l_ >= r_}[type(o)]()
                if not ok_:
                    return False
                l_ = r_
            return True
        raise Unknown(norm(e))
    bad, loops, fornodes = [], set(), set()
    for bval in range(256):
        def atom(e, bval=bval):
            try:
                return (bool(bev(fold_consts(P, e, fl, None, locals_=set(PV.defs(fl, None)) | set(fl.params)), bval)), True)
            except (Unknown, KeyError, TypeError):
                return None
        leaves = [lf for lf in Walker(A, fl, None, atom, stop_at_for=True).walk(gf.entry) if not (lf.kind == "raise" and lf.node is gf.raise_exit)]
        try:
            if bval < 0xC0:
                ok_ = bool(leaves) and all(lf.kind == "raise" and isinstance(lf.value, ast.Call) and norm(lf.value.func) == "ValueError" for lf in leaves)
            elif bval <= 0xF7:
                ok_ = len(leaves) == 1 and leaves[0].kind == "return" and leaves[0].node.ast.value is not None \
                    and bev(fold_consts(P, leaves[0].deep(leaves[0].node.ast.value), fl, None, locals_=set(fl.params)), bval) == bval - 0xC0
            else:
                ok_ = len(leaves) == 1 and leaves[0].kind == "stop" and isinstance(leaves[0].node.ast, ast.For)
                if ok_:
                    lf = leaves[0]
                    loop = lf.node.ast
                    loops.add(loop)
                    fornodes.add(lf.node)
                    it = bev(fold_consts(P, lf.deep(loop.iter), fl, None, locals_=set(fl.params)), bval)
                    acc = [t.id for st_ in loop.body if isinstance(st_, ast.Assign) for t in st_.targets if isinstance(t, ast.Name)]
                    # the bytes read, in order: the index expression of the loop body evaluated for every value of the loop variable
                    subs_ = [x for st_ in loop.body for x in ast.walk(st_) if isinstance(x, ast.Subscript) and norm(x.value) == bsn and not isinstance(x.slice, ast.Slice)]
                    idxs = None
                    if len(subs_) == 1 and isinstance(loop.target, ast.Name) and isinstance(it, range) and len(it) <= 8:
                        idxs = [bev(fold_consts(P, lf.deep(subs_[0].slice, stop=(loop.target.id,)), fl, None, locals_=set(fl.params) | {loop.target.id}), bval,
                                    {loop.target.id: i_}) for i_ in it]
                    ok_ = idxs == list(range(1, bval - 0xF7 + 1)) and len(acc) == 1 and acc[0] in lf.env and bev(lf.env[acc[0]], bval) == 0
        except (Unknown, KeyError, TypeError):
            ok_ = False
        if not ok_:
            bad.append(bval)
    rng = _ranges(bad) if bad else []
    run.check("R5", not bad, "RLP list prefix table (256 cases)", key="rlp_first_element_list_payload_length|table", where=fl.loc(),
              message=f"RLP list-prefix decoding deviates for first bytes {[(hex(a_), hex(b_)) for a_, b_ in rng][:4]}: expected ValueError below 0xC0, "
                      "b - 0xC0 up to 0xF7, and the big-endian integer of the next b - 0xF7 bytes above")
    okl = len(loops) == 1
    why_ = f"{len(loops)} loops"
    if okl:
        loop = next(iter(loops))
        iv = loop.target.id if isinstance(loop.target, ast.Name) else None
        body = [st_ for st_ in loop.body if not (isinstance(st_, ast.Expr) and isinstance(st_.value, ast.Constant))]
        okl = iv is not None and len(body) == 1 and isinstance(body[0], (ast.Assign, ast.AugAssign))
        why_ = f"loop body `{'; '.join(norm(x) for x in body)[:80]}`"
        if okl:
            st_ = body[0]
            accn = norm(st_.targets[0]) if isinstance(st_, ast.Assign) else norm(st_.target)
            val = st_.value if isinstance(st_, ast.Assign) else ast.BinOp(left=ast.Name(id=accn, ctx=ast.Load()), op=st_.op, right=st_.value)
            shifted = {f"{accn} << 8", f"{accn} * 256", f"256 * {accn}"}

            def is_next(x):      # the byte at the index decided above (checked per case to be 1, 2, .. N)
                return isinstance(x, ast.Subscript) and norm(x.value) == bsn and not isinstance(x.slice, ast.Slice)
            okl = isinstance(val, ast.BinOp) and isinstance(val.op, (ast.BitOr, ast.Add)) and (
                (norm(val.left) in shifted and is_next(val.right)) or (norm(val.right) in shifted and is_next(val.left)))
            # after the loop: the accumulated value is returned
            inbody = {id(y) for x in loop.body for y in ast.walk(x)}
            after, todo, seen_ = set(), [s_ for ln in fornodes for s_ in gf.succ[ln]], set()
            while todo:
                s_ = todo.pop()
                if s_ in seen_ or s_ is gf.raise_exit:
                    continue
                seen_.add(s_)
                if s_.ast is None or s_.kind not in ("stmt", "cond", "for", "with"):
                    todo += list(gf.succ[s_])
                elif id(s_.ast) not in inbody:
                    after.add(s_)
            okl = okl and bool(after) and all(n_.kind == "stmt" and isinstance(n_.ast, ast.Return) and n_.ast.value is not None
                                              and norm(n_.ast.value) == accn for n_ in after)
    run.check("R5", okl, "long-list length is accumulated big-endian and returned", key="rlp_first_element_list_payload_length|loop", where=fl.loc(),
              message=f"RLP long-list length: {why_} is not `L = L << 8 | {bsn}[1 + i]` followed by `return L`")
    # (the number of length bytes, b - 0xF7, is part of the 256-case table above: the indices read must be 1 .. b - 0xF7)
