"""C05 - advance / ancestor update hand the device the client's blocks intact
(message shapes, which block each datum is computed from, order, sort, slice table)."""
import ast
import re
from sa.model import AnalysisError, Unknown, norm, unwrap, EnumMember
from sa.query import Facts, call_name, find_calls, try_fold, calls_in, defs_of, kwarg
from sa.prov import Prov
from sa.layout import Layout
from .common import firmware, protocol_classes
from .c06 import _strip
from .c01 import _lay

TECHNIQUE = ("provenance expansion + byte-layout normalisation of the init / metadata / chunk / brother-list messages "
             "per operation context, same-block and order rules by reaching definitions, structural recognition of the "
             "brothers sort and of the merge-mining slice table, constant agreement with bc_advance.h / bc_ancestor.h / bc.h")
EXPLANATION = (
    "Static analysis of /repo's current source (nothing executed). Decides: init = u8(INIT)|u32be(len(blocks)); block "
    "metadata = u8(meta op)|u16be(rlp_mm_payload_size(block)) followed, iff the command is ADVANCE, by the hash of that same "
    "block's coinbase transaction; chunks carry hexdecode(block) of the same parameter with the op of the context and the "
    "documented next-op sets, expect_full_data=False; brother list metadata = u8(BROTHER_LIST_META)|u8(count); blocks are "
    "iterated front to back un-reordered and the brothers of the i-th block are brothers[i]; in the advance context each "
    "brother list is sorted ascending by the bytes of get_block_hash (merge-mining fields removed leaving the BTC header); "
    "the merge-mining slice table and the RLP list-prefix table; update_ancestor strips with the same defaults the block "
    "hash uses; coinbase midstate constants equal bc.h; op codes equal the firmware's; results map to 0/1 (C04-R2). Does not "
    "decide byte-exactness for all headers nor rlp / SHA-256-midstate arithmetic."
)


def run(run):
    P, A = run.P, run.A
    F = Facts(A)
    PV = Prov(A, max_variants=64)
    fw = firmware(run)
    D = P.cls("ledger.hsm2dongle.HSM2Dongle")
    dbo = P.method(D, "_do_block_operation")
    sbh = P.method(D, "_send_block_header")
    adv = P.method(D, "advance_blockchain")
    upd = P.method(D, "update_ancestor")
    g = A.cfg(dbo, D)
    gh = A.cfg(sbh, D)

    # ---------------------------------------------------------------- R1
    run.rule("R1", "Layouts: init u8(ops.INIT) | u32be(len(blocks)); header/brother metadata u8(op_meta) | "
             "u16be(rlp_mm_payload_size(block)) [| hexdecode(coinbase_tx_get_hash(get_coinbase_txn(block))) iff command == "
             "CMD.ADVANCE]; chunks: data = hexdecode(block), operation = op_chunk, expect_full_data = False, next_operations = "
             "[op_chunk, op_meta, SUCCESS] (+ PARTIAL for advance, + BROTHER_LIST_META after a block, + HEADER_META after a "
             "brother); brother list metadata u8(ops.BROTHER_LIST_META) | u8(len(brother_list)); the contexts pass "
             "(HEADER_META, HEADER_CHUNK) for blocks and (BROTHER_META, BROTHER_CHUNK) for brothers; op codes == firmware.")
    sends = find_calls(A, dbo, "_send_command")
    lay = {}
    for c in sends:
        for cn in g.nodes_of(c):
            lay[norm(c.args[1])[:30] + str(c.lineno)] = (_lay(run, PV, dbo, D, c.args[1], cn, stop=("brother_list",)), c)
    got = sorted(tuple(sorted(v[0])) for v in lay.values())
    want = sorted([("u8(ops.INIT) | u32be(len(blocks))",), ("u8(ops.BROTHER_LIST_META) | u8(len(brother_list))",)])
    run.check("R1", got == want, "init and brother-list metadata layouts", key="_do_block_operation|layouts", where=dbo.loc(),
              message=f"_do_block_operation sends {got}; the firmware expects {want}")
    for c in sends:
        run.check("R1", norm(c.args[0]) == "command", "block operation sends use the context's command", key=f"_do_block_operation|send-command|{c.lineno}",
                  where=dbo.loc(c), message=f"send uses command `{norm(c.args[0])}`")
    hs = find_calls(A, sbh, "_send_command")
    run.check("R1", len(hs) == 1, "one metadata send per header", key="_send_block_header|sends", where=sbh.loc(), message=f"{len(hs)} direct sends")
    for c in hs:
        for cn in gh.nodes_of(c):
            got = _lay(run, PV, sbh, D, c.args[1], cn)
            want = {"u8(op_meta) | u16be(rlp_mm_payload_size(block))",
                    "u8(op_meta) | u16be(rlp_mm_payload_size(block)) | hex(coinbase_tx_get_hash(get_coinbase_txn(block)))"}
            run.check("R1", got == want, "metadata layout (with the coinbase hash of the same block for advance)",
                      key="_send_block_header|metadata-layout", where=sbh.loc(c),
                      message=f"metadata message is {sorted(got)}; expected {sorted(want)}")
    # coinbase hash iff advance
    cbd = [d for d in PV.defs(sbh, D).get("cb_txn_hash", [])]
    for d in cbd:
        if "coinbase_tx_get_hash" in norm(d.value):
            facts = {f.text() for f in F.local(sbh, D, d.cnode)}
            run.check("R1", "command == self.CMD.ADVANCE" in facts, "coinbase hash only for advance", key="_send_block_header|cb-hash-guard",
                      where=sbh.loc(d.node), message="the coinbase transaction hash is sent for a command other than ADVANCE")
        else:
            run.check("R1", norm(d.value) in ("bytes([])", "b''"), "empty coinbase hash otherwise", key="_send_block_header|cb-hash-empty",
                      where=sbh.loc(d.node), message=f"default cb_txn_hash is `{norm(d.value)}`")
    ch = find_calls(A, sbh, "_send_data_in_chunks")
    run.check("R1", len(ch) == 1, "one chunked send per header", key="_send_block_header|chunked", where=sbh.loc(), message=f"{len(ch)} chunked sends")
    for c in ch:
        kws = {k.arg: norm(k.value) for k in c.keywords}
        sdc = P.method(D, "_send_data_in_chunks")
        a_ = sdc.node.args
        ps_ = [x.arg for x in a_.args]
        for nm_, dv_ in zip(ps_[len(ps_) - len(a_.defaults):], a_.defaults):
            kws.setdefault(nm_, norm(dv_))       # arguments left to their defaults
        run.check("R1", kws.get("command") == "command" and kws.get("operation") == "op_chunk" and kws.get("data") == "bytes.fromhex(block)"
                  and kws.get("expect_full_data") == "False" and kws.get("initial_bytes") == "bytes_requested"
                  and kws.get("next_operations") == "next_operations",
                  "chunks: the block's own bytes with the context's chunk op, partial data allowed", key="_send_block_header|chunk-args",
                  where=sbh.loc(c), message=f"chunked send arguments: {kws}")
    # next operations construction
    no = defs_of(A, sbh, "next_operations")
    run.check("R1", len(no) == 1 and norm(no[0].value) == "[op_chunk, op_meta, ops.SUCCESS]", "base next-op set", key="_send_block_header|next-ops-base",
              where=sbh.loc(), message=f"next_operations starts as `{norm(no[0].value) if no else None}`")
    apps = [c for c in find_calls(A, sbh, "append") if norm(c.func.value) == "next_operations"]
    extra = {}
    for c in apps:
        for cn in gh.nodes_of(c):
            extra[norm(c.args[0])] = sorted(f.text() for f in F.local(sbh, D, cn)
                                            if f.text().startswith(("command ", "header_name ")))
    run.check("R1", extra == {"ops.PARTIAL": ["command == self.CMD.ADVANCE"],
                              "ops.BROTHER_LIST_META": ["command == self.CMD.ADVANCE", "header_name == 'block'"],
                              "ops.HEADER_META": ["command == self.CMD.ADVANCE", "header_name == 'brother'"]},
              "advance-only next ops", key="_send_block_header|next-ops-advance", where=sbh.loc(),
              message=f"conditional next operations: {extra}")
    # contexts
    calls = find_calls(A, dbo, "_send_block_header")
    ctx = sorted((kwarg(c, "header_name").value, norm(kwarg(c, "block")), norm(kwarg(c, "op_meta")), norm(kwarg(c, "op_chunk"))) for c in calls)
    run.check("R1", ctx == sorted([("block", "block", "ops.HEADER_META", "ops.HEADER_CHUNK"),
                                   ("brother", "brother", "ops.BROTHER_META", "ops.BROTHER_CHUNK")]),
              "block and brother contexts", key="_do_block_operation|contexts", where=dbo.loc(), message=f"_send_block_header contexts: {ctx}")
    for c in calls:
        kws = {k.arg: norm(k.value) for k in c.keywords}
        run.check("R1", kws.get("command") == "command" and kws.get("ops") == "ops" and kws.get("chunk_error_mapping") == "chunk_error_mapping",
                  "context tables passed through", key=f"_do_block_operation|context-passthrough|{kws.get('header_name')}", where=dbo.loc(c),
                  message=f"_send_block_header called with {kws}")
    for fn, cmdn, opsn in ((adv, "self.CMD.ADVANCE", "self.OP.ADVANCE"), (upd, "self.CMD.UPD_ANCESTOR", "self.OP.UPD_ANCESTOR")):
        c = find_calls(A, fn, "_do_block_operation")
        run.require(len(c) == 1, f"{fn.name}: _do_block_operation call vanished")
        a = [norm(x) for x in c[0].args]
        run.check("R1", a[3] == cmdn and a[4] == opsn, f"{fn.name} uses its own command and op table", key=f"{fn.name}|context", where=fn.loc(c[0]),
                  message=f"{fn.name} runs the block operation with ({a[3]}, {a[4]})")
    ao = P.enum_members(P.cls("ledger.hsm2dongle._AdvanceOps"))
    uo = P.enum_members(P.cls("ledger.hsm2dongle._UpdateAncestorOps"))
    ca = fw.file("powhsm/src/bc_advance.h").all_enum_members()
    cu = fw.file("powhsm/src/bc_ancestor.h").all_enum_members()
    for nm, m in ao.items():
        run.check("R1", ca.get("OP_ADVANCE_" + nm) == m.value, f"_AdvanceOps.{nm} == OP_ADVANCE_{nm}", key=f"_AdvanceOps|{nm}",
                  where="middleware/ledger/hsm2dongle.py", message=f"_AdvanceOps.{nm} = {m.value}, firmware {ca.get('OP_ADVANCE_' + nm)}")
    for nm, m in uo.items():
        run.check("R1", cu.get("OP_UPD_ANCESTOR_" + nm) == m.value, f"_UpdateAncestorOps.{nm} == OP_UPD_ANCESTOR_{nm}", key=f"_UpdateAncestorOps|{nm}",
                  where="middleware/ledger/hsm2dongle.py", message=f"_UpdateAncestorOps.{nm} = {m.value}, firmware {cu.get('OP_UPD_ANCESTOR_' + nm)}")

    # ---------------------------------------------------------------- R2
    run.rule("R2", "Same block: in _send_block_header the payload size, the coinbase hash and the chunk data are all computed from the "
             "unmodified parameter `block`.")
    bd = PV.defs(sbh, D).get("block", [])
    run.check("R2", not bd, "`block` is never reassigned in _send_block_header", key="_send_block_header|block-reassigned", where=sbh.loc(),
              message="`block` is reassigned inside _send_block_header: metadata and data could describe different headers")
    uses = sorted(norm(c) for c in [*find_calls(A, sbh, "rlp_mm_payload_size"), *find_calls(A, sbh, "get_coinbase_txn"), *find_calls(A, sbh, "fromhex")]
                  if "block" in norm(c))
    run.check("R2", uses == ["bytes.fromhex(block)", "bytes.fromhex(coinbase_tx_get_hash(get_coinbase_txn(block)))", "get_coinbase_txn(block)",
                             "rlp_mm_payload_size(block)"], "three uses of the same block", key="_send_block_header|block-uses", where=sbh.loc(),
              message=f"uses of `block`: {uses}")

    # ---------------------------------------------------------------- R3
    run.rule("R3", "Order: blocks are iterated as enumerate(blocks, 1) with `blocks` the unmodified parameter (no sorted / reversed / "
             "stepped slice); the brothers of the i-th block are brothers[block_number - 1] of the unmodified parameter, iterated "
             "front to back; len(blocks) announced is that of the same list; the protocol layer passes request['blocks'] / "
             "request['brothers'] as they are.")
    loops = [n for n in ast.walk(dbo.node) if isinstance(n, ast.For)]
    its = sorted(norm(l.iter) for l in loops)
    run.check("R3", its == ["enumerate(blocks, 1)", "enumerate(brother_list, 1)"], "loops over blocks and the block's brothers",
              key="_do_block_operation|loops", where=dbo.loc(), message=f"loops iterate {its}")
    for nm in ("blocks", "brothers"):
        run.check("R3", not PV.defs(dbo, D).get(nm), f"`{nm}` not reassigned in _do_block_operation", key=f"_do_block_operation|{nm}-reassigned",
                  where=dbo.loc(), message=f"`{nm}` is reassigned (re-ordered / filtered) inside _do_block_operation")
    bl = defs_of(A, dbo, "brother_list")
    run.check("R3", len(bl) == 1 and norm(bl[0].value) == "brothers[block_number - 1]", "brothers of block i are brothers[i]",
              key="_do_block_operation|brother-selection", where=dbo.loc(),
              message=f"the brother list of a block is selected as `{norm(bl[0].value) if bl else None}`: if the device skips the brothers of some "
                      "block, a later block would be given another block's brothers")
    for l in loops:
        if norm(l.iter) == "enumerate(blocks, 1)":
            run.check("R3", norm(l.target) == "(block_number, block)", "block_number counts from 1 with the block", key="_do_block_operation|enumerate-target",
                      where=dbo.loc(l), message=f"block loop target is {norm(l.target)}")
    for pc in protocol_classes(run):
        for mname, w in (("_advance_blockchain", "self.hsm2dongle.advance_blockchain(request['blocks'], request['brothers'])"),
                         ("_update_ancestor_block", "self.hsm2dongle.update_ancestor(request['blocks'])")):
            r = pc.lookup(mname)
            if r is None or r[2].qualname.startswith("comm.protocol."):
                continue
            m = r[2]
            cs = [norm(c) for c in find_calls(A, m, w.split("(")[0].split(".")[-1])]
            run.check("R3", cs == [w], f"{pc.name}.{mname} passes the request lists as they are", key=f"{pc.name}.{mname}|arguments", where=m.loc(),
                      message=f"{pc.name}.{mname} calls {cs}")

    # ---------------------------------------------------------------- R4
    run.rule("R4", "Sort: advance_blockchain passes brothers = list(map(lambda l: sorted(l, key=lambda h: bytes.fromhex(get_block_hash(h))), "
             "brothers)) - ascending (no reverse), keyed on the hash bytes; get_block_hash(x) = keccak_256(remove_mm_fields_if_present(x, "
             "leave_btcblock=True, hex=False)).hex(); update_ancestor passes None for brothers.")
    ga = A.cfg(adv, D)
    c = find_calls(A, adv, "_do_block_operation")[0]
    for cn in ga.nodes_of(c):
        got = {_strip(x) for x in PV.expand_consistent(adv, D, c.args[2], cn)}
        want = _strip("list(map(lambda brolist: sorted(brolist, key=lambda bh: bytes.fromhex(get_block_hash(bh))), brothers))")
        ok = len(got) == 1
        if ok:
            e = ast.parse(next(iter(got)), mode="eval").body
            ok = isinstance(e, ast.Call) and call_name(e) == "list" and isinstance(e.args[0], ast.Call) and call_name(e.args[0]) == "map" \
                and isinstance(e.args[0].args[0], ast.Lambda) and norm(e.args[0].args[1]) == "brothers"
            if ok:
                lam = e.args[0].args[0]
                p = lam.args.args[0].arg
                s = lam.body
                ok = isinstance(s, ast.Call) and call_name(s) == "sorted" and [norm(a) for a in s.args] == [p] \
                    and [k.arg for k in s.keywords] == ["key"] and isinstance(s.keywords[0].value, ast.Lambda)
                if ok:
                    kl = s.keywords[0].value
                    kp = kl.args.args[0].arg
                    ok = norm(kl.body) == f"bytes.fromhex(get_block_hash({kp}))"
        run.check("R4", ok, "brothers sorted ascending by block-hash bytes, list by list", key="advance_blockchain|sort", where=adv.loc(c),
                  message=f"advance_blockchain passes brothers = {sorted(got)[:1]}; the device requires each list sorted ascending by "
                          "the bytes of the block hash (no reverse, not keyed on the raw header or the hex string of something else)")
        run.check("R4", norm(c.args[1]) == "blocks", "blocks passed unmodified", key="advance_blockchain|blocks", where=adv.loc(c),
                  message=f"advance_blockchain passes blocks = `{norm(c.args[1])}`")
    gbh = P.func("ledger.block_utils.get_block_hash")
    gg = A.cfg(gbh, None)
    rr = [n for n in A.own_nodes(gbh) if isinstance(n, ast.Return)]
    p = gbh.params[0]
    okh = False
    for r in rr:
        for rn in gg.nodes_of(r):
            got = {_strip(x) for x in PV.expand_consistent(gbh, None, r.value, rn)}
            okh = got == {_strip(f"keccak_256(remove_mm_fields_if_present({p}, leave_btcblock=True, hex=False)).hex()")}
            if not okh and len(got) == 1:
                # through a helper: resolve one level
                e = ast.parse(next(iter(got)), mode="eval").body
                inner = e.func.value.args[0] if isinstance(e, ast.Call) and isinstance(e.func, ast.Attribute) and isinstance(e.func.value, ast.Call) \
                    and e.func.value.args else None
                if isinstance(inner, ast.Call):
                    cs = [x.fn for x in A.resolve_call(inner, gbh, None) if x.fn is not None]
                    if len(cs) == 1 and cs[0].name != "remove_mm_fields_if_present":
                        hr = [n for n in A.own_nodes(cs[0]) if isinstance(n, ast.Return)]
                        hp = cs[0].params[0]
                        if len(hr) == 1 and norm(hr[0].value) == f"remove_mm_fields_if_present({hp}, leave_btcblock=True, hex=False)":
                            okh = True
                        else:
                            got = {norm(hr[0].value)} if hr else got
            run.check("R4", okh, "block hash = keccak of the header without merge-mining fields, BTC header kept", key="get_block_hash|expr",
                      where=gbh.loc(r), message=f"get_block_hash computes {sorted(got)[:1]}: the sort key would not be the block hash the "
                      "device compares (leave_btcblock must be True)")
    cu_ = find_calls(A, upd, "_do_block_operation")[0]
    run.check("R4", norm(cu_.args[2]) == "None", "no brothers for ancestor updates", key="update_ancestor|brothers", where=upd.loc(cu_),
              message=f"update_ancestor passes brothers = `{norm(cu_.args[2])}`")

    # ---------------------------------------------------------------- R5
    _mm_table(run, F, PV, upd, D)
    # ---------------------------------------------------------------- R6
    run.rule("R6", "Coinbase hash: midstate = zeros(8) | tx[:40] | zeros(4), tail = tx[40:], second round SHA-256 reversed; the three "
             "sizes equal the firmware's CB_MIDSTATE_PREFIX / CB_MIDSTATE_DATA / CB_MIDSTATE_SUFFIX; get_coinbase_txn returns the last "
             "field of a 19/20-field header.")
    bc = fw.file("powhsm/src/bc.h").defines()
    for py, c in (("_MIDSTATE_PREFIX_SIZE", "CB_MIDSTATE_PREFIX"), ("_MIDSTATE_SIZE_TRIMMED", "CB_MIDSTATE_DATA"), ("_MIDSTATE_SUFFIX_SIZE", "CB_MIDSTATE_SUFFIX")):
        v = P.module_const("comm.pow", py)
        run.check("R6", v == bc.get(c), f"{py} == {c} ({bc.get(c)})", key=f"comm.pow|{py}", where="middleware/comm/pow.py",
                  message=f"{py} = {v}, firmware {c} = {bc.get(c)}")
    cb = P.func("comm.pow.coinbase_tx_get_hash")
    gcb = A.cfg(cb, None)
    ms = defs_of(A, cb, "tx_midstate")
    tt = defs_of(A, cb, "tx_tail")
    run.check("R6", len(ms) == 1 and norm(ms[0].value) == "bytes([0] * _MIDSTATE_PREFIX_SIZE) + tx[:_MIDSTATE_SIZE_TRIMMED] + bytes([0] * _MIDSTATE_SUFFIX_SIZE)"
              and len(tt) == 1 and norm(tt[0].value) in ("tx[_MIDSTATE_SIZE_TRIMMED:len(tx)]", "tx[_MIDSTATE_SIZE_TRIMMED:]"),
              "midstate / tail split", key="coinbase_tx_get_hash|split", where=cb.loc(), message="the coinbase midstate / tail composition changed")
    hd = defs_of(A, cb, "coinbase_tx_hash")
    run.check("R6", len(hd) == 1 and norm(hd[0].value) == "bytes(reversed(hashlib.sha256(hash_round1).digest())).hex()", "double SHA-256, reversed",
              key="coinbase_tx_get_hash|final", where=cb.loc(), message="the coinbase hash finalisation changed")
    gc = P.func("ledger.block_utils.get_coinbase_txn")
    rr = [n for n in A.own_nodes(gc) if isinstance(n, ast.Return)]
    ggc = A.cfg(gc, None)
    for r in rr:
        run.check("R6", norm(r.value) == "block[-1].hex()", "coinbase transaction is the header's last field", key="get_coinbase_txn|field",
                  where=gc.loc(r), message=f"get_coinbase_txn returns `{norm(r.value)}`")
        for rn in ggc.nodes_of(r):
            facts = {f.text() for f in F.local(gc, None, rn)}
            run.check("R6", "num_fields in [19, 20]" in facts, "only for 19/20-field headers", key="get_coinbase_txn|field-count", where=gc.loc(r),
                      message="get_coinbase_txn accepts headers without merge-mining fields")


def _mm_table(run, F, PV, upd, D):
    P, A = run.P, run.A
    run.rule("R5", "Merge-mining slice table of remove_mm_fields_if_present: 19|20 fields -> [:-2] keeping the BTC header, [:-3] "
             "otherwise; 17|18 fields -> unchanged keeping it, [:-1] otherwise; any other count raises ValueError; the result is "
             "rlp.encode of that slice (hex when asked); rlp_mm_payload_size strips with leave_btcblock=False, hex=False; "
             "update_ancestor strips every block with the defaults (leave_btcblock=True), the same form whose keccak is the block "
             "hash; RLP list prefixes 0xC0-0xF7 short / 0xF8-0xFF long big-endian.")
    rm = P.func("ledger.block_utils.remove_mm_fields_if_present")
    g = A.cfg(rm, None)
    d = rm.node.args.defaults
    run.check("R5", [norm(x) for x in d] == ["True", "True"] and rm.params[1:] == ["leave_btcblock", "hex"], "defaults leave_btcblock=True, hex=True",
              key="remove_mm_fields_if_present|defaults", where=rm.loc(), message=f"defaults are {[norm(x) for x in d]}")
    table = {}
    for dd in PV.defs(rm, None).get("block_without_mm_fields", []):
        facts = sorted(f.text() for f in F.local(rm, None, dd.cnode))
        v = dd.value
        if isinstance(v, ast.IfExp):
            table[(tuple(facts), True)] = norm(v.body) if norm(v.test) == "leave_btcblock" else None
            table[(tuple(facts), False)] = norm(v.orelse) if norm(v.test) == "leave_btcblock" else None
        else:
            table[(tuple(facts), None)] = norm(v)
    want = {(("num_fields in [17, 18, 19, 20]", "num_fields in [19, 20]"), True): "block[:-2]",
            (("num_fields in [17, 18, 19, 20]", "num_fields in [19, 20]"), False): "block[:-3]",
            (("num_fields in [17, 18, 19, 20]", "num_fields not in [19, 20]"), True): "block",
            (("num_fields in [17, 18, 19, 20]", "num_fields not in [19, 20]"), False): "block[:-1]"}
    run.check("R5", table == want, "slice table", key="remove_mm_fields_if_present|slice-table", where=rm.loc(),
              message=f"merge-mining slice table is {table}; expected {want}")
    nf = defs_of(A, rm, "num_fields")
    bd = defs_of(A, rm, "block")
    run.check("R5", len(nf) == 1 and norm(nf[0].value) == "len(block)" and len(bd) == 1 and norm(bd[0].value) == f"rlp.decode(bytes.fromhex({rm.params[0]}))",
              "field count of the decoded header", key="remove_mm_fields_if_present|decode", where=rm.loc(), message="decoding / field counting changed")
    enc = defs_of(A, rm, "block_without_mm_fields_rlp")
    run.check("R5", len(enc) == 1 and norm(enc[0].value) == "rlp.encode(block_without_mm_fields)", "re-encoded with rlp.encode",
              key="remove_mm_fields_if_present|encode", where=rm.loc(), message="re-encoding changed")
    rets = sorted(norm(n.value) for n in A.own_nodes(rm) if isinstance(n, ast.Return))
    run.check("R5", rets == ["block_without_mm_fields_rlp", "block_without_mm_fields_rlp.hex()"], "returns bytes or hex of the re-encoding",
              key="remove_mm_fields_if_present|returns", where=rm.loc(), message=f"returns {rets}")
    ps = P.func("ledger.block_utils.rlp_mm_payload_size")
    gp = A.cfg(ps, None)
    rr = [n for n in A.own_nodes(ps) if isinstance(n, ast.Return)]
    okp = False
    got = set()
    for r in rr:
        for rn in gp.nodes_of(r):
            got = {_strip(x) for x in PV.expand_consistent(ps, None, r.value, rn)}
            okp = got == {_strip(f"rlp_first_element_list_payload_length(remove_mm_fields_if_present({ps.params[0]}, leave_btcblock=False, hex=False))")}
            if not okp and len(got) == 1:
                e = ast.parse(next(iter(got)), mode="eval").body
                if isinstance(e, ast.Call) and call_name(e) == "rlp_first_element_list_payload_length" and isinstance(e.args[0], ast.Call):
                    cs = [x.fn for x in A.resolve_call(e.args[0], ps, None) if x.fn is not None]
                    if len(cs) == 1:
                        hr = [n for n in A.own_nodes(cs[0]) if isinstance(n, ast.Return)]
                        hp = cs[0].params[0]
                        okp = len(hr) == 1 and norm(hr[0].value) == f"remove_mm_fields_if_present({hp}, leave_btcblock=False, hex=False)"
    run.check("R5", okp, "payload size over the header without any merge-mining field", key="rlp_mm_payload_size|expr", where=ps.loc(),
              message=f"rlp_mm_payload_size computes {sorted(got)[:1]}")
    ob = defs_of(A, upd, "optimized_blocks")
    run.check("R5", len(ob) == 1 and norm(ob[0].value) == "list(map(remove_mm_fields_if_present, blocks))", "ancestor blocks stripped with the defaults, in order",
              key="update_ancestor|strip", where=upd.loc(), message=f"update_ancestor prepares blocks as `{norm(ob[0].value) if ob else None}`: "
              "stripping with other options changes the block hash the device computes")
    c = find_calls(A, upd, "_do_block_operation")[0]
    run.check("R5", norm(c.args[1]) == "optimized_blocks", "the stripped blocks are what is sent", key="update_ancestor|blocks", where=upd.loc(c),
              message=f"update_ancestor sends `{norm(c.args[1])}`")
    fl = P.func("ledger.block_utils.rlp_first_element_list_payload_length")
    gf = A.cfg(fl, None)
    ldefs = PV.defs(fl, None).get("L", [])
    tab = {}
    for dd in ldefs:
        tab[norm(dd.value) if dd.kind != "for" else "loop"] = sorted(f.text() for f in F.local(fl, None, dd.cnode))
    run.check("R5", tab.get("b - 192") == ["b <= 247", "b >= 192"] and tab.get("0") == ["b <= 255", "b >= 248"]
              and "L << 8 | bs[1 + i]" in tab, "RLP list prefix table", key="rlp_first_element_list_payload_length|table", where=fl.loc(),
              message=f"RLP list-prefix decoding is {tab}")
    nd = defs_of(A, fl, "N")
    run.check("R5", len(nd) == 1 and norm(nd[0].value) == "b - 247", "long form length-of-length", key="rlp_first_element_list_payload_length|N", where=fl.loc(),
              message="N is not b - 0xF7")
