"""C18 - admin commands touch seed and PIN only under their preconditions."""
import ast
import copy
import re
from sa.model import AnalysisError, Unknown, norm, unwrap, EnumMember, Obj
from sa.query import Facts, call_name, find_calls, try_fold, calls_in, defs_of, make_facts
from sa.prov import Prov
from .common import dongle_classes, is_dongle_call, send_sites, doc, firmware
from .c06 import _strip
from . import c10

TECHNIQUE = ("dominator rules on the admin commands' CFGs with trace partitioning over the finite device "
             "mode / platform domains (infeasible edges pruned per partition), who-may-call over the "
             "resolved call graph for the seed/wipe/PIN opcodes, PIN-policy atom recognition, constant "
             "agreement of key paths with docs/protocol.md")
EXPLANATION = (
    "Static analysis of /repo's current source (nothing executed). Decides: the only call site that "
    "can send SEED/WIPE/SGX_ONBOARD is hsm.onboard(seed, pin) in do_onboard, dominated by mode == "
    "BOOTLOADER, echo() true, is_onboarded() false and the operator's explicit 'yes' (the confirmation "
    "loop's only normal exit), with seed = os.urandom(32) generated after the confirmation and a PIN "
    "that passed the full policy unless any-pin was given; hsm.unlock(pin) in do_unlock is reachable "
    "only for mode == BOOTLOADER (partitioned over the 4 modes), where is_onboarded() true and echo() "
    "dominate it; hsm.new_pin(new_pin) gets a policy-valid PIN unless any-pin, and on Ledger only in "
    "bootloader mode; the destructive call is reachable when all preconditions hold; the six key paths "
    "the dongle classes' onboard relays seed, PIN and WIPE (SGX: one exchange) and reports True iff the device confirmed, unlock reports the device's verdict, the admin commands treat a refused unlock / PIN change as an error and an accepted one not; "
    "equal docs/protocol.md and each stored key is the device's key for that path, written "
    "uncompressed under str(path). Does not decide device behaviour."
)

ONBOARD_OPS = {("_Command", "SEED"), ("_Command", "WIPE"), ("SgxCommand", "SGX_ONBOARD")}


def _mode_member(run, expr, fn):
    try:
        v = run.P.const_eval(expr, fn.module)
    except (Unknown, AnalysisError):
        return None
    if isinstance(v, EnumMember) and v.cls.name == "_Mode":
        return v.name
    return None


def _mode_edge_ok(run, fn, g, mode_var, value, platform=None):
    """edge filter: prune T/F edges of conditions over `mode_var` that are infeasible when
    mode_var == value (enum member name); optionally fix Platform.is_ledger()/is_sgx()."""
    P = run.P

    def truth(e):
        # -> True/False/None for atomic condition e under the partition
        if isinstance(e, ast.Compare) and len(e.ops) == 1 and isinstance(e.left, ast.Name) and e.left.id == mode_var:
            op = e.ops[0]
            if isinstance(op, (ast.Eq, ast.NotEq)):
                m = _mode_member(run, e.comparators[0], fn)
                if m is None:
                    return None
                return (m == value) if isinstance(op, ast.Eq) else (m != value)
            if isinstance(op, (ast.In, ast.NotIn)):
                if isinstance(e.comparators[0], (ast.List, ast.Tuple, ast.Set)):
                    ms = [_mode_member(run, x, fn) for x in e.comparators[0].elts]
                else:
                    # a named list of modes (module / class constant)
                    try:
                        cv = P.const_eval(e.comparators[0], fn.module, cls=fn.cls)
                    except (Unknown, AnalysisError):
                        return None
                    if not isinstance(cv, (list, tuple, set, frozenset)):
                        return None
                    ms = [x.name if isinstance(x, EnumMember) and x.cls.name == "_Mode" else None for x in cv]
                if any(m is None for m in ms):
                    return None
                r = value in ms
                return r if isinstance(op, ast.In) else not r
        if platform is not None and isinstance(e, ast.Call) and norm(e.func) in ("Platform.is_ledger", "Platform.is_sgx"):
            return (norm(e.func) == "Platform.is_ledger") == (platform == "ledger") if platform in ("ledger", "sgx") else None
        return None

    def edge_ok(a, b):
        if b.kind in ("T", "F") and b.cond is a and a.kind == "cond":
            t = truth(a.ast)
            if t is None:
                return True
            return (b.kind == "T") == t
        return True
    return edge_ok


def _facts_under(run, F, fn, g, site, edge_ok):
    """Facts (as in Facts.local) that dominate `site` on the pruned graph."""
    out = []
    for n in g.nodes:
        if n.kind in ("T", "F") and n.cond is not None and n.cond.kind == "cond" and n is not site:
            if site in g.reachable(g.entry, edge_ok=edge_ok) and g.dominates_under(n, site, edge_ok):
                out += make_facts(n.kind, n.ast, fn, n.cond)
    return out


def _byte_relay(P, D, fn, lf, loop, member):
    """A loop that relays a byte sequence one (index, byte) exchange at a time: -> (sequence text X or None, iterated expression, message ok?)"""
    sp = fn
    it = lf.deep(loop.iter)
    # the sequence iterated and how index / byte are obtained from it
    X = idx = byte = None
    body_calls = [c for st_ in loop.body for c in ast.walk(st_) if isinstance(c, ast.Call) and call_name(c) == "_send_command"]
    if isinstance(it, ast.Call) and norm(it.func) == "range" and len(it.args) == 1 and isinstance(it.args[0], ast.Call) and norm(it.args[0].func) == "len" \
            and isinstance(loop.target, ast.Name):
        X, idx = _strip(norm(it.args[0].args[0])), loop.target.id
        byte = ("index", idx)
    elif isinstance(it, ast.Call) and norm(it.func) == "enumerate" and len(it.args) == 1 and isinstance(loop.target, ast.Tuple) and len(loop.target.elts) == 2 \
            and all(isinstance(e, ast.Name) for e in loop.target.elts):
        X, idx = _strip(norm(it.args[0])), loop.target.elts[0].id
        byte = ("name", loop.target.elts[1].id)
    elif isinstance(it, ast.Call) and norm(it.func) == "zip" and len(it.args) == 2 and isinstance(loop.target, ast.Tuple) and len(loop.target.elts) == 2 \
            and all(isinstance(e, ast.Name) for e in loop.target.elts) and isinstance(it.args[0], ast.Call) and norm(it.args[0].func) == "range" \
            and len(it.args[0].args) == 1 and _strip(norm(it.args[0].args[0])) == _strip(f"len({norm(it.args[1])})"):
        X, idx = _strip(norm(it.args[1])), loop.target.elts[0].id
        byte = ("name", loop.target.elts[1].id)
    oks = False
    if len(body_calls) == 1 and len(body_calls[0].args) == 2 and X is not None:
        c = body_calls[0]
        m_ = P.const_eval(c.args[0], sp.module, cls=D) if True else None
        # locals built inside the loop body just before the exchange (`payload = bytes([i, x[i]])`) stand for their expressions
        body_ok = isinstance(loop.body[-1], ast.Expr) and loop.body[-1].value is c
        sub_ = {}
        for st_ in loop.body[:-1]:
            if isinstance(st_, ast.Assign) and len(st_.targets) == 1 and isinstance(st_.targets[0], ast.Name) and st_.targets[0].id not in sub_ \
                    and st_.targets[0].id not in (idx, byte[1]) \
                    and all(norm(x.func) in ("bytes", "len", "int") for x in ast.walk(st_.value) if isinstance(x, ast.Call)):
                from sa.normalize import _ConstSub
                sub_[st_.targets[0].id] = _ConstSub(dict(sub_)).visit(copy.deepcopy(st_.value)) if sub_ else st_.value
            else:
                body_ok = False
        a1_ = c.args[1]
        if sub_:
            from sa.normalize import _ConstSub
            a1_ = _ConstSub(sub_).visit(copy.deepcopy(a1_))
        payload = lf.deep(a1_, stop=(idx,) + ((byte[1],) if byte and byte[0] == "name" else ()))
        xs_ = norm(ast.Subscript(value=ast.parse(X, mode="eval").body, slice=ast.Name(id=idx, ctx=ast.Load()), ctx=ast.Load()))
        wantp = f"bytes([{idx}, {xs_}])" if byte[0] == "index" else f"bytes([{idx}, {byte[1]}])"
        oks = isinstance(m_, EnumMember) and m_.name == member and _strip(norm(payload)) == _strip(wantp) and body_ok
    return X, it, oks


def pin_relay(run, rid="R6"):
    """The PIN handed to the Ledger dongle class reaches the device whole: shared by C09 / C10 / C18."""
    P, A = run.P, run.A
    from sa.decide import Walker
    D = P.cls("ledger.hsm2dongle.HSM2Dongle")
    sp = P.method(D, "_send_pin")
    g = A.cfg(sp, D)
    run.rule(rid, "PIN relay (Ledger): _send_pin(pin, prepend_length) sends SEND_PIN | u8(i) | u8(X[i]) for every i in 0..len(X)-1, in order, with X = u8(len(pin)) | pin "
             "when prepend_length and X = pin otherwise (ui/src/pin.c: update_pin_buffer stores byte i, the length-prefixed form is what set_pin / CHANGE_PIN / WIPE read); "
             "unlock passes (pin, False), new_pin and onboard pass (pin, True).")
    pinp, prep = sp.params[1], sp.params[2]

    def atom(e):
        if isinstance(e, ast.Name) and e.id == prep:
            return ("PREP", True)
        return None
    n_cases = 0
    for lf in Walker(A, sp, D, atom, stop_at_for=True).walk(g.entry):
        if lf.kind != "stop" or not isinstance(lf.node.ast, ast.For):
            run.check(rid, lf.kind == "exit" and False, "every path of _send_pin reaches the sending loop", key="_send_pin|no-loop", where=sp.loc(),
                      message=f"_send_pin can finish (`{lf.kind}` at line {lf.node.lineno}) without sending the PIN")
            continue
        loop = lf.node.ast
        p_ = lf.pc.get("PREP")
        n_cases += 1
        want_x = _strip(f"bytes([len({pinp})]) + {pinp}") if p_ else pinp
        X, it, oks = _byte_relay(P, D, sp, lf, loop, "SEND_PIN")
        okx = X == want_x
        run.check(rid, okx, f"[prepend_length={bool(p_)}] the loop runs over every byte of {'length | pin' if p_ else 'the pin'}", key=f"_send_pin|sequence|{bool(p_)}", where=sp.loc(loop),
                  message=f"with prepend_length={bool(p_)} _send_pin iterates `{norm(it)[:70]}` (sequence `{X}`); expected every index of `{want_x}`: bytes of the PIN "
                          "(the last one, typically) never reach the device, which then rejects or installs a truncated PIN")
        run.check(rid, oks, f"[prepend_length={bool(p_)}] each byte is sent as SEND_PIN | index | byte", key=f"_send_pin|message|{bool(p_)}", where=sp.loc(loop),
                  message=f"_send_pin's loop body is `{'; '.join(norm(x)[:60] for x in loop.body)}`; expected one SEND_PIN exchange carrying (index, byte at that index)")
    run.floor(rid, "_send_pin cases (with / without the length prefix)", n_cases, 2)
    for mname, wantp in (("unlock", False), ("new_pin", True), ("onboard", True)):
        m = P.method(D, mname)
        cs = find_calls(A, m, "_send_pin")
        okc = len(cs) == 1
        if okc:
            c = cs[0]
            a0 = c.args[0] if c.args else None
            a1 = c.args[1] if len(c.args) > 1 else next((k.value for k in c.keywords if k.arg == prep), None)
            okc = a0 is not None and norm(a0) == "pin" and "pin" in m.params and isinstance(a1, ast.Constant) and a1.value is wantp
        run.check(rid, okc, f"{mname} sends its pin argument {'with' if wantp else 'without'} the length prefix", key=f"HSM2Dongle.{mname}|send_pin-args", where=m.loc(),
                  message=f"HSM2Dongle.{mname} does not call _send_pin(pin, prepend_length={wantp}) exactly once: the firmware reads the PIN "
                          f"{'after a length byte' if wantp else 'as a plain string'} for this command")


def onboard_carried_out(run, rid="R7"):
    """The dongle classes' onboard(seed, pin): what is sent and when it reports success."""
    P, A = run.P, run.A
    from sa.decide import Walker, cmp_parts, completions, subst
    from sa.layout import Layout
    run.rule(rid, "Onboarding is carried out: HSM2Dongle.onboard(seed, pin) completes only for a bytes seed of ONBOARDING.SEED_LENGTH bytes, sends SEED | u8(i) | u8(seed[i]) "
             "for every i in order, then the PIN (length-prefixed, R6), then WIPE, and returns True iff the WIPE answer's byte 1 is 2 (raises otherwise); "
             "HSM2DongleSGX.onboard completes only for such a seed and a bytes pin, sends SGX_ONBOARD | u8(0) | seed | pin once and returns True iff the answer's "
             "byte 2 is 1 (raises otherwise). Nothing else is decided; no path returns without the exchange.")
    LD = P.cls("ledger.hsm2dongle.HSM2Dongle")
    SD = P.cls("sgx.hsm2dongle.HSM2DongleSGX")
    for D, sgx in ((LD, False), (SD, True)):
        fn = P.method(D, "onboard")
        run.require(fn.cls is D or not sgx, "HSM2DongleSGX.onboard vanished")
        g = A.cfg(fn, D)
        seedp, pinp = fn.params[1], fn.params[2]
        state = {"W": None}

        def resolve(e):
            b = state["W"]._bind or {}
            for _ in range(6):
                names = {n.id for n in ast.walk(e) if isinstance(n, ast.Name)}
                hit = {k: v for k, v in b.items() if k in names}
                if not hit:
                    break
                e = subst(e, hit)
            return e

        def atom(e, fn=fn, D=D, sgx=sgx, seedp=seedp, pinp=pinp):
            cp = cmp_parts(e)
            if cp is None:
                return None
            l, op, r = cp
            lt, rt = _strip(norm(l)), _strip(norm(r))
            if op in ("==", "!=") and lt == f"type({seedp})" and rt == "bytes":
                return ("SEED_BYTES", op == "==")
            if op in ("==", "!=") and lt == f"type({pinp})" and rt == "bytes":
                return ("PIN_BYTES", op == "==")
            if op in ("==", "!=") and lt == f"len({seedp})" and try_fold(P, r, fn, D) == try_fold(P, ast.parse("self.ONBOARDING.SEED_LENGTH", mode="eval").body, fn, D):
                return ("SEED_LEN", op == "==")
            x = resolve(l)
            if isinstance(x, ast.Subscript) and isinstance(x.value, ast.Call) and call_name(x.value) == "_send_command" and op in ("==", "!="):
                m_ = P.const_eval(x.value.args[0], fn.module, cls=D) if x.value.args else None
                oki, iv = try_fold(P, x.slice, fn, D)
                okr, rv = try_fold(P, r, fn, D)
                if isinstance(m_, EnumMember) and oki and okr and (m_.name, unwrap(iv), unwrap(rv)) in (("WIPE", 1, 2), ("SGX_ONBOARD", 2, 1)):
                    return ("DONE", op == "==")
            return None
        pre = ["SEED_BYTES", "SEED_LEN"] + (["PIN_BYTES"] if sgx else [])
        tag = f"{D.name}.onboard"

        def sends_of(lf):
            return [c_ for k_, st_, v_ in lf.effects if k_ in ("assign", "expr") for c_ in ast.walk(st_) if isinstance(c_, ast.Call) and call_name(c_) == "_send_command"]

        def tail(lf, what_sent):
            """a leaf at the end of the function: True iff DONE, raise otherwise"""
            for val in completions({k: b for k, b in lf.pc.items() if k == "DONE"}, ["DONE"]):
                want = "return True" if val["DONE"] else "raise"
                got = lf.kind
                if lf.kind == "return":
                    v = lf.node.ast.value
                    got = f"return {norm(lf.deep(v)) if v is not None else None}"
                run.check(rid, got == want and "DONE" in lf.pc, f"{tag}: [device {'confirmed' if val['DONE'] else 'did not confirm'}] -> {want}", key=f"{tag}|outcome|{val['DONE']}",
                          where=fn.loc(lf.node.ast) if lf.node.ast is not None else fn.loc(),
                          message=f"{tag}: after {what_sent}, when the device {'confirmed' if val['DONE'] else 'did not confirm'} the onboarding the method does `{got}`, expected "
                                  f"`{want}`: the operator is told the device was onboarded when it was not (or the other way round)")
        W = Walker(A, fn, D, atom, stop_at_for=True, max_leaves=128)
        state["W"] = W
        n_ok = 0
        for lf in W.walk(g.entry):
            where = fn.loc(lf.node.ast) if lf.node.ast is not None else fn.loc()
            unknown = sorted(k[1:] for k in lf.pc if isinstance(k, str) and k.startswith("?"))
            run.check(rid, not unknown, f"{tag} decides on its argument checks and the device's confirmation only", key=f"{tag}|extra|{';'.join(unknown)[:50]}", where=where,
                      message=f"{tag} decides on `{'`, `'.join(unknown)[:100]}`: onboarding would be refused (or reported) on something else than the documented conditions")
            if unknown:
                continue
            state["W"]._bind = lf.bind
            bad = [a for a in pre if lf.pc.get(a) is False]
            if lf.kind == "raise" and not sends_of(lf):
                run.check(rid, bool(bad), f"{tag}: refuses only malformed arguments", key=f"{tag}|refusal|{sorted(lf.pc.items())}"[:120], where=where,
                          message=f"{tag} raises before sending anything although the seed{' and the pin' if sgx else ''} are well-formed (conditions met: {sorted(lf.pc.items())})")
                continue
            run.check(rid, not bad and all(lf.pc.get(a) is True for a in pre), f"{tag}: goes on only with well-formed arguments", key=f"{tag}|precondition|{lf.kind}", where=where,
                      message=f"{tag} goes on to the device without having established {[a for a in pre if lf.pc.get(a) is not True]} (a seed of the wrong size / type)")
            if not sgx:
                if lf.kind == "stop" and isinstance(lf.node.ast, ast.For):
                    n_ok += 1
                    loop = lf.node.ast
                    X, it, oks = _byte_relay(P, D, fn, lf, loop, "SEED")
                    run.check(rid, X == seedp and oks and not sends_of(lf), f"{tag}: every seed byte is sent as SEED | index | byte", key=f"{tag}|seed-loop", where=fn.loc(loop),
                              message=f"{tag}: the seed loop iterates `{norm(it)[:60]}` with body `{'; '.join(norm(x)[:60] for x in loop.body)}`; expected one SEED exchange per byte of "
                                      f"`{seedp}` carrying (index, byte): the device would be onboarded with another seed than the one generated (and backed up)")
                    # after the loop: the PIN, then WIPE, then the verdict
                    ex = [n for n in g.nodes if n.kind in ("T", "F") and n.cond is lf.node and n.note == "exhausted"]
                    run.require(len(ex) == 1, f"{tag}: seed loop exit edge not found")
                    W2 = Walker(A, fn, D, atom, stop_at_for=True, max_leaves=64)
                    state["W"] = W2
                    for lf2 in W2.walk(ex[0]):
                        unknown2 = sorted(k[1:] for k in lf2.pc if isinstance(k, str) and k.startswith("?"))
                        run.check(rid, not unknown2, f"{tag}: after the seed only the device's confirmation decides", key=f"{tag}|extra-after|{';'.join(unknown2)[:50]}", where=fn.loc(),
                                  message=f"{tag} decides on `{'`, `'.join(unknown2)[:100]}` after the seed was sent")
                        if unknown2:
                            continue
                        state["W"]._bind = lf2.bind
                        calls = [c_ for k_, st_, v_ in lf2.effects if k_ in ("assign", "expr") for c_ in ast.walk(st_) if isinstance(c_, ast.Call) and call_name(c_) in ("_send_command", "_send_pin")]
                        seq = []
                        for c_ in calls:
                            if call_name(c_) == "_send_pin":
                                seq.append("PIN")
                            else:
                                m_ = P.const_eval(c_.args[0], fn.module, cls=D) if c_.args else None
                                seq.append(m_.name if isinstance(m_, EnumMember) else "?")
                        run.check(rid, seq == ["PIN", "WIPE"], f"{tag}: seed, then the PIN, then WIPE", key=f"{tag}|sequence", where=fn.loc(),
                                  message=f"{tag}: after the seed the exchanges are {seq}; expected the PIN and then WIPE (the firmware derives the wallet from the seed and sets the PIN at WIPE)")
                        tail(lf2, "seed, PIN and WIPE")
                    state["W"] = W
                else:
                    run.fail(rid, f"{tag}|no-seed-loop|{lf.kind}", where, f"{tag}: a path with well-formed arguments ends in `{lf.kind}` without reaching the seed loop")
            else:
                n_ok += 1
                cs = sends_of(lf)
                lay = None
                if len(cs) == 1 and len(cs[0].args) == 2:
                    m_ = P.const_eval(cs[0].args[0], fn.module, cls=D)
                    L = Layout(lambda e: try_fold(P, e, fn, D))
                    lay = (m_.name if isinstance(m_, EnumMember) else "?", L.canon(_strip(norm(lf.deep(cs[0].args[1], stop=(seedp, pinp))))))
                run.check(rid, lay == ("SGX_ONBOARD", f"u8(0) | {seedp} | {pinp}"), f"{tag}: one exchange SGX_ONBOARD | 0 | seed | pin", key=f"{tag}|message", where=where,
                          message=f"{tag} sends {lay if lay else [norm(c_)[:50] for c_ in cs]}; expected one SGX_ONBOARD exchange carrying u8(0) | {seedp} | {pinp}")
                tail(lf, "the onboard exchange")
        run.floor(rid, f"{tag}: paths that go on to the device", n_ok, 1)
    # unlock: the verdict is the device's
    from sa.decide import return_values
    PVd = Prov(A)
    for D, cmdm, exact in ((LD, "UNLOCK", None), (SD, "SGX_UNLOCK", "u8(0) | pin")):
        fn = P.method(D, "unlock")
        rv = return_values(A, fn, D, PVd)
        ok = len(rv) == 1
        why = sorted(rv)
        if ok:
            try:
                e = ast.parse(next(iter(rv)), mode="eval").body
            except SyntaxError:
                e = None
            ok = False
            cp = cmp_parts(e) if e is not None else None
            if cp is not None:
                l, op, r = cp
                oki_, iv_ = try_fold(P, l.slice, fn, D) if isinstance(l, ast.Subscript) and not isinstance(l.slice, ast.Slice) else (False, None)
                okr_, rv_ = try_fold(P, r, fn, D)
                if isinstance(l, ast.Subscript) and oki_ and unwrap(iv_) == 2 and isinstance(l.value, ast.Call) and call_name(l.value) == "_send_command" \
                        and okr_ and (op, unwrap(rv_)) in (("!=", 0), (">", 0), (">=", 1)):
                    m_ = P.const_eval(l.value.args[0], fn.module, cls=D) if l.value.args else None
                    ok = isinstance(m_, EnumMember) and m_.name == cmdm
                    if ok and exact is not None:
                        L = Layout(lambda e_: try_fold(P, e_, fn, D))
                        ok = len(l.value.args) == 2 and L.canon(_strip(norm(l.value.args[1]))) == exact.replace("pin", fn.params[1])
        run.check(rid, ok, f"{D.name}.unlock reports the device's verdict (answer byte 2 non-zero)", key=f"{D.name}.unlock|verdict", where=fn.loc(),
                  message=f"{D.name}.unlock returns {why[:2]}; expected `<answer to {cmdm}" + (f" carrying {exact}" if exact else "") + ">[2] != 0`: a wrong PIN would be reported as an unlocked "
                          "device (the bring-up goes on, the admin tool says `unlocked`) or the other way round")


def new_pin_verdicts(run, rid="R7"):
    """new_pin of both dongle classes reports what the device said (shared with C10 under a prefix)."""
    P, A = run.P, run.A
    from sa.decide import Walker, cmp_parts, return_values
    from sa.layout import Layout
    LD = P.cls("ledger.hsm2dongle.HSM2Dongle")
    SD = P.cls("sgx.hsm2dongle.HSM2DongleSGX")
    PVd = Prov(A)
    # SGX: one exchange, byte 2 of the answer is 1 iff changed
    fn = P.method(SD, "new_pin")
    rv = return_values(A, fn, SD, PVd)
    ok = len(rv) == 1
    if ok:
        ok = False
        try:
            e = ast.parse(next(iter(rv)), mode="eval").body
        except SyntaxError:
            e = None
        cp = cmp_parts(e) if e is not None else None
        if cp is not None:
            l, op, r = cp
            if isinstance(l, ast.Subscript) and isinstance(l.value, ast.Call) and call_name(l.value) == "_send_command" and len(l.value.args) == 2:
                oki, iv = try_fold(P, l.slice, fn, SD)
                okr, rv_ = try_fold(P, r, fn, SD)
                m_ = P.const_eval(l.value.args[0], fn.module, cls=SD)
                L = Layout(lambda e_: try_fold(P, e_, fn, SD))
                ok = oki and okr and unwrap(iv) == 2 and (op, unwrap(rv_)) in (("==", 1),) and isinstance(m_, EnumMember) and m_.name == "SGX_CHANGE_PASSWORD" \
                    and L.canon(_strip(norm(l.value.args[1]))) == f"u8(0) | {fn.params[1]}"
    run.check(rid, ok, "HSM2DongleSGX.new_pin reports the device's verdict (answer byte 2 == 1) for SGX_CHANGE_PASSWORD | 0 | pin", key="HSM2DongleSGX.new_pin|verdict", where=fn.loc(),
              message=f"HSM2DongleSGX.new_pin returns {sorted(rv)[:2]}; expected `<answer to SGX_CHANGE_PASSWORD carrying u8(0) | pin>[2] == 1`: a refused change would be committed to the "
                      "PIN file (or an accepted one discarded)")
    # Ledger: True after SEND_PIN.. + CHANGE_PIN completed; False exactly for the device's INVALID_PIN error; any other device error propagates
    fn = P.method(LD, "new_pin")
    g = A.cfg(fn, LD)

    def latom(e):
        cp = cmp_parts(e)
        if cp is None:
            return None
        l, op, r = cp
        if op in ("==", "!=") and _strip(norm(l)).endswith(".error_code"):
            try:
                mv = P.const_eval(r, fn.module, cls=LD)
            except (Unknown, AnalysisError):
                mv = None
            if isinstance(mv, EnumMember) and mv.name == "INVALID_PIN":
                return ("INVALID_PIN", op == "==")
        return None
    n = 0
    for lf in Walker(A, fn, LD, latom, follow_exc=True, max_leaves=64).walk(g.entry):
        hs = [x.ast for x in lf.path if x.kind == "handler" and isinstance(x.ast, ast.ExceptHandler)]
        unknown = sorted(k[1:] for k in lf.pc if isinstance(k, str) and k.startswith("?"))
        where = fn.loc(lf.node.ast) if lf.node.ast is not None else fn.loc()
        got = lf.kind
        if lf.kind == "return":
            got = f"return {_strip(norm(lf.deep(lf.node.ast.value))) if lf.node.ast.value is not None else None}"
        n += 1
        if unknown:
            run.check(rid, False, "HSM2Dongle.new_pin decides on the device's error code only", key=f"HSM2Dongle.new_pin|extra|{';'.join(unknown)[:40]}", where=where,
                      message=f"HSM2Dongle.new_pin decides on `{'`, `'.join(unknown)[:100]}`")
            continue
        if hs:
            inv = lf.pc.get("INVALID_PIN")
            want = "return False" if inv else "raise"
            okh = norm(hs[-1].type) == "HSM2DongleErrorResult" and inv is not None and got == want
            run.check(rid, okh, f"HSM2Dongle.new_pin: a device error is {'a refused PIN' if inv else 'propagated'}", key=f"HSM2Dongle.new_pin|handler|{inv}", where=where,
                      message=f"HSM2Dongle.new_pin, device error with INVALID_PIN={inv}: the method does `{got}`, expected `{want}` (False means `the device refused this PIN`: only "
                              "its INVALID_PIN answer says so; anything else must not be taken for a verdict)")
        else:
            calls = [call_name(v_) for k_, st_, v_ in lf.effects if k_ == "expr" and isinstance(v_, ast.Call)]
            sent = [v_ for k_, st_, v_ in lf.effects if k_ == "expr" and isinstance(v_, ast.Call) and call_name(v_) == "_send_command"]
            okn = got == "return True" and "_send_pin" in calls and len(sent) == 1 and isinstance(P.const_eval(sent[0].args[0], fn.module, cls=LD), EnumMember) \
                and P.const_eval(sent[0].args[0], fn.module, cls=LD).name == "CHANGE_PIN" and calls.index("_send_pin") < calls.index("_send_command")
            run.check(rid, okn, "HSM2Dongle.new_pin: True after the PIN and CHANGE_PIN went through", key="HSM2Dongle.new_pin|success", where=where,
                      message=f"HSM2Dongle.new_pin without a device error does `{got}` after {calls}; expected the PIN relay, then CHANGE_PIN, then True")
    run.floor(rid, "outcome cases of HSM2Dongle.new_pin", n, 3)


def _verdict_respected(run, rid="R7"):
    """The admin commands report what the device said: a refused unlock / PIN change is an error, an accepted one is not."""
    P, A = run.P, run.A
    from sa.query import make_facts
    for q, meth, what in (("admin.unlock.do_unlock", "unlock", "unlock"), ("admin.changepin.do_changepin", "new_pin", "PIN change")):
        fn = P.func(q)
        g = A.cfg(fn, None)
        noexc = lambda a, b: not g.is_exc_edge(a, b)   # noqa: E731
        n_tests = 0
        for n in g.nodes:
            if n.kind not in ("T", "F") or n.cond is None:
                continue
            test = n.cond.ast
            # a verdict first put in a local (`changed = hsm.new_pin(pin); if not changed`) is that call's result
            class _Sub(ast.NodeTransformer):
                def visit_Name(s_, node):
                    ds = defs_of(A, fn, node.id) if isinstance(node.ctx, ast.Load) else []
                    if len(ds) == 1 and isinstance(getattr(ds[0], "value", None), ast.Call) and call_name(ds[0].value) == meth:
                        return ds[0].value
                    return node
            import copy as _copy
            test = _Sub().visit(_copy.deepcopy(test))
            for f in make_facts(n.kind, test, fn, n):
                if f.kind == "call" and call_name(f.expr) == meth and isinstance(f.expr.func, ast.Attribute) and norm(f.expr.func.value) == "hsm":
                    n_tests += 1
                    reach_exit = g.exit in g.reachable(n, edge_ok=noexc)
                    if f.pol:
                        run.check(rid, reach_exit, f"{fn.name}: an accepted {what} lets the command complete", key=f"{fn.name}|{meth}|accepted", where=fn.loc(n.cond.ast),
                                  message=f"{fn.name}: when the device accepted the {what} the command cannot complete normally (it raises): the operator is told the {what} failed "
                                          "although the device carried it out")
                    else:
                        run.check(rid, not reach_exit, f"{fn.name}: a refused {what} is an error", key=f"{fn.name}|{meth}|refused", where=fn.loc(n.cond.ast),
                                  message=f"{fn.name}: when the device refused the {what} the command can still complete normally: the operator is told it succeeded")
        run.floor(rid, f"{fn.name}: outcome edges of hsm.{meth}(..)", n_tests, 2)


def run(run):
    P, A = run.P, run.A
    F = Facts(A)
    PV = Prov(A)
    _onboard(run, F, PV)
    onboard_carried_out(run, "R7")
    _verdict_respected(run, "R7")
    new_pin_verdicts(run, "R7")
    _unlock(run, F, PV)
    # "only to a device that is in bootloader mode ... is not yet onboarded / only to an onboarded device": mode and onboarded flag are the device's own
    # answers for every dongle class (rule of C09, prefix B.)
    from . import c09
    run.rule("B.R3", "The mode and the onboarded flag the admin commands decide on are what the device answered: get_current_mode returns MODE(answer[1]) of a fresh "
             "GET_MODE exchange (UNKNOWN only if that exchange fails), is_onboarded returns answer[1] == 1 of a fresh IS_ONBOARD exchange and lets a failed "
             "exchange propagate (rules shared with C09).")
    run.rid_prefix = "B."
    try:
        c09._device_reports(run)
    finally:
        run.rid_prefix = ""
    pin_relay(run, "R6")
    _changepin(run, F, PV)
    _pubkeys(run, F, PV)
    # the PIN policy itself (shared with C10)
    BASE = P.cls("ledger.pin.BasePin")
    c10._policy(run, F, BASE, rid="R5")
    _ask_for_pin(run, F)


def _none_def_feasible(g, d, name, site, others=()):
    """Can the `name = None` definition reach the site without passing the false edge of
    `name is None` (or the true edge of `name is not None`)?"""
    block = set()
    for n in g.nodes:
        if n.kind in ("T", "F") and n.cond is not None and isinstance(n.cond.ast, ast.Compare) \
                and norm(n.cond.ast.left) == name and norm(n.cond.ast.comparators[0]) == "None":
            op = n.cond.ast.ops[0]
            if (isinstance(op, ast.Is) and n.kind == "F") or (isinstance(op, ast.IsNot) and n.kind == "T"):
                block.add(n)
    return g.exists_path(d.cnode, site, avoid=block | (set(others) - {d.cnode, site}))


def _pin_ok(run, F, PV, fn, g, site_call, arg, anyp_allowed, label, rid):
    """The PIN argument of a destructive call went through the policy check with an allowed
    any_pin argument (anyp_allowed: set of normalised expressions, or None for any)."""
    A = run.A
    ok_all = True
    variants = set()
    for cn in g.nodes_of(site_call):
        for d in PV.reaching(fn, None, arg.id, cn) if isinstance(arg, ast.Name) else []:
            if d.kind == "param" or d.value is None:
                variants.add(("param", None))
                continue
            others = {x.cnode for x in PV.defs(fn, None).get(arg.id, [])}
            if norm(d.value) == "None" and not _none_def_feasible(g, d, arg.id, cn, others):
                continue
            variants.add((norm(d.value), d))
    for text, d in sorted(variants, key=lambda x: x[0]):
        if text == "None":
            # must be overwritten before use: the None def must not reach; treated as a variant that fails
            run.fail(rid, f"{fn.qualname}|{label}|pin-none-reaches", fn.loc(site_call),
                     f"{label}: the PIN can still be None at the device call")
            continue
        if d is None:
            continue
        v = d.value
        if isinstance(v, ast.Call) and call_name(v) == "ask_for_pin":
            kw = [k for k in v.keywords if k.arg == "any_pin"]
            a = kw[0].value if kw else (v.args[0] if v.args else None)
            okp = a is not None and (anyp_allowed is None or norm(a) in anyp_allowed)
            anyp_expr = sorted(anyp_allowed) if anyp_allowed else "any"
            run.check(rid, okp, f"{label}: prompted PIN asked with any_pin in {anyp_expr}",
                      key=f"{fn.qualname}|{label}|ask_for_pin-any_pin", where=fn.loc(v),
                      message=f"{label}: ask_for_pin is called with any_pin={norm(a) if a is not None else None}, "
                              f"expected {anyp_expr}: a PIN violating the device policy could be sent")
        elif isinstance(v, ast.Call) and call_name(v) == "encode":
            # options.pin.encode() validated by a dominating BasePin.is_valid(<same>, [any_pin])
            facts = F.local(fn, None, d.cnode)
            good = []
            for f in facts:
                if f.kind == "call" and f.pol and call_name(f.expr) == "is_valid" and f.expr.args \
                        and norm(f.expr.args[0]) == norm(v):
                    kw = [k.value for k in f.expr.keywords if k.arg == "any_pin"]
                    a = kw[0] if kw else (f.expr.args[1] if len(f.expr.args) > 1 else None)
                    got = norm(a) if a is not None else "False"
                    if anyp_allowed is None or got in anyp_allowed:
                        good.append(f)
            if not good and isinstance(arg, ast.Name):
                # validated after it was put in the local: every path from that assignment to the device call passes the true side of
                # BasePin.is_valid(<the local>, [any_pin]) (the local is not re-bound on the way: other bindings are other variants)
                from sa.query import make_facts
                passn = set()
                for n_ in g.nodes:
                    if n_.kind not in ("T", "F") or n_.cond is None:
                        continue
                    for f in make_facts(n_.kind, n_.cond.ast, fn, n_):
                        if f.kind == "call" and f.pol and call_name(f.expr) == "is_valid" and f.expr.args \
                                and (norm(f.expr.args[0]) == arg.id or norm(f.expr.args[0]) == norm(v)):
                            kw = [k.value for k in f.expr.keywords if k.arg == "any_pin"]
                            a = kw[0] if kw else (f.expr.args[1] if len(f.expr.args) > 1 else None)
                            got = norm(a) if a is not None else "False"
                            if anyp_allowed is None or got in anyp_allowed:
                                passn.add(n_)
                others_ = {x.cnode for x in PV.defs(fn, None).get(arg.id, [])} - {d.cnode}
                if passn and all(not g.exists_path(d.cnode, cn_, avoid=passn | others_) for cn_ in g.nodes_of(site_call)):
                    good = [True]
            anyp_expr = sorted(anyp_allowed) if anyp_allowed else "any"
            run.check(rid, bool(good), f"{label}: given PIN validated with any_pin in {anyp_expr}",
                      key=f"{fn.qualname}|{label}|option-pin-validated", where=fn.loc(v),
                      message=f"{label}: the PIN taken from the command line is not dominated by "
                              f"BasePin.is_valid({norm(v)}, any_pin={anyp_expr}) being true")
        else:
            run.fail(rid, f"{fn.qualname}|{label}|pin-source:{text[:40]}", fn.loc(site_call),
                     f"{label}: the PIN sent to the device comes from `{text[:60]}`, which is not a validated source")


def _onboard(run, F, PV):
    P, A = run.P, run.A
    run.rule("R1", "Onboarding: SEED / WIPE / SGX_ONBOARD are sent only by the dongle classes' onboard(), called "
             "only at hsm.onboard(seed, pin) in do_onboard; that site is dominated by mode == BOOTLOADER, echo() "
             "true, is_onboarded() false and the explicit-yes exit of the confirmation loop (whose other exit "
             "raises); seed = gen_seed() = os.urandom(SEED_SIZE), SEED_SIZE == ONBOARDING.SEED_LENGTH == 32, "
             "defined after the confirmation; the PIN passed the full policy unless options.any_pin; with all "
             "preconditions true the site is reachable.")
    fn = P.func("admin.onboard.do_onboard")
    g = A.cfg(fn, None)
    # who may send
    senders = set()
    dcs = dongle_classes(run)
    for f in P.all_functions:
        for call, cmd in send_sites(run, f):
            if isinstance(cmd, EnumMember) and (cmd.cls.name, cmd.name) in ONBOARD_OPS:
                senders.add(f)
    run.floor("R1", "functions sending SEED/WIPE/SGX_ONBOARD", len(senders), 2)
    for f in senders:
        run.check("R1", f.name == "onboard" and f.cls is not None and any(f.cls in d.mro() or d in f.cls.mro() for d in dcs),
                  f"{f.qualname} is a dongle onboard()", key=f"{f.qualname}|sends-onboard-op", where=f.loc(),
                  message=f"{f.qualname} sends a seed/wipe/onboard APDU outside the dongle classes' onboard()")
    sites = A.call_sites_of(lambda c: c.fn in senders)
    sites = [(f, c) for f, c, h in sites if f not in senders]
    run.check("R1", len(sites) == 1 and sites[0][0] is fn, "onboard() called only from do_onboard",
              key="onboard()|callers", where=fn.loc(),
              message="onboard() is called from: " + ", ".join(f"{f.qualname}:{c.lineno}" for f, c in sites))
    run.require(any(f is fn for f, c in sites), "do_onboard no longer calls hsm.onboard")
    call = [c for f, c in sites if f is fn][0]
    mvar = "mode"
    for cn in g.nodes_of(call):
        facts = F.local(fn, None, cn)
        texts = [f.text() for f in facts]
        okm = any(f.kind == "cmp" and f.op == "==" and norm(f.left) == mvar and _mode_member(run, f.right, fn) == "BOOTLOADER"
                  for f in facts)
        md = defs_of(A, fn, mvar)
        okm = okm and len(md) == 1 and isinstance(md[0].value, ast.Call) and call_name(md[0].value) == "get_current_mode"
        run.check("R1", okm, "onboard only in bootloader mode", key=f"{fn.qualname}|onboard|mode", where=fn.loc(call),
                  message="hsm.onboard() is not dominated by `mode == MODE.BOOTLOADER` (mode = hsm.get_current_mode())")
        oke = any(f.kind == "call" and f.pol and call_name(f.expr) == "echo" for f in facts)
        run.check("R1", oke, "onboard only after echo() true", key=f"{fn.qualname}|onboard|echo", where=fn.loc(call),
                  message="hsm.onboard() is not dominated by a successful echo()")
        ob = [f for f in facts if f.kind == "truthy" and not f.pol and isinstance(f.expr, ast.Name)]
        oko = False
        for f in ob:
            ds = defs_of(A, fn, f.expr.id)
            if len(ds) == 1 and isinstance(ds[0].value, ast.Call) and call_name(ds[0].value) == "is_onboarded":
                oko = True
        oko = oko or any(f.kind == "call" and not f.pol and call_name(f.expr) == "is_onboarded" for f in facts)
        run.check("R1", oko, "onboard only when the device is not onboarded", key=f"{fn.qualname}|onboard|not-onboarded",
                  where=fn.loc(call), message="hsm.onboard() is not dominated by is_onboarded() being false: an "
                  "already onboarded device could be wiped")
        # explicit yes
        yes = []
        for f in facts:
            if f.kind == "cmp" and f.op == "==":
                for a, b in ((f.left, f.right), (f.right, f.left)):
                    if isinstance(b, ast.Constant) and isinstance(b.value, str) and b.value.lower() == "yes" \
                            and norm(a) in ("answer.lower()", "answer", "answer.strip().lower()"):
                        yes.append(f)
            if f.kind == "cmp" and f.op == "in" and isinstance(f.right, (ast.List, ast.Tuple)) and f.right.elts \
                    and all(isinstance(x, ast.Constant) and isinstance(x.value, str) and x.value.lower() == "yes" for x in f.right.elts) \
                    and norm(f.left) in ("answer.lower()", "answer"):
                yes.append(f)
        run.check("R1", bool(yes), "onboard only after the operator answered yes", key=f"{fn.qualname}|onboard|explicit-yes",
                  where=fn.loc(call), message="hsm.onboard() is not dominated by the operator's answer being equal to "
                  "'yes' (equality, or membership in a list of 'yes' spellings): anything else - an empty line, EOF, a "
                  "substring test - must not count as consent")
        ad = defs_of(A, fn, "answer")
        run.check("R1", len(ad) == 1 and "readline" in norm(ad[0].value), "answer is read from the operator",
                  key=f"{fn.qualname}|onboard|answer-source", where=fn.loc(), message="`answer` is not read from stdin")
        # seed
        sd = defs_of(A, fn, "seed")
        oks = len(sd) == 1 and norm(sd[0].value) == "gen_seed()" and norm(call.args[0]) == "seed"
        if oks:
            for sn in g.nodes_of(sd[0]):
                oks = oks and any(f in [x.text() for x in F.local(fn, None, sn)] for f in [y.text() for y in yes])
        run.check("R1", oks, "seed generated by gen_seed() after the confirmation", key=f"{fn.qualname}|onboard|seed-source",
                  where=fn.loc(call), message="the seed sent to the device is not a gen_seed() value generated after "
                  "the operator confirmed")
        _pin_ok(run, F, PV, fn, g, call, call.args[1], {"False", "options.any_pin"}, "onboard", "R1")
        # fix: any_pin for the prompt is options.any_pin
    # prompted pin in onboard: ask_for_pin(any_pin=options.any_pin) is fine as well
    gs = P.func("admin.onboard.gen_seed")
    rr = [n for n in A.own_nodes(gs) if isinstance(n, ast.Return)]
    run.check("R1", len(rr) == 1 and norm(rr[0].value) == "os.urandom(SEED_SIZE)", "gen_seed = os.urandom(SEED_SIZE)",
              key="gen_seed|expr", where=gs.loc(), message=f"gen_seed returns `{norm(rr[0].value) if rr else None}`")
    ss = P.module_const("admin.onboard", "SEED_SIZE")
    sl = run.P.enum_members(P.cls("ledger.hsm2dongle._Onboarding"))["SEED_LENGTH"].value
    run.check("R1", ss == 32 and sl == 32, "SEED_SIZE == SEED_LENGTH == 32", key="SEED_SIZE|value", where="middleware/admin/onboard.py",
              message=f"SEED_SIZE={ss}, ONBOARDING.SEED_LENGTH={sl}")
    # reachability with all preconditions true (R5)
    reach = g.reachable(g.entry, edge_ok=lambda a, b: not g.is_exc_edge(a, b))
    run.check("R1", all(cn in reach for cn in g.nodes_of(call)), "onboard is carried out when preconditions hold",
              key=f"{fn.qualname}|onboard|reachable", where=fn.loc(call), message="hsm.onboard() is unreachable")
    for dc in dongle_classes(run):
        ob = P.method(dc, "onboard")
        facts = [f.text() for f in F.exit_facts(ob, dc)]
        run.check("R1", "type(seed) == bytes" in facts and "len(seed) == self.ONBOARDING.SEED_LENGTH" in facts,
                  f"{dc.name}.onboard rejects a seed that is not 32 bytes", key=f"{ob.qualname}|seed-check", where=ob.loc(),
                  message=f"{ob.qualname} no longer checks the seed type/length")


def _onboard_pin_prompt(run):
    pass


def _unlock(run, F, PV):
    P, A = run.P, run.A
    run.rule("R2", "Unlock: hsm.unlock(pin) in do_unlock is reachable only on the mode == BOOTLOADER partition "
             "(over BOOTLOADER, SIGNER, UI_HEARTBEAT, UNKNOWN); on it the site is dominated by is_onboarded() "
             "true and echo() true; the PIN is alphanumeric (validated / prompted with any_pin as given).")
    fn = P.func("admin.unlock.do_unlock")
    g = A.cfg(fn, None)
    calls = [c for c in find_calls(A, fn, "unlock") if is_dongle_call(run, c, fn, None, {"unlock"})]
    run.floor("R2", "hsm.unlock sites in do_unlock", len(calls), 1)
    run.check("R2", len(calls) == 1, "one unlock site", key=f"{fn.qualname}|unlock|sites", where=fn.loc(),
              message=f"{len(calls)} hsm.unlock() sites in do_unlock")
    md = defs_of(A, fn, "mode")
    run.require(len(md) == 1 and isinstance(md[0].value, ast.Call) and call_name(md[0].value) == "get_current_mode",
                "do_unlock: `mode = hsm.get_current_mode()` vanished")
    modes = [m for m in P.enum_members(P.cls("ledger.hsm2dongle._Mode"))]
    call = calls[0]
    for cn in g.nodes_of(call):
        for m in modes:
            ek = _mode_edge_ok(run, fn, g, "mode", m)
            ek2 = lambda a, b, ek=ek: ek(a, b) and not g.is_exc_edge(a, b)
            reach = cn in g.reachable(g.entry, edge_ok=ek2)
            if m == "BOOTLOADER":
                run.check("R2", reach, "unlock is carried out in bootloader mode", key=f"{fn.qualname}|unlock|reachable-in-bootloader",
                          where=fn.loc(call), message="hsm.unlock() is unreachable even in bootloader mode")
                facts = _facts_under(run, F, fn, g, cn, ek2)
                oko = False
                for f in facts:
                    if f.kind == "truthy" and f.pol and isinstance(f.expr, ast.Name):
                        ds = defs_of(A, fn, f.expr.id)
                        if len(ds) == 1 and isinstance(ds[0].value, ast.Call) and call_name(ds[0].value) == "is_onboarded":
                            oko = True
                    if f.kind == "call" and f.pol and call_name(f.expr) == "is_onboarded":
                        oko = True
                run.check("R2", oko, "unlock only for an onboarded device", key=f"{fn.qualname}|unlock|onboarded",
                          where=fn.loc(call), message="in bootloader mode hsm.unlock() is not dominated by "
                          "is_onboarded() being true: a PIN would be sent to a device that is not onboarded")
                oke = any(f.kind == "call" and f.pol and call_name(f.expr) == "echo" for f in facts)
                run.check("R2", oke, "unlock only after echo() true", key=f"{fn.qualname}|unlock|echo", where=fn.loc(call),
                          message="hsm.unlock() is not dominated by a successful echo()")
            else:
                run.check("R2", not reach, f"unlock unreachable in mode {m}", key=f"{fn.qualname}|unlock|reachable-in-{m}",
                          where=fn.loc(call), message=f"hsm.unlock() (PIN sent) is reachable when the device mode is {m}")
        _pin_ok(run, F, PV, fn, g, call, call.args[0], None, "unlock", "R2")


def _pin_ok_unlock_prompt():
    pass


def _changepin(run, F, PV):
    P, A = run.P, run.A
    run.rule("R3", "Change PIN: hsm.new_pin(new_pin) in do_changepin receives a PIN validated with "
             "any_pin=options.any_pin (option) or prompted with any_pin=options.any_pin; on Ledger the site is "
             "reachable only for mode == BOOTLOADER.")
    fn = P.func("admin.changepin.do_changepin")
    g = A.cfg(fn, None)
    # `any-PIN explicitly allowed` means allowed by the operator: the option is read, never written, by the admin commands
    n_scan = 0
    for f_ in P.all_functions:
        if not f_.module.name.startswith("admin.") or isinstance(f_.node, ast.Lambda):
            continue
        n_scan += 1
        for n_ in A.own_nodes(f_):
            tg = n_.targets if isinstance(n_, ast.Assign) else ([n_.target] if isinstance(n_, (ast.AugAssign, ast.AnnAssign)) else [])
            for t in tg:
                for x in (t.elts if isinstance(t, (ast.Tuple, ast.List)) else [t]):
                    if isinstance(x, ast.Attribute) and x.attr == "any_pin":
                        run.fail("R3", f"{f_.qualname}|any_pin-written", f_.loc(n_),
                                 f"{f_.qualname} sets `{norm(x)}`: the PIN policy is then lifted for the new PIN too without the operator having asked for it "
                                 "(--any-pin), so a PIN that does not comply with the policy can be sent to the device")
            if isinstance(n_, ast.Call) and isinstance(n_.func, ast.Name) and n_.func.id == "setattr" and len(n_.args) >= 2 \
                    and isinstance(n_.args[1], ast.Constant) and n_.args[1].value == "any_pin":
                run.fail("R3", f"{f_.qualname}|any_pin-written", f_.loc(n_), f"{f_.qualname} sets the any_pin option with setattr")
    run.floor("R3", "admin functions scanned for writes of the any_pin option", n_scan, 30)
    run.ok("R3", "the any_pin option is only read", fn.loc()) if True else None
    calls = [c for c in find_calls(A, fn, "new_pin") if is_dongle_call(run, c, fn, None, {"new_pin"})]
    run.floor("R3", "hsm.new_pin sites", len(calls), 1)
    run.check("R3", len(calls) == 1, "one new_pin site", key=f"{fn.qualname}|new_pin|sites", where=fn.loc(),
              message=f"{len(calls)} hsm.new_pin() sites")
    call = calls[0]
    md = defs_of(A, fn, "mode")
    run.require(len(md) == 1 and call_name(md[0].value) == "get_current_mode", "do_changepin: mode read vanished")
    modes = [m for m in P.enum_members(P.cls("ledger.hsm2dongle._Mode"))]
    for cn in g.nodes_of(call):
        for m in modes:
            ek = _mode_edge_ok(run, fn, g, "mode", m, platform="ledger")
            ek2 = lambda a, b, ek=ek: ek(a, b) and not g.is_exc_edge(a, b)
            reach = cn in g.reachable(g.entry, edge_ok=ek2)
            if m == "BOOTLOADER":
                run.check("R3", reach, "Ledger: new_pin carried out in bootloader mode", key=f"{fn.qualname}|new_pin|reachable-ledger-bootloader",
                          where=fn.loc(call), message="hsm.new_pin() unreachable on Ledger in bootloader mode")
            else:
                run.check("R3", not reach, f"Ledger: new_pin unreachable in mode {m}", key=f"{fn.qualname}|new_pin|ledger-{m}",
                          where=fn.loc(call), message=f"on Ledger hsm.new_pin() is reachable when the device mode is {m}")
        ek = _mode_edge_ok(run, fn, g, "mode", "SIGNER", platform="sgx")
        reach = cn in g.reachable(g.entry, edge_ok=lambda a, b: ek(a, b) and not g.is_exc_edge(a, b))
        run.check("R3", reach, "SGX: new_pin carried out", key=f"{fn.qualname}|new_pin|reachable-sgx", where=fn.loc(call),
                  message="hsm.new_pin() unreachable on SGX")
        _pin_ok(run, F, PV, fn, g, call, call.args[0], {"False", "options.any_pin"}, "changepin", "R3")


def _ask_for_pin(run, F):
    P, A = run.P, run.A
    run.rule("R3b", "ask_for_pin(any_pin) returns only a value for which BasePin.is_valid(pin, any_pin) held.")
    fn = P.func("admin.misc.ask_for_pin")
    g = A.cfg(fn, None)
    anyp = fn.params[0]
    for r in [n for n in A.own_nodes(fn) if isinstance(n, ast.Return)]:
        for rn in g.nodes_of(r):
            facts = F.local(fn, None, rn)
            ok = any(f.kind == "call" and f.pol and call_name(f.expr) == "is_valid" and len(f.expr.args) == 2
                     and norm(f.expr.args[0]) == norm(r.value) and norm(f.expr.args[1]) == anyp for f in facts)
            run.check("R3b", ok, "ask_for_pin returns a validated PIN", key="ask_for_pin|return|validated", where=fn.loc(r),
                      message=f"ask_for_pin can return `{norm(r.value)}` without BasePin.is_valid({norm(r.value)}, {anyp}) having held")
    # onboard prompts with options.any_pin
    ob = P.func("admin.onboard.do_onboard")
    for c in find_calls(A, ob, "ask_for_pin"):
        kw = [k.value for k in c.keywords if k.arg == "any_pin"] or c.args[:1]
        run.check("R3b", kw and norm(kw[0]) == "options.any_pin", "onboard prompts with any_pin=options.any_pin",
                  key="do_onboard|ask_for_pin|any_pin", where=ob.loc(c),
                  message=f"do_onboard prompts for a PIN with any_pin={norm(kw[0]) if kw else None}")


def _pubkeys(run, F, PV):
    P, A = run.P, run.A
    run.rule("R4", "Public keys: PATHS equals the six BIP44 paths of docs/protocol.md; pubkeys[name] = "
             "hsm.get_public_key(PATHS[name]) for the same name; the JSON file maps str(path) to the uncompressed "
             "form of that key; dongle get_public_key sends GET_PUBLIC_KEY with the path's binary form and returns "
             "the answer's hex.")
    d = doc(run, "protocol.md")
    sec = d.sections(3).get("Valid BIP44 paths")
    run.require(sec is not None, "docs/protocol.md: section `Valid BIP44 paths` not found")
    docp = set(re.findall(r"`(m/[0-9'/]+)`", sec))
    run.require(len(docp) == 6, f"docs/protocol.md: expected six key paths, found {sorted(docp)}")
    paths = P.module_const("admin.pubkeys", "PATHS")
    got = {k: (v.args[0] if isinstance(v, Obj) else None) for k, v in paths.items()}
    run.check("R4", set(got.values()) == docp and len(got) == 6, "PATHS == documented paths", key="pubkeys.PATHS|set",
              where="middleware/admin/pubkeys.py", message=f"PATHS is {got}; documented: {sorted(docp)}")
    fn = P.func("admin.pubkeys.do_get_pubkeys")
    g = A.cfg(fn, None)
    st = [n for n in A.own_nodes(fn) if isinstance(n, ast.Assign) and norm(n.targets[0]).startswith("pubkeys[")]
    # (the rule reads the gathering as a dict keyed by path name; gathered any other way - a list of records, say - it is not understood, which is
    # not the same as wrong)
    run.require(len(st) >= 1 or any(isinstance(n, ast.Assign) and norm(n.targets[0]) == "pubkeys" for n in A.own_nodes(fn)),
                "do_get_pubkeys: the public keys are not gathered in a dict `pubkeys[name] = ..` (idiom not understood)")
    run.check("R4", len(st) == 1, "one store into pubkeys", key="do_get_pubkeys|stores", where=fn.loc(), message=f"{len(st)} stores into pubkeys")
    for s in st:
        for sn in g.nodes_of(s):
            got_ = {_strip(x) for x in PV.expand_consistent(fn, None, s.value, sn)}
            key_ = {_strip(x) for x in PV.expand_consistent(fn, None, s.targets[0].slice, sn)}
            ok_ = len(got_) == 1 and len(key_) == 1
            if ok_:
                k = next(iter(key_))
                ok_ = re.fullmatch(r".*\.get_public_key\(PATHS\[" + re.escape(k) + r"\]\)", next(iter(got_))) is not None
            run.check("R4", ok_, "pubkeys[name] = device key for PATHS[name]", key="do_get_pubkeys|store-expr", where=fn.loc(s),
                      message=f"`{norm(s.targets[0])}` is assigned {sorted(got_)[:1]}: not the device's key for the path "
                              "of the same name")
    # ... obtained in the very iteration that stores it: on every path of one loop iteration (handlers included) that reaches the store, the
    # get_public_key exchange whose answer is stored has completed normally; and no answer is requested and thrown away
    from sa.decide import Walker
    gpk = [c for c in find_calls(A, fn, "get_public_key")]
    for s in st:
        loops_ = [n for n in A.own_nodes(fn) if isinstance(n, ast.For) and any(s is x for x in ast.walk(n))]
        run.require(len(loops_) >= 1, "do_get_pubkeys: the key-gathering store is not inside a loop over the paths")
        lp = loops_[-1]
        fh = [n for n in g.nodes if n.kind == "for" and n.ast is lp]
        ft = [n for n in g.nodes if n.kind == "T" and n.note == "has-item" and n.cond in fh]
        run.require(len(fh) == 1 and len(ft) == 1, "do_get_pubkeys: key loop structure not understood")
        for sn in g.nodes_of(s):
            for lf in Walker(A, fn, None, lambda e: None, follow_exc=True).walk(ft[0], stops={sn, fh[0]}):
                if lf.kind != "stop" or lf.node is not sn:
                    continue
                done = [c for c in gpk if any(x is c for x in ast.walk(s))
                        or any(k != "raised" and isinstance(st_, ast.AST) and any(x is c for x in ast.walk(st_)) for k, st_, v in lf.effects)]
                raised = [st_ for k, st_, v in lf.effects if k == "raised"]
                run.check("R4", len(done) == 1 and not raised, "the key stored was answered in this iteration", key="do_get_pubkeys|store-fresh", where=fn.loc(s),
                          message=f"a path of the key loop reaches `{norm(s)[:50]}` with {len(done)} completed get_public_key exchange(s) in this iteration"
                                  f"{' after a caught exception' if raised else ''}: the value stored is then not this path's key (left over from the previous path, "
                                  "or unset)")
    for c in gpk:
        for cn in g.nodes_of(c):
            run.check("R4", not (cn.kind == "stmt" and isinstance(cn.ast, ast.Expr)), "no key answer is thrown away", key="do_get_pubkeys|discarded-answer", where=fn.loc(c),
                      message="a get_public_key answer is requested and discarded")
    js = [n for n in A.own_nodes(fn) if isinstance(n, ast.Assign) and norm(n.targets[0]).startswith("json_dict[")]
    run.check("R4", len(js) >= 1 and all(norm(j.targets[0]) == "json_dict[str(path)]"
              and norm(j.value) == "pk.to_string('uncompressed').hex()" for j in js), "JSON maps str(path) to the uncompressed key",
              key="do_get_pubkeys|json-entry", where=fn.loc(), message="the JSON output entry is not `str(path): uncompressed key`")
    for j in js:
        for jn in g.nodes_of(j):
            pk = {_strip(x) for x in PV.expand_consistent(fn, None, ast.Name(id="pk", ctx=ast.Load()), jn, stop=("pubkeys",))}
            pth = {_strip(x) for x in PV.expand_consistent(fn, None, ast.Name(id="path", ctx=ast.Load()), jn)}
            ok = len(pk) == 1 and "ecdsa.VerifyingKey.from_string(bytes.fromhex(pubkeys[" in next(iter(pk)) and len(pth) == 1
            if ok:
                k1 = re.search(r"pubkeys\[(.*?)\]\)", next(iter(pk)))
                k2 = re.search(r"PATHS\[(.*?)\]$", next(iter(pth)))
                ok = bool(k1 and k2 and k1.group(1) == k2.group(1)) and "curve=ecdsa.SECP256k1" in next(iter(pk))
            run.check("R4", ok, "key and path written together belong to the same name", key="do_get_pubkeys|json-pairing",
                      where=fn.loc(j), message=f"JSON entry pairs path {sorted(pth)[:1]} with key {sorted(pk)[:1]}")
    for dc in dongle_classes(run):
        gp = P.method(dc, "get_public_key")
        ss = send_sites(run, gp)
        ok = len(ss) == 1 and isinstance(ss[0][1], EnumMember) and ss[0][1].name == "GET_PUBLIC_KEY" \
            and norm(ss[0][0].args[1]) == f"{gp.params[1]}.to_binary()"
        rr = [n for n in A.own_nodes(gp) if isinstance(n, ast.Return)]
        gg = A.cfg(gp, dc)
        okr = len(rr) == 1 and {_strip(x) for rn in gg.nodes_of(rr[0]) for x in PV.expand_consistent(gp, dc, rr[0].value, rn)} == \
            {_strip(f"self._send_command(self.CMD.GET_PUBLIC_KEY, {gp.params[1]}.to_binary()).hex()")}
        run.check("R4", ok and okr, f"{dc.name}.get_public_key relays the device's answer for the requested path",
                  key=f"{gp.qualname}|expr", where=gp.loc(), message=f"{gp.qualname} changed")
