"""C11 - link failures get a device-error reply and are repaired on the next
request."""
import ast
import os
import re
from sa.model import AnalysisError, Unknown, norm, unwrap, EnumMember
from sa.query import Facts, call_name, find_calls, try_fold, calls_in
from sa.exc import ExcAnalysis
from sa.decide import Walker, completions, cmp_parts, accepted_set
from .common import (dongle_classes, protocol_classes, device_touching, command_methods, comm_flag)

TECHNIQUE = ("exception-escape analysis over the resolved call graph, handler-discipline rules per "
             "command method (which handler catches link/timeout errors, what it sets and returns), "
             "dominance rules on ensure_connection, decision tables of the transport classifier and of is_timeout / is_comm_error, status-word set of is_user_defined_error by breakpoint evaluation, field-writer census, literal agreement with the "
             "installed ledgerblue sources")
EXPLANATION = (
    "Static analysis of /repo's current source (nothing executed). Decides, for every command "
    "method of both protocol classes: ensure_connection() dominates every device-touching call; "
    "every such call (and ensure_connection itself) lies under a handler for HSM2DongleCommError "
    "that sets the comm-issue flag and returns (ERROR_CODE_DEVICE,) (-905 / -2) and under a "
    "timeout handler that returns the same code without touching the flag; neither class can "
    "escape the method; ensure_connection returns at once iff the flag is clear, otherwise "
    "disconnects and runs the full start-up initialize_device, clears the flag only after it "
    "completed, and turns HSM2ProtocolError into HSM2DongleCommError; who writes the flag; the "
    "transport classifier catches BaseException and classifies user-error/timeout/comm in that "
    "order with the literals ledgerblue really raises. Does not decide what a real transport raises."
)


def _parents(fn_node):
    par = {}
    for n in ast.walk(fn_node):
        for c in ast.iter_child_nodes(n):
            par[id(c)] = n
    return par


def _enclosing_handlers(par, node, fn_node):
    """Try statements (innermost first) in whose *body* `node` lies."""
    out = []
    cur = node
    while id(cur) in par:
        p = par[id(cur)]
        if isinstance(p, ast.Try) and any(cur is s or _contains(s, cur) for s in p.body) \
                and (cur in p.body or any(_contains(s, node) for s in p.body)):
            out.append(p)
        cur = p
        if cur is fn_node:
            break
    return out


def _contains(root, node):
    for n in ast.walk(root):
        if n is node:
            return True
    return False


def catching_handler(E, par, call, fn, sc, exc):
    for tr in _enclosing_handlers(par, call, fn.node):
        for h in tr.handlers:
            if any(E.is_sub(exc, hn) for hn in E.class_names_of(h.type, fn, sc)):
                return tr, h
    return None, None


def _sets_flag(run, h, fn, sc, V2):
    """Statements in handler h that set the comm-issue flag."""
    out = []
    for n in ast.walk(h):
        if isinstance(n, ast.Assign) and any(isinstance(t, ast.Attribute) and t.attr == comm_flag(run) and isinstance(t.value, ast.Name) and t.value.id == "self"
                                             for t in n.targets):
            # the flag ensure_connection() reads is the one of the v5 protocol object: `self._comm_issue = True` sets it only in a method of that class
            # (the legacy protocol object delegates to an inner v5 object and must go through report_comm_issue())
            if isinstance(n.value, ast.Constant) and n.value.value is True and fn.cls is not None and V2 in fn.cls.mro():
                out.append(n)
        if isinstance(n, ast.Call) and call_name(n) == "report_comm_issue":
            cs = [c.fn for c in run.A.resolve_call(n, fn, sc) if c.fn is not None]
            if cs and all(f is run.P.method(V2, "report_comm_issue") for f in cs):
                out.append(n)
    return out


def _returns_device(run, h, fn, pc):
    """Handler ends in `return (ERROR_CODE_DEVICE,)` and has no other exit."""
    dev = run.P.class_const(pc, "ERROR_CODE_DEVICE")
    rets = [n for n in ast.walk(h) if isinstance(n, ast.Return)]
    raises = [n for n in ast.walk(h) if isinstance(n, ast.Raise)]
    if raises or not rets or not isinstance(h.body[-1], ast.Return):
        return False, dev
    for r in rets:
        v = r.value
        if not (isinstance(v, ast.Tuple) and len(v.elts) == 1):
            return False, dev
        ok, val = try_fold(run.P, v.elts[0], fn, pc)
        if not ok or val != dev:
            return False, dev
    return True, dev


def run(run):
    P, A = run.P, run.A
    F = Facts(A)
    E = ExcAnalysis(A)
    V2 = P.cls("ledger.protocol.HSM2ProtocolLedger")
    dev = device_touching(run)
    ens = P.method(V2, "ensure_connection")
    init = P.method(V2, "initialize_device")

    run.rule("R1", "Per command method: (a) ensure_connection() dominates every device-touching call; "
             "(b) each device-touching call and ensure_connection() is caught, inside the method, by a "
             "HSM2DongleCommError handler that sets the comm-issue flag and ends in "
             "return (ERROR_CODE_DEVICE,), and by a timeout handler ending in the same return without "
             "setting the flag (allow-listed: the two `exit_app()` swallow sites of _ui_heartbeat, each "
             "followed by _wait_and_reconnect()); (c) neither class escapes the method.")
    n_methods = 0
    n_sites = 0
    for pc in protocol_classes(run):
        maps = command_methods(run, pc)["_mappings"]
        for cmd, m in sorted(maps.items()):
            # device-touching?
            sites = []
            for call, cs in A.callees(m, pc):
                touches = any(c.fn is not None and c.fn.qualname in dev for c in cs)
                is_ens = any(c.fn is ens for c in cs)
                if touches or is_ens:
                    sites.append((call, is_ens))
            if not sites:
                continue
            n_methods += 1
            g = A.cfg(m, pc)
            par = _parents(m.node)
            ens_calls = [c for c, e in sites if e]
            tag = f"{pc.name}.{m.name}"
            run.check("R1", bool(ens_calls), f"{tag}: calls ensure_connection()",
                      key=f"{tag}|ensure_connection|missing", where=m.loc(),
                      message=f"{tag} touches the device but never calls ensure_connection(): a broken "
                              "link would not be repaired before the command's APDUs")
            for call, is_ens in sites:
                n_sites += 1
                if not is_ens:
                    for cn in g.nodes_of(call):
                        dom = any(g.dominates(en, cn) and en is not cn
                                  for ec in ens_calls for en in g.nodes_of(ec))
                        run.check("R1", dom, f"{tag}: `{norm(call.func)}` after ensure_connection()",
                                  key=f"{tag}|{norm(call.func)}|before-ensure", where=m.loc(call),
                                  message=f"in {tag} the device call `{norm(call)[:60]}` is not dominated by "
                                          "ensure_connection(): APDUs could be sent on a link known to be broken")
                for exc, want_flag in (("HSM2DongleCommError", True), ("HSM2DongleTimeoutError", False)):
                    tr, h = catching_handler(E, par, call, m, pc, exc)
                    site_key = f"{tag}|{norm(call.func)}|{exc}"
                    if h is None:
                        run.fail("R1", site_key + "|uncaught", m.loc(call),
                                 f"in {tag}, {exc} raised by `{norm(call)[:60]}` is not caught inside the "
                                 "command method: the client gets no device-error reply and the manager stops")
                        continue
                    # allow-list: exit_app() swallow followed by _wait_and_reconnect()
                    if exc == "HSM2DongleCommError" and len(h.body) == 1 and isinstance(h.body[0], ast.Pass) \
                            and call_name(call) == "exit_app" and len(tr.body) == 1:
                        blk = _sibling_after(par, tr)
                        ok_next = blk is not None and isinstance(blk, ast.Expr) and isinstance(blk.value, ast.Call) \
                            and call_name(blk.value) == "_wait_and_reconnect"
                        run.check("R1", ok_next, f"{tag}: exit_app() swallow followed by _wait_and_reconnect()",
                                  key=site_key + "|swallow", where=m.loc(h),
                                  message=f"{tag} swallows a link error of exit_app() without reconnecting next")
                        # the outer handler must still satisfy the discipline for the rest
                        continue
                    okr, devc = _returns_device(run, h, m, pc)
                    run.check("R1", okr, f"{tag}: {exc} handler returns ({devc},)",
                              key=site_key + "|reply", where=m.loc(h),
                              message=f"in {tag} the handler catching {exc} from `{norm(call.func)}` does not "
                                      f"end in `return (ERROR_CODE_DEVICE,)` (= {devc})")
                    fl = _sets_flag(run, h, m, pc, V2)
                    if want_flag:
                        run.check("R1", bool(fl) and _dominates_exits(h, fl), f"{tag}: CommError handler sets the flag",
                                  key=site_key + "|flag", where=m.loc(h),
                                  message=f"in {tag} the handler catching HSM2DongleCommError from "
                                          f"`{norm(call.func)}` does not set the comm-issue flag: the next "
                                          "request would not reconnect")
                    else:
                        run.check("R1", not fl, f"{tag}: timeout handler leaves the flag alone",
                                  key=site_key + "|flag-on-timeout", where=m.loc(h),
                                  message=f"in {tag} a time-out is treated as a link failure (flag set): the "
                                          "next request would needlessly re-run the bring-up")
            esc = E.esc(m, pc)
            for exc in ("HSM2DongleCommError", "HSM2DongleTimeoutError"):
                w = esc.get(exc)
                run.check("R1", w is None, f"{tag}: {exc} cannot escape",
                          key=f"{tag}|{exc}|escapes", where=m.loc(),
                          message=f"{exc} can escape {tag}: " + (w.render()[:300] if w else ""))
    run.floor("R1", "device-touching command methods", n_methods, 11)
    run.floor("R1", "device-touching call sites", n_sites, 20)

    # -------------------------------------------------------------- R2
    run.rule("R2", "ensure_connection: flag clear => immediate return with no device call; otherwise "
             "disconnect() then the start-up initialize_device(); the flag is cleared only after "
             "initialize_device() completed; HSM2ProtocolError is re-raised as HSM2DongleCommError; "
             "v1 delegates to the v2 object's ensure_connection.")
    g = A.cfg(ens, V2)
    flag_conds = [n for n in g.nodes if n.kind == "cond" and isinstance(n.ast, ast.Attribute)
                  and n.ast.attr == comm_flag(run)]
    run.require(len(flag_conds) == 1, "ensure_connection: the `_comm_issue` test vanished or multiplied")
    fc = flag_conds[0]
    fnode = [n for n in g.nodes if n.kind == "F" and n.cond is fc][0]
    tnode = [n for n in g.nodes if n.kind == "T" and n.cond is fc][0]
    run.check("R2", g.dominates(fc, g.exit) and fc in [s for s in g.succ[g.entry]] or g.dominates(fc, g.exit),
              "flag test dominates everything", key="ensure_connection|flag-test-first", where=ens.loc(),
              message="ensure_connection does not start by testing the comm-issue flag")
    # flag clear: no call at all before exit
    clear_reach = g.reachable(fnode)
    calls_clear = [n for n in clear_reach if n.kind in ("stmt", "cond") and n.ast is not None
                   and calls_in(n.ast) and not isinstance(n.ast, ast.Return)]
    run.check("R2", not calls_clear and g.exit in clear_reach,
              "flag clear => returns at once", key="ensure_connection|clear-path", where=ens.loc(),
              message="with the flag clear ensure_connection does more than return: "
                      + "; ".join(n.text()[:40] for n in calls_clear))
    disc = [n for c in find_calls(A, ens, "disconnect") for n in g.nodes_of(c)]
    inits = [c for c in find_calls(A, ens, "initialize_device")]
    run.require(bool(inits), "ensure_connection no longer calls initialize_device")
    # "re-opens the connection": the bring-up it runs begins by connecting - connect() precedes every other use of the dongle in initialize_device
    gi_ = A.cfg(init, V2)
    dcalls = [c for c in A.own_nodes(init) if isinstance(c, ast.Call) and isinstance(c.func, ast.Attribute) and norm(c.func.value) == "self.hsm2dongle"]
    conn = [c for c in dcalls if c.func.attr == "connect"]
    okc_ = len(conn) >= 1 and all(any(gi_.dominates(a, b) for c0 in conn for a in gi_.nodes_of(c0)) for c1 in dcalls if c1 not in conn for b in gi_.nodes_of(c1))
    run.check("R2", okc_, "initialize_device connects before anything else", key="initialize_device|connect-first", where=init.loc(),
              message="initialize_device uses the dongle without (first) calling self.hsm2dongle.connect(): after a link failure the connection closed by ensure_connection is "
                      "never re-opened and every later request fails")
    for c in inits:
        cs = [x.fn for x in A.resolve_call(c, ens, V2) if x.fn is not None]
        run.check("R2", cs == [init], "re-bring-up is the start-up initialize_device",
                  key="ensure_connection|initialize_device|same-function", where=ens.loc(c),
                  message="ensure_connection re-initialises through something other than "
                          "HSM2ProtocolLedger.initialize_device (the start-up bring-up)")
        for cn in g.nodes_of(c):
            run.check("R2", any(g.dominates(d, cn) for d in disc) and g.dominates(tnode, cn),
                      "initialize_device() preceded by disconnect() on the flag-set path",
                      key="ensure_connection|disconnect-first", where=ens.loc(c),
                      message="ensure_connection re-initialises without first closing the connection")
    clears = [n for n in A.own_nodes(ens) if isinstance(n, ast.Assign)
              and any(isinstance(t, ast.Attribute) and t.attr == comm_flag(run) for t in n.targets)]
    run.check("R2", len(clears) == 1 and isinstance(clears[0].value, ast.Constant) and clears[0].value.value is False,
              "exactly one flag clear in ensure_connection", key="ensure_connection|clear-count", where=ens.loc(),
              message=f"ensure_connection assigns the flag {len(clears)} time(s) / not to False")
    for cl in clears:
        for cn in g.nodes_of(cl):
            okd = all(any(g.dominates(x, cn) for x in g.nodes_of(c)) for c in inits)
            # and no handler path reaches the clear
            hp = False
            for n in A.own_nodes(ens):
                if isinstance(n, ast.Try):
                    for h in n.handlers:
                        for hn in g.nodes_of(h):
                            if cn in g.reachable(hn):
                                hp = True
            run.check("R2", okd and not hp, "flag cleared only after initialize_device() completed",
                      key="ensure_connection|clear-after-init", where=ens.loc(cl),
                      message="the comm-issue flag can be cleared without a completed re-initialisation: "
                              "a failed reconnect would not be retried on the next request")
    esc = E.esc(ens, V2)
    run.check("R2", "HSM2ProtocolError" not in esc and "HSM2DongleCommError" in esc,
              "failed reconnect surfaces as HSM2DongleCommError",
              key="ensure_connection|protocol-error-converted", where=ens.loc(),
              message=f"ensure_connection lets {sorted(esc)} escape; a failed re-initialisation must surface "
                      "as HSM2DongleCommError so that the command answers device-error and retries later")
    # conversion handler: the handler of HSM2ProtocolError raises CommError and does not clear the flag
    for n in A.own_nodes(ens):
        if isinstance(n, ast.Try):
            for h in n.handlers:
                if "HSM2ProtocolError" in E.class_names_of(h.type, ens, V2):
                    rs = [x for x in ast.walk(h) if isinstance(x, ast.Raise)]
                    run.check("R2", len(rs) == 1 and "HSM2DongleCommError" in E.class_names_of(rs[0].exc, ens, V2)
                              and isinstance(h.body[-1], ast.Raise),
                              "HSM2ProtocolError handler raises HSM2DongleCommError",
                              key="ensure_connection|handler-raises-comm", where=ens.loc(h),
                              message="the HSM2ProtocolError handler of ensure_connection does not re-raise "
                                      "as HSM2DongleCommError")
    V1 = P.cls("ledger.protocol_v1.HSM1ProtocolLedger")
    for m in (P.method(V1, "_get_pubkey"), P.method(V1, "_sign")):
        for c in find_calls(A, m, "ensure_connection"):
            cs = [x.fn for x in A.resolve_call(c, m, V1) if x.fn is not None]
            run.check("R2", cs == [ens], f"v1 {m.name} delegates to v2 ensure_connection",
                      key=f"{m.qualname}|ensure_connection|target", where=m.loc(c),
                      message=f"{m.qualname}: ensure_connection() does not resolve to the v2 protocol object's")

    # -------------------------------------------------------------- R5
    run.rule("R5", "Below the protocol layer nothing absorbs a link failure or a time-out: HSM2DongleCommError and HSM2DongleTimeoutError escape "
             "every device-touching method of the dongle classes (no handler there catches them or a common base class without "
             "re-raising), so that the command method above can set the flag / answer device-unreachable; a failing connect() during "
             "bring-up leaves initialize_device as HSM2ProtocolError, which ensure_connection converts into HSM2DongleCommError.")
    n_d = 0
    for q in sorted(dev):
        f_ = P.functions.get(q)
        if f_ is None or f_.cls is None or not any(f_.cls in dc.mro() or dc in f_.cls.mro() for dc in dongle_classes(run)):
            continue
        n_d += 1
        esc_ = E.esc(f_, f_.cls)
        for exc in ("HSM2DongleCommError", "HSM2DongleTimeoutError"):
            run.check("R5", exc in esc_, f"{f_.cls.name}.{f_.name}: {exc} propagates", key=f"{f_.qualname}|{exc}|absorbed", where=f_.loc(),
                      message=f"{exc} raised by an exchange inside {f_.qualname} cannot leave it (a handler there catches it or a base class of it): the "
                              "command would answer as if the device had replied and the comm-issue flag would never be set, so the next request "
                              "goes out on the dead link without a reconnection")
    run.floor("R5", "device-touching dongle methods", n_d, 25)
    # ... from every call site, not just from some: no call that can raise them sits under a handler that catches without re-raising
    n_cs = 0
    for q in sorted(dev):
        f_ = P.functions.get(q)
        if f_ is None or f_.cls is None or not any(f_.cls in dc.mro() or dc in f_.cls.mro() for dc in dongle_classes(run)) or isinstance(f_.node, ast.Lambda):
            continue
        par_ = None
        for sc_ in [dc for dc in dongle_classes(run) if f_.cls in dc.mro()][:1] or [f_.cls]:
            for call, cs in A.callees(f_, sc_):
                for exc in ("HSM2DongleCommError", "HSM2DongleTimeoutError"):
                    if not any(c.fn is not None and exc in E.esc(c.fn, c.self_cls) for c in cs):
                        continue
                    n_cs += 1
                    par_ = par_ if par_ is not None else _parents(f_.node)
                    tr_, h_ = catching_handler(E, par_, call, f_, sc_, exc)
                    if h_ is None:
                        continue
                    last = h_.body[-1] if h_.body else None
                    okr = isinstance(last, ast.Raise) and (last.exc is None or (isinstance(last.exc, ast.Call) and norm(last.exc.func) == exc)
                                                           or (isinstance(last.exc, ast.Name) and last.exc.id == h_.name))
                    okf = bool(tr_.finalbody) and isinstance(tr_.finalbody[-1], ast.Raise)
                    run.check("R5", okr or okf, f"{f_.qualname}: {exc} from `{norm(call.func)[:40]}` is not absorbed", key=f"{f_.qualname}|{exc}|absorbed-at|{norm(call.func)[:40]}",
                              where=f_.loc(h_), message=f"in {f_.qualname} the call `{norm(call)[:50]}` can raise {exc} but sits under `except "
                              f"{norm(h_.type) if h_.type is not None else ''}`, which does not re-raise it: the command answers with an ordinary result code, the "
                              "comm-issue flag is never set and the next request goes out on the dead link")
    run.floor("R5", "call sites in the dongle layer from which a link failure / time-out can come", n_cs, 40)
    gi_ = A.cfg(init, V2)
    par_i = _parents(init.node)
    for cc in find_calls(A, init, "connect"):
        tr_, h_ = catching_handler(E, par_i, cc, init, V2, "HSM2DongleCommError")
        okc = h_ is not None
        why = "no handler for HSM2DongleCommError around connect()"
        if okc:
            for hn in gi_.nodes_of(h_):
                for lf in Walker(A, init, V2, lambda e: None).walk(hn):
                    v_ = lf.deep(lf.node.ast.exc) if lf.kind == "raise" and lf.node.ast is not None and getattr(lf.node.ast, "exc", None) is not None else None
                    cls_ = norm(v_.func) if isinstance(v_, ast.Call) else (norm(v_) if v_ is not None else f"<{lf.kind}>")
                    if cls_ != "HSM2ProtocolError":
                        okc, why = False, f"the handler leaves with `{cls_}`"
        run.check("R5", okc, "a failing connect() leaves bring-up as HSM2ProtocolError", key="initialize_device|connect-failure|class", where=init.loc(cc),
                  message=f"when connect() fails during (re)bring-up, {why}: ensure_connection only converts HSM2ProtocolError into HSM2DongleCommError, so a failed "
                          "reconnection would escape the request (manager stops) instead of being answered device-unreachable and retried")

    # in the protocol layer a link failure is either answered device-unreachable with the flag set (command methods, R1), re-raised / converted, or - the
    # one expected case - the disconnection that exit_app() provokes on purpose; no other handler may absorb it (closed world over all handlers)
    n_h = 0
    seen_m = set()
    for pc in protocol_classes(run):
        for c_ in pc.mro():
            for mname, m in sorted(getattr(c_, "methods", {}).items()):
                if m.qualname in seen_m or not m.module.name.startswith("ledger."):
                    continue
                seen_m.add(m.qualname)
                for tr in [n for n in A.own_nodes(m) if isinstance(n, ast.Try)]:
                    raising = [c for st_ in tr.body for c in ast.walk(st_) if isinstance(c, ast.Call)
                               and any(cs.fn is not None and "HSM2DongleCommError" in E.esc(cs.fn, cs.self_cls) for cs in A.resolve_call(c, m, pc))]
                    if not raising:
                        continue
                    for h in tr.handlers:
                        if not any(E.is_sub("HSM2DongleCommError", hn) for hn in E.class_names_of(h.type, m, pc)):
                            continue
                        n_h += 1
                        last = h.body[-1] if h.body else None
                        ends_raise = isinstance(last, ast.Raise) or (isinstance(last, ast.Expr) and isinstance(last.value, ast.Call) and A.is_noreturn_call(last.value, m, pc))
                        flags = bool(_sets_flag(run, h, m, pc, V2))
                        gm_ = A.cfg(m, pc)
                        hn_ = [n for n in gm_.nodes if n.kind == "handler" and n.ast is h]
                        # every way out of the handler ends in an exception (raise, a raising finally of this or an enclosing try, a no-return helper)
                        ends_raise = ends_raise or (bool(hn_) and all(gm_.exit not in gm_.reachable(n, edge_ok=lambda a, b: not gm_.is_exc_edge(a, b)) for n in hn_))
                        # leaving an app / the menu makes the device drop off the bus on purpose: that disconnection is expected and followed by a reconnection
                        expected = all(call_name(c) in ("exit_app", "exit_menu") for c in raising) and all(isinstance(x, ast.Pass) for x in h.body)
                        run.check("R5", ends_raise or flags or expected, f"{m.qualname}: the handler over {sorted({call_name(c) for c in raising})} does not absorb a link failure",
                                  key=f"{m.qualname}|absorbs-link-failure|{','.join(sorted({call_name(c) or '?' for c in raising}))[:50]}", where=m.loc(h),
                                  message=f"in {m.qualname} a link failure raised by {sorted({call_name(c) for c in raising})} is caught by `except {norm(h.type) if h.type is not None else ''}` "
                                          "which neither sets the comm-issue flag, nor re-raises: the caller goes on as if the device were connected and the next "
                                          "request is sent on a dead link without reconnection")
                        # a handler that may be left normally inside a loop retries silently and then falls out of the loop
                        # (covered by the same condition: it must flag or raise on every way out)
    run.floor("R5", "link-failure handlers in the protocol layer", n_h, 10)

    # -------------------------------------------------------------- R3
    run.rule("R3", "_comm_issue is written True only inside HSM2DongleCommError handlers and in "
             "report_comm_issue; False only in __init__ and after re-initialisation in ensure_connection.")
    nwr = 0
    for (rhs, wfn, tgt) in A._field_writes.get(comm_flag(run), []):
        nwr += 1
        val = rhs.value if isinstance(rhs, ast.Constant) else None
        if val is True:
            ok = wfn.name == "report_comm_issue"
            if not ok:
                par = _parents(wfn.node)
                cur = tgt
                while id(cur) in par:
                    cur = par[id(cur)]
                    if isinstance(cur, ast.ExceptHandler):
                        ok = "HSM2DongleCommError" in E.class_names_of(cur.type, wfn, None) and \
                            len(E.class_names_of(cur.type, wfn, None)) == 1
                        break
            run.check("R3", ok, f"flag set in {wfn.name}", key=f"{wfn.qualname}|_comm_issue=True|writer",
                      where=wfn.loc(tgt), message=f"{wfn.qualname} sets the comm-issue flag outside a "
                      "HSM2DongleCommError handler")
        elif val is False:
            run.check("R3", wfn.name in ("__init__", "ensure_connection"), f"flag cleared in {wfn.name}",
                      key=f"{wfn.qualname}|_comm_issue=False|writer", where=wfn.loc(tgt),
                      message=f"{wfn.qualname} clears the comm-issue flag: only __init__ and a completed "
                              "ensure_connection may")
        else:
            run.fail("R3", f"{wfn.qualname}|_comm_issue|non-constant", wfn.loc(tgt),
                     f"{wfn.qualname} assigns a non-constant to the comm-issue flag")
    # report_comm_issue() is how the legacy protocol object (and helpers) raise the flag: it must do so, on the v2 object
    rci = P.method(V2, "report_comm_issue")
    sets_ = [n for n in A.own_nodes(rci) if isinstance(n, ast.Assign) and any(norm(t) == "self." + comm_flag(run) for t in n.targets)
             and isinstance(n.value, ast.Constant) and n.value.value is True]
    grc = A.cfg(rci, V2)
    run.check("R3", bool(sets_) and all(any(grc.dominates(x, grc.exit) for x in grc.nodes_of(n)) for n in sets_), "report_comm_issue() sets the flag on every path",
              key="report_comm_issue|sets-flag", where=rci.loc(), message="HSM2ProtocolLedger.report_comm_issue can return without setting `self._comm_issue = True`: a link failure "
              "reported through it (legacy protocol) is not followed by a reconnection")
    rep_calls = 0
    for f_ in P.all_functions:
        for c_ in find_calls(A, f_, "report_comm_issue"):
            rep_calls += 1
    run.floor("R3", "sites that set / clear the comm-issue flag (direct writes + report_comm_issue() calls)", nwr + rep_calls, 10)

    # -------------------------------------------------------------- R4
    _classifier(run, E)


def _sibling_after(par, node):
    p = par.get(id(node))
    if p is None:
        return None
    for field in ("body", "orelse", "finalbody"):
        blk = getattr(p, field, None)
        if isinstance(blk, list) and node in blk:
            i = blk.index(node)
            return blk[i + 1] if i + 1 < len(blk) else None
    return None


def _dominates_exits(h, flag_stmts):
    """Flag statement is a top-level statement of the handler body placed before
    its final return (no branch can skip it)."""
    top = [s for s in h.body]
    for f in flag_stmts:
        for s in top:
            if s is f or (isinstance(s, ast.Expr) and s.value is f):
                return True
    return False


def transport_predicates(run, rid="R4"):
    """Truth tables of is_timeout / is_comm_error (shared with C12 under a prefix): exactly the transport library's signals."""
    P, A = run.P, run.A

    def table(fn, atoms_of, spec, label, why):
        g = A.cfg(fn, None)
        ex = fn.params[0]
        names = []

        def atom(e):
            r = atoms_of(e, ex)
            if r is not None and r[0] not in names:
                names.append(r[0])
            return r
        leaves = [lf for lf in Walker(A, fn, None, atom).walk(g.entry)]
        n = 0
        unknown = set()
        for lf in leaves:
            if lf.kind != "return" or lf.node.ast.value is None:
                run.fail(rid, f"{fn.qualname}|shape|{lf.kind}", fn.loc(), f"{fn.qualname} does `{lf.kind}` instead of returning a verdict")
                continue
            v = lf.deep(lf.node.ast.value)
            unk = sorted(k for k in lf.pc if k.startswith("?"))
            unknown |= set(unk)
            for val in completions({k: b for k, b in lf.pc.items() if not k.startswith("?")}, spec["atoms"], spec.get("feasible")):
                n += 1
                want = spec["fn"](val)
                def bev(e_):
                    # a verdict written as a boolean expression over the signals
                    if isinstance(e_, ast.Constant):
                        return bool(e_.value)
                    if isinstance(e_, ast.UnaryOp) and isinstance(e_.op, ast.Not):
                        x_ = bev(e_.operand)
                        return None if x_ is None else not x_
                    if isinstance(e_, ast.BoolOp):
                        xs_ = [bev(x_) for x_ in e_.values]
                        if isinstance(e_.op, ast.And):
                            return False if any(x_ is False for x_ in xs_) else (None if any(x_ is None for x_ in xs_) else True)
                        return True if any(x_ is True for x_ in xs_) else (None if any(x_ is None for x_ in xs_) else False)
                    ra = atoms_of(e_, ex)
                    return (val.get(ra[0]) == ra[1]) if ra is not None and ra[0] in val else None
                got = bev(v)
                desc = ", ".join(f"{a}={'T' if val[a] else 'F'}" for a in spec["atoms"])
                run.check(rid, got == want and not (got and unk), f"{label}[{desc}] = {want}", key=f"{fn.qualname}|table|{desc}", where=fn.loc(lf.node.ast),
                          message=f"{fn.qualname}, case [{desc}]{' under the extra condition ' + str(unk) if unk else ''}: returns {got}, the transport library's "
                                  f"signal set requires {want}. {why}")
        run.floor(rid, f"{label} cases", n, spec.get("floor", 2 ** len(spec["atoms"])))

    TO = P.method(P.cls("ledger.hsm2dongle.HSM2DongleTimeoutError"), "is_timeout")
    CE = P.method(P.cls("ledger.hsm2dongle.HSM2DongleCommError"), "is_comm_error")

    def to_atoms(e, ex):
        cp = cmp_parts(e)
        if cp is None:
            if isinstance(e, ast.Call) and call_name(e) == "isinstance" and len(e.args) == 2 and norm(e.args[0]) == ex and norm(e.args[1]) == "CommException":
                return None        # isinstance admits subclasses: not the exact-type test
            return None
        l, op, r = cp
        lt, rt = norm(l), norm(r)
        if op in ("==", "!=", "is", "is not") and {lt, rt} == {f"type({ex})", "CommException"}:
            return ("TY", op in ("==", "is"))
        if op in ("==", "!=") and lt == f"{ex}.sw":
            ok, v = try_fold(P, r, TO, None)
            if ok and v == 0x6F00:
                return ("SW", op == "==")
        if op in ("==", "!=") and lt == f"{ex}.message" and isinstance(r, ast.Constant) and r.value == "Timeout":
            return ("MSG", op == "==")
        return None
    table(TO, to_atoms, {"atoms": ["TY", "SW", "MSG"], "fn": lambda v: v["TY"] and v["SW"] and v["MSG"]}, "is_timeout",
          "Anything else counted as a time-out is answered device-unreachable without a reconnection, and on a stream transport the late answer would be "
          "read by the next exchange.")

    def ce_atoms(e, ex):
        if isinstance(e, ast.Call) and call_name(e) == "isinstance" and len(e.args) == 2 and norm(e.args[0]) == ex and norm(e.args[1]) == "HSM2DongleCommError":
            return ("ISCE", True)
        cp = cmp_parts(e)
        if cp is None:
            return None
        l, op, r = cp
        lt, rt = norm(l), norm(r)
        if op in ("==", "!=", "is", "is not") and lt == f"type({ex})" and rt in ("BaseException", "OSError"):
            return ("TB" if rt == "BaseException" else "TO", op in ("==", "is"))
        if op in ("==", "!=") and lt == f"len({ex}.args)" and isinstance(r, ast.Constant) and r.value == 1:
            return ("L1", op == "==")
        if op in ("==", "!=") and lt == f"{ex}.args[0]" and isinstance(r, ast.Constant) and r.value in ("Error while writing", "read error"):
            return ("MW" if r.value == "Error while writing" else "MR", op == "==")
        return None
    table(CE, ce_atoms, {"atoms": ["TB", "TO", "L1", "MW", "MR", "ISCE"],
                         "fn": lambda v: (v["TB"] and v["L1"] and v["MW"]) or (v["TO"] and v["L1"] and v["MR"]) or v["ISCE"],
                         # one exact type at most, one first argument at most, an HSM2DongleCommError is neither a bare BaseException nor an OSError
                         "feasible": lambda v: not (v["TB"] and v["TO"]) and not (v["MW"] and v["MR"]) and not (v["ISCE"] and (v["TB"] or v["TO"])),
                         "floor": 20}, "is_comm_error",
          "A link failure that is not recognised is not followed by a reconnection; something else recognised as one triggers needless bring-ups.")


def _classifier(run, E):
    P, A = run.P, run.A
    transport_predicates(run, "R4")
    run.rule("R4", "_send_command: the transport exchange is guarded by a handler catching BaseException "
             "(ledgerblue signals a write failure with a bare BaseException); inside it the order is "
             "user-defined status -> timeout -> comm error -> generic; predicate literals equal what "
             "the installed ledgerblue raises; connect/disconnect map CommException to HSM2DongleCommError "
             "in every dongle class.")
    D = P.cls("ledger.hsm2dongle.HSM2Dongle")
    sc = P.method(D, "_send_command")
    g = A.cfg(sc, D)
    ex = [c for c in find_calls(A, sc, "exchange")]
    run.require(len(ex) == 1, "_send_command: exchange call vanished")
    par = _parents(sc.node)
    tr, h = catching_handler(E, par, ex[0], sc, D, "BaseException")
    run.check("R4", h is not None, "exchange guarded by a BaseException handler",
              key="HSM2Dongle._send_command|exchange|catches-BaseException", where=sc.loc(ex[0]),
              message="the handler around dongle.exchange() no longer catches BaseException: ledgerblue's "
                      "`raise BaseException(\"Error while writing\")` (HID write failure) escapes "
                      "unclassified and takes the manager down")
    if h is not None:
        # decision table of the handler: which exception class leaves for which classification outcome
        evar = h.name

        def atom(e):
            cp = cmp_parts(e)
            if cp is not None and cp[1] in ("==", "is") and {norm(cp[0]), norm(cp[2])} == {f"type({evar})", "CommException"}:
                return ("CE", True)
            if cp is not None and cp[1] in ("!=", "is not") and {norm(cp[0]), norm(cp[2])} == {f"type({evar})", "CommException"}:
                return ("CE", False)
            if isinstance(e, ast.Call) and call_name(e) == "isinstance" and len(e.args) == 2 and norm(e.args[0]) == evar and norm(e.args[1]) == "CommException":
                return ("CE", True)
            if isinstance(e, ast.Call) and call_name(e) == "is_user_defined_error" and len(e.args) == 1 and norm(e.args[0]) == f"{evar}.sw":
                return ("U", True)
            if isinstance(e, ast.Call) and call_name(e) == "is_timeout" and [norm(a) for a in e.args] == [evar]:
                return ("T", True)
            if isinstance(e, ast.Call) and call_name(e) == "is_comm_error" and [norm(a) for a in e.args] == [evar]:
                return ("C", True)
            return None
        atoms = ["CE", "U", "T", "C"]
        n_cases = 0
        for hn in g.nodes_of(h):
            for lf in Walker(A, sc, D, atom).walk(hn):
                if lf.kind == "raise" and lf.value is not None:
                    v_ = lf.deep(lf.node.ast.exc) if lf.node.ast is not None and getattr(lf.node.ast, "exc", None) is not None else lf.value
                    cls_ = norm(v_.func) if isinstance(v_, ast.Call) else norm(v_)
                else:
                    cls_ = f"<{lf.kind}>"
                for val in completions({k: b for k, b in lf.pc.items() if k in atoms}, atoms):
                    n_cases += 1
                    want = "HSM2DongleErrorResult" if (val["CE"] and val["U"]) else ("HSM2DongleTimeoutError" if val["T"] else (
                        "HSM2DongleCommError" if val["C"] else "HSM2DongleError"))
                    desc = ", ".join(f"{a}={'T' if val[a] else 'F'}" for a in atoms)
                    kind = {"HSM2DongleErrorResult": "user-guard", "HSM2DongleTimeoutError": "timeout-guard", "HSM2DongleCommError": "comm-guard",
                            "HSM2DongleError": "classification-order"}[want]
                    run.check("R4", cls_ == want, f"[{desc}] -> {want}", key=f"HSM2Dongle._send_command|{kind}|{desc}", where=sc.loc(lf.node.ast) if lf.node.ast is not None else sc.loc(h),
                              message=f"transport failure classification, case [{desc}] (CE: a CommException, U: status word in the device's error range, T: time-out, "
                                      f"C: link error): _send_command leaves with `{cls_}`, expected `{want}`")
        run.floor("R4", "classification cases", n_cases, 16)
    # the status word ledgerblue gives a CommException raised without one (its time-outs) must not count as a device answer
    isud = P.method(P.cls("ledger.hsm2dongle._Error"), "is_user_defined_error")
    acc = accepted_set(A, isud, None, isud.params[0])
    run.check("R4", 0x6F00 not in acc and 0x9000 not in acc, "0x6F00 / 0x9000 are not device error results", key="is_user_defined_error|not|0x6f00", where=isud.loc(),
              message="is_user_defined_error accepts 0x6F00 (ledgerblue's default status word, carried by its time-out exception) or 0x9000: a time-out "
                      "would be classified as a device error result before is_timeout() is consulted")
    # literals vs ledgerblue
    try:
        import importlib.util
        spec = importlib.util.find_spec("ledgerblue")
        lb = os.path.dirname(spec.origin) if spec and spec.origin else None
    except Exception:
        lb = None
    lits = set()
    for cname, mname in (("HSM2DongleTimeoutError", "is_timeout"), ("HSM2DongleCommError", "is_comm_error")):
        fn = P.method(P.cls("ledger.hsm2dongle." + cname), mname)
        for n in A.own_nodes(fn):
            if isinstance(n, ast.Constant) and isinstance(n.value, (str, int)) and not isinstance(n.value, bool):
                lits.add(n.value)
    for want in ("Timeout", 0x6F00, "Error while writing", "read error"):
        run.check("R4", want in lits, f"classifier literal {want!r} present",
                  key=f"classifier|literal|{want}", where="middleware/ledger/hsm2dongle.py",
                  message=f"the transport classifier no longer tests for {want!r}")
    if lb and os.path.exists(os.path.join(lb, "comm.py")):
        src = open(os.path.join(lb, "comm.py")).read()
        ce = open(os.path.join(lb, "commException.py")).read()
        run.check("R4", 'BaseException("Error while writing")' in src, "ledgerblue raises BaseException('Error while writing')",
                  key="ledgerblue|write-error-literal", where=lb,
                  message="installed ledgerblue no longer raises BaseException(\"Error while writing\")")
        run.check("R4", 'CommException("Timeout")' in src, "ledgerblue raises CommException('Timeout')",
                  key="ledgerblue|timeout-literal", where=lb,
                  message="installed ledgerblue no longer raises CommException(\"Timeout\")")
        run.check("R4", re.search(r"sw\s*=\s*0x6F00", ce) is not None, "CommException default sw == 0x6F00",
                  key="ledgerblue|default-sw", where=lb, message="CommException's default sw changed")
    else:
        run.note("ledgerblue sources not found; literal agreement with the library not checked")
    # connect / disconnect
    for dc in dongle_classes(run):
        for mname in ("connect", "disconnect"):
            fn = P.method(dc, mname)
            esc = E.esc(fn, dc)
            ok = False
            for n in A.own_nodes(fn):
                if isinstance(n, ast.Try):
                    for hh in n.handlers:
                        if "CommException" in E.class_names_of(hh.type, fn, dc):
                            rs = [x for x in ast.walk(hh) if isinstance(x, ast.Raise)]
                            ok = ok or (len(rs) >= 1 and all("HSM2DongleCommError" in E.class_names_of(x.exc, fn, dc) for x in rs)
                                        and isinstance(hh.body[-1], ast.Raise))
            run.check("R4", ok, f"{dc.name}.{mname} maps CommException to HSM2DongleCommError",
                      key=f"{fn.qualname}|CommException-mapping", where=fn.loc(),
                      message=f"{fn.qualname} no longer converts the transport's CommException into "
                              "HSM2DongleCommError")
