"""C15 - attestations gathered from a genuine device verify end to end
(decided as writer/reader agreement; gather -> verify is not executed)."""
import ast
import re
from sa.model import AnalysisError, Unknown, norm, unwrap, EnumMember, Obj
from sa.query import Facts, call_name, find_calls, try_fold, calls_in, defs_of
from sa.prov import Prov
from sa.layout import Layout
from .common import firmware, send_sites, dongle_classes
from .c06 import _strip
from .c07 import struct_table
from . import c06, c07
from sa.canon import fold_consts

TECHNIQUE = ("writer/reader schema agreement between the gathering commands and the certificate "
             "parsers/verifiers (element keys, names, signed_by topology, targets, tweak source), byte-layout "
             "normalisation of the signed data the admin dongle reconstructs versus the extractor offsets, "
             "path rules on the paging loops, table agreement of the attestation opcodes with the firmware")
EXPLANATION = (
    "Static analysis of /repo's current source (nothing executed). Decides: every element dict the "
    "onboarding / attestation commands build has exactly the keys its parser requires, a valid name, and "
    "the topology attestation->device->root, ui/signer->attestation with the tweak taken from the same "
    "gathered attestation whose message and signature are stored; the targets written include the ones "
    "the verify commands read; the admin dongle signs role|header|key and role|key so that the extractor "
    "offsets (-65:, 1:) select the keys; the SGX certificate is quote->attestation->quoting_enclave->"
    "platform_ca->sgx_root with message/custom data/signature/key taken from the matching envelope "
    "fields, and the envelope parser compares the embedded custom message with the separately fetched "
    "one; the UI message paging reads up to MAX pages and only fails when a further page would be needed; "
    "the UI attestation exchange (four requests in order, the page loop as LIMIT x MORE table), the endorsement answers taken apart at absolute offsets, the handshake's exchanges and signed payloads, the SGX envelope walked at consecutive offsets, the PEM chain as (pieces, condition, element); "
    "attestation opcodes and the legacy header equal the firmware's; the Ledger health check dominates "
    "the save. Does not decide acceptance of a real gathered certificate."
)


def _element_dicts(run, fn, ctor_name):
    out = []
    for c in find_calls(run.A, fn, ctor_name):
        if c.args and isinstance(c.args[0], ast.Dict):
            d = c.args[0]
            out.append(({k.value: v for k, v in zip(d.keys, d.values)}, c))
    return out


def _envelope_walk(run):
    """R3e: the SGX quote envelope is taken apart at consecutive offsets."""
    P, A = run.P, run.A
    from sa.decide import Walker, cmp_parts, completions
    from sa.canon import canon_sums
    run.rule("R3e", "Envelope walk: SgxEnvelope parses the fixed part at the given offset o, the QE authentication data at o1 = o + (size of the fixed part), the QE "
             "certification data at o2 = o1 + (total size of the authentication data), and accepts only when envelope[o2 + (total size of the certification data):] is "
             "the separately fetched custom message (the only refusal); it stores the two parsed parts and that message. The variable-size parts read data = "
             "value[h : h + size] with h = offset + (size of their header), accept only when all `size` bytes are there, and report header + len(data) as their total size.")
    EN = P.cls("sgx.envelope.SgxEnvelope")
    ini = P.method(EN, "__init__")
    g = A.cfg(ini, EN)
    envp, cmp_, offp, litp = ini.params[1], ini.params[2], ini.params[3], ini.params[4]

    def cs(t):
        return _strip(canon_sums(t))
    from sa.decide import subst
    state = {"W": None, "tail": None}

    def resolve(e):
        b = state["W"]._bind or {}
        for _ in range(8):
            nm_ = {x.id for x in ast.walk(e) if isinstance(x, ast.Name)}
            hit = {k: v for k, v in b.items() if k in nm_}
            if not hit:
                break
            e = subst(e, hit)
        return e

    def atom(e):
        cp = cmp_parts(e)
        if cp is None:
            return None
        l, op, r = cp
        l = resolve(l)
        if op in ("==", "!=") and norm(r) == cmp_ and isinstance(l, ast.Subscript) and isinstance(l.slice, ast.Slice) and norm(l.value) == envp \
                and l.slice.upper is None and l.slice.step is None and l.slice.lower is not None:
            state["tail"] = l.slice.lower
            return ("TAIL", op == "==")
        return None
    n = 0
    W = Walker(A, ini, EN, atom, max_leaves=32)
    state["W"] = W
    for lf in W.walk(g.entry):
        n += 1
        where = ini.loc(lf.node.ast) if lf.node.ast is not None else ini.loc()
        unknown = sorted(k[1:] for k in lf.pc if isinstance(k, str) and k.startswith("?"))
        run.check("R3e", not unknown, "the envelope is refused for a wrong custom message only", key=f"SgxEnvelope|extra|{';'.join(unknown)[:50]}", where=where,
                  message=f"SgxEnvelope.__init__ decides on `{'`, `'.join(unknown)[:100]}`: a genuine envelope could be refused")
        if unknown:
            continue
        # the constructor calls, in order (whether their result goes to a local first or straight into the attribute)
        calls = []

        def rb(e_, lf=lf):
            # effect values already carry the store of their moment; only the opaque bindings (results of calls) remain to be spelled out
            for _ in range(8):
                nm_ = {x.id for x in ast.walk(e_) if isinstance(x, ast.Name)}
                hit = {k: v for k, v in lf.bind.items() if k in nm_}
                if not hit:
                    break
                e_ = subst(e_, hit)
            return e_
        for k_, st_, v_ in lf.effects:
            if k_ in ("assign", "expr") and isinstance(v_, ast.Call) and call_name(v_) in ("__init__", "SgxQeAuthData", "SgxQeCertData"):
                calls.append((call_name(v_), rb(v_)))
        kinds = [c[0] for c in calls]
        run.check("R3e", kinds == ["__init__", "SgxQeAuthData", "SgxQeCertData"], "fixed part, then authentication data, then certification data", key="SgxEnvelope|order", where=where,
                  message=f"SgxEnvelope.__init__ parses {kinds}; expected the fixed part, the QE authentication data and the QE certification data, in this order")
        if kinds != ["__init__", "SgxQeAuthData", "SgxQeCertData"]:
            continue
        qa_t, qc_t = _strip(norm(calls[1][1])), _strip(norm(calls[2][1]))
        stores = {}
        for k_, st_, v_ in lf.effects:
            if k_ == "assign" and isinstance(st_.targets[0], ast.Attribute) and norm(st_.targets[0].value) == "self":
                stores[st_.targets[0].attr] = _strip(norm(rb(v_)))

        def K(e_):
            t = _strip(norm(rb(e_) if isinstance(e_, ast.AST) else e_))
            t = t.replace(qc_t, "QC").replace(qa_t, "QA")
            if stores.get("qe_auth_data") == qa_t:
                t = t.replace("self.qe_auth_data", "QA")
            if stores.get("qe_cert_data") == qc_t:
                t = t.replace("self.qe_cert_data", "QC")
            return cs(t)
        o1 = cs(f"{offp} + self.get_bytelength()")
        o2 = cs(f"{offp} + self.get_bytelength() + QA.get_total_bytelength()")
        o3 = cs(f"{offp} + self.get_bytelength() + QA.get_total_bytelength() + QC.get_total_bytelength()")
        for (kind, c_), wo, what in zip(calls, (offp, o1, o2), ("the fixed part", "the QE authentication data", "the QE certification data")):
            args = [K(a) for a in c_.args]
            run.check("R3e", args == [envp, wo, litp], f"{what} is parsed at its offset", key=f"SgxEnvelope|offset|{kind}", where=where,
                      message=f"SgxEnvelope.__init__ parses {what} with arguments {args}; expected ({envp}, {wo}, {litp}) (QA / QC: the parsed authentication / certification "
                              "data): the fields would be read from the wrong place and the certificate built from them would not verify (or verify something the device did not sign)")
        okt = "TAIL" in lf.pc and state["tail"] is not None and K(state["tail"]) == o3
        if lf.kind == "raise":
            run.check("R3e", okt and lf.pc["TAIL"] is False, "refused only when the tail differs from the custom message", key="SgxEnvelope|refusal", where=where,
                      message=f"SgxEnvelope.__init__ raises under {sorted(lf.pc.items())} (tail taken at `{K(state['tail']) if state['tail'] is not None else None}`); expected only "
                              f"for envelope[{o3}:] != {cmp_}")
        else:
            run.check("R3e", okt and lf.pc["TAIL"] is True and stores == {"qe_auth_data": qa_t, "qe_cert_data": qc_t, "custom_message": cmp_},
                      "accepted with the tail equal to the custom message", key="SgxEnvelope|accept", where=where,
                      message=f"SgxEnvelope.__init__ completes under {sorted(lf.pc.items())} (tail taken at `{K(state['tail']) if state['tail'] is not None else None}`) storing "
                              f"{sorted(stores)}; expected envelope[{o3}:] == {cmp_} and the parts stored as qe_auth_data / qe_cert_data / custom_message")
    run.floor("R3e", "paths of SgxEnvelope.__init__", n, 2)
    # the variable-size parts
    QA = P.cls("sgx.envelope.SgxQeAuthData")
    qi = P.method(QA, "__init__")
    gq = A.cfg(qi, QA)
    vp, op_ = qi.params[1], qi.params[2]
    want_d = cs(f"{vp}[{op_} + self.get_bytelength():{op_} + self.get_bytelength() + self.size]")

    def qatom(e):
        cp = cmp_parts(e)
        if cp is None:
            return None
        l, op, r = cp
        if op in ("==", "!=") and {cs(norm(resolve(l))), cs(norm(resolve(r)))} == {f"len({want_d})", "self.size"}:
            return ("FULL", op == "==")
        return None
    nq = 0
    Wq = Walker(A, qi, QA, qatom, max_leaves=16)
    state["W"] = Wq
    for lf in Wq.walk(gq.entry):
        nq += 1
        where = qi.loc(lf.node.ast) if lf.node.ast is not None else qi.loc()
        unknown = sorted(k[1:] for k in lf.pc if isinstance(k, str) and k.startswith("?"))
        stores = {st_.targets[0].attr: cs(norm(lf.deep(st_.value))) for k_, st_, v_ in lf.effects
                  if k_ == "assign" and isinstance(st_.targets[0], ast.Attribute) and norm(st_.targets[0].value) == "self"}
        sup = [[norm(a) for a in v_.args] for k_, st_, v_ in lf.effects if k_ == "expr" and isinstance(v_, ast.Call) and call_name(v_) == "__init__"]
        if lf.kind == "raise":
            ok = not unknown and lf.pc.get("FULL") is False
            w = "a refusal only when fewer than `size` bytes are there"
        else:
            ok = not unknown and lf.pc.get("FULL") is True and stores == {"data": want_d} and sup == [[vp, op_, qi.params[3]]]
            w = f"data = {want_d} stored after the header was parsed at the given offset, with all `size` bytes present"
        run.check("R3e", ok, f"variable-size part: {w}", key=f"SgxQeAuthData|{lf.kind}", where=where,
                  message=f"SgxQeAuthData.__init__ ends in `{lf.kind}` under {sorted(lf.pc.items())} with stores {stores}, header parse {sup}" + (f", deciding on {unknown}" if unknown else "")
                          + f"; expected {w}")
    run.floor("R3e", "paths of SgxQeAuthData.__init__", nq, 2)
    tb = P.method(QA, "get_total_bytelength")
    from sa.decide import return_values
    rv = {cs(x) for x in return_values(A, tb, QA, Prov(A))}
    run.check("R3e", rv == {cs("self.get_bytelength() + len(self.data)")}, "total size = header + data", key="SgxQeAuthData.get_total_bytelength", where=tb.loc(),
              message=f"SgxQeAuthData.get_total_bytelength returns {sorted(rv)}; expected header size + len(data): the part after it would be parsed at the wrong offset")
    QC = P.cls("sgx.envelope.SgxQeCertData")
    run.check("R3e", QA in QC.mro() and QC.lookup("get_total_bytelength")[2] is tb, "the certification data is read the same way", key="SgxQeCertData|inherits", where=QC.module.relpath,
              message="SgxQeCertData no longer reads its data through SgxQeAuthData's constructor / total size")


def _saved(run):
    """R1s: what was gathered is written to the output file; the endorsement commands run inside a handshake."""
    P, A = run.P, run.A
    run.rule("R1s", "Every completed run of the gathering commands that added an element to the certificate saves it to options.output_file_path afterwards; "
             "do_onboard opens the secure channel (handshake()) before it asks for the device key or sets up the endorsement key.")
    for q in ("admin.onboard.do_onboard", "admin.ledger_attestation.do_attestation", "admin.sgx_attestation.do_attestation"):
        fn = P.func(q)
        g = A.cfg(fn, None)
        noexc = lambda a, b, g=g: not g.is_exc_edge(a, b)   # noqa: E731
        adds = [x for c in find_calls(A, fn, "add_element") for x in g.nodes_of(c)]
        saves = [x for c in find_calls(A, fn, "save_to_jsonfile") if len(c.args) == 1 and _strip(norm(c.args[0])) == "options.output_file_path" for x in g.nodes_of(c)]
        run.floor("R1s", f"{q}: elements added", len(adds), 1)
        for a in adds:
            p_ = g.witness_path(a, g.exit, avoid=set(saves), edge_ok=noexc)
            run.check("R1s", p_ is None, f"{fn.qualname}: the certificate is saved after the elements were added", key=f"{q}|saved|{a.lineno}", where=fn.loc(a.ast) if a.ast is not None else fn.loc(),
                      message=f"{q} can complete after adding an element (line {a.lineno}) without saving the certificate to options.output_file_path: nothing (or a stale file) is left "
                              "for the verify command", witness=g.describe_path(p_) if p_ else None)
    ob = P.func("admin.onboard.do_onboard")
    g = A.cfg(ob, None)
    hs = [x for c in find_calls(A, ob, "handshake") for x in g.nodes_of(c)]
    for nm_ in ("get_device_key", "setup_endorsement_key"):
        for c in find_calls(A, ob, nm_):
            for cn in g.nodes_of(c):
                run.check("R1s", any(g.dominates(h, cn) for h in hs), f"do_onboard: handshake before {nm_}", key=f"do_onboard|handshake-first|{nm_}", where=ob.loc(c),
                          message=f"do_onboard calls {nm_}() without the secure-channel handshake before it: the device refuses the endorsement commands outside a channel")


def _handshake(run, PV, DA):
    """R2h: the secure-channel handshake the endorsement commands run under."""
    P, A = run.P, run.A
    run.rule("R2h", "Handshake (BOLOS secure channel, as the device checks it): IDENTIFY | 0 | 0 | len | TARGET_ID; NONCE | 0 | 0 | 8 | n with n = os.urandom(NONCE_LENGTH) and the "
             "device nonce d = answer[4:12]; the master certificate signs ROLE.MASTER | master public key; the ephemeral certificate signs ROLE.EPHEMERAL | n | d | ephemeral "
             "public key - host nonce first - both with the master key, and each is sent as SEND_KEY | role | 0 | len(cert) | len(pub) | pub | len(sig) | sig.")
    fn = P.method(DA, "handshake")
    g = A.cfg(fn, DA)
    L = Layout(lambda e: try_fold(P, e, fn, DA))
    # the key both certificates are signed with: the caller's master key, or a fresh one when none was given
    recvs = {norm(c.func.value) for c in find_calls(A, fn, "ecdsa_sign")}
    run.require(len(recvs) == 1 and next(iter(recvs)).isidentifier(), f"DongleAdmin.handshake: the signing key of the certificates is not one local ({sorted(recvs)})")
    mk = next(iter(recvs))
    mk_defs = sorted(_strip(norm(d_.value)) for d_ in PV.defs(fn, DA).get(mk, []) if d_.value is not None)
    run.check("R2h", set(mk_defs) <= {"ec.PrivateKey()", fn.params[1]} and (mk == fn.params[1] or fn.params[1] in mk_defs), "the certificates are signed with the master key given (or a fresh one)",
              key="handshake|master-key", where=fn.loc(), message=f"handshake signs its certificates with `{mk}` = {mk_defs}; expected the master_key argument, defaulting to ec.PrivateKey()")
    roles = {}
    for nm_, ds_ in PV.defs(fn, DA).items():
        for d_ in ds_:
            if d_.value is None:
                continue
            t = _strip(norm(d_.value))
            if t == "os.urandom(self.NONCE_LENGTH)":
                roles["nonce"] = nm_
            if t.startswith("self._send_command(self.CMD.NONCE,"):
                roles["answer"] = nm_
    rets = [n for n in A.own_nodes(fn) if isinstance(n, ast.Return) and isinstance(n.value, ast.Name)]
    if len(rets) == 1:
        roles["eph"] = rets[0].value.id
    run.require(set(roles) == {"nonce", "answer", "eph"}, f"DongleAdmin.handshake: nonce / NONCE answer / ephemeral key not identified ({sorted(roles)})")
    n_, a_, e_ = roles["nonce"], roles["answer"], roles["eph"]
    stop = (n_, a_, e_, mk)
    signs = []
    for c in find_calls(A, fn, "ecdsa_sign"):
        for cn in g.nodes_of(c):
            signs.append((norm(c.func.value), sorted(L.canon(x) for x in PV.expand_consistent(fn, DA, c.args[0], cn, stop=stop))))
    want_signs = [(mk, [f"bytes(u8(1) | {mk}.pubkey.serialize(compressed=False))"]),
                  (mk, [f"bytes(u8(17) | {n_} | {a_}[4:12] | {e_}.pubkey.serialize(compressed=False))"])]
    rl = P.enum_members(P.cls("admin.dongle_admin._Role"))
    run.check("R2h", rl["MASTER"].value == 1 and rl["EPHEMERAL"].value == 0x11, "role bytes (master 0x01, ephemeral 0x11)", key="_Role|handshake-values", where="middleware/admin/dongle_admin.py",
              message=f"_Role MASTER / EPHEMERAL changed: {rl}")
    run.check("R2h", signs == want_signs, "what the master key signs for the two certificates", key="handshake|signed-data", where=fn.loc(),
              message=f"handshake signs {signs}; expected {want_signs}: the device recomputes these bytes (host nonce before device nonce) and refuses the channel otherwise - "
                      "nothing could be gathered from a genuine device")
    sends = []
    for c, cmd in send_sites(run, fn):
        for cn in g.nodes_of(c):
            sends.append((cmd.name if isinstance(cmd, EnumMember) else "?", sorted(L.canon(x) for x in PV.expand_consistent(fn, DA, c.args[1], cn, stop=stop))))

    def cert(sub, role, key, extra=""):
        # the expected message, written out and put through the same layout normaliser
        pub = f"{key}.pubkey.serialize(compressed=False)"
        ts = f"bytes([self.ROLE.{role}]) + {extra}{pub}"
        sig = f"{mk}.ecdsa_serialize({mk}.ecdsa_sign(bytes({ts})))"
        crt = f"bytes([len({pub})]) + {pub} + bytes([len({sig})]) + {sig}"
        return [L.canon(f"bytes([self.SUBCMD.{sub}, 0, len({crt})]) + {crt}")]
    tid = P.class_const(DA, "TARGET_ID")
    want_sends = [("IDENTIFY", ["u8(0) | u8(0) | u8(%d) | %s" % (len(tid), " | ".join(f"u8({b})" for b in tid))]),
                  ("NONCE", [f"u8(0) | u8(0) | u8({P.class_const(DA, 'NONCE_LENGTH')}) | {n_}"]),
                  ("SEND_KEY", cert("SEND_KEY_MASTER", "MASTER", mk)), ("SEND_KEY", cert("SEND_KEY_EPHEMERAL", "EPHEMERAL", e_, f"{n_} + {a_}[4:12] + "))]
    run.check("R2h", sends == want_sends, "the four exchanges of the handshake", key="handshake|exchanges", where=fn.loc(),
              message=f"handshake sends {[(a, [x[:120] for x in b]) for a, b in sends]}; expected {[(a, [x[:120] for x in b]) for a, b in want_sends]}")


def _pem_chain(run, PV):
    """R3c: the certificates taken out of the QE certification data."""
    P, A = run.P, run.A
    from sa.decide import Walker, subst
    run.rule("R3c", "PEM chain: SgxQeCertData.certs is, in order, x.replace(START, b'') for every piece x of data.split(END) whose stripped text starts with START "
             "(START / END the X.509 PEM markers with their line breaks) - whether written with map / filter, a comprehension or a loop.")
    QC = P.cls("sgx.envelope.SgxQeCertData")
    fn = P.method(QC, "__init__")
    g = A.cfg(fn, QC)
    locs = set(PV.defs(fn, QC)) | set(fn.params)
    run.check("R3c", P.class_const(QC, "X509_START_MARKER") == b"-----BEGIN CERTIFICATE-----\n" and P.class_const(QC, "X509_END_MARKER") == b"\n-----END CERTIFICATE-----\n",
              "PEM markers", key="SgxQeCertData|markers", where=QC.module.relpath, message="the X.509 PEM markers of SgxQeCertData changed")

    def F(e):
        return _strip(norm(fold_consts(P, e, fn, QC, locals_=locs)))

    def triple_of_expr(e):
        """(sequence, condition, element) texts with the variable written $x, from map/filter or a comprehension"""
        if isinstance(e, ast.Call) and isinstance(e.func, ast.Name) and e.func.id in ("list", "tuple") and len(e.args) == 1:
            e = e.args[0]
        if isinstance(e, (ast.ListComp, ast.GeneratorExp)) and len(e.generators) == 1 and isinstance(e.generators[0].target, ast.Name):
            ge = e.generators[0]
            v = ge.target.id
            cond = ge.ifs[0] if len(ge.ifs) == 1 else (ast.BoolOp(op=ast.And(), values=ge.ifs) if ge.ifs else ast.Constant(value=True))
            ren = {v: ast.Name(id="X_", ctx=ast.Load())}
            return F(ge.iter), F(subst(cond, ren)), F(subst(e.elt, ren))
        if isinstance(e, ast.Call) and call_name(e) == "map" and len(e.args) == 2 and isinstance(e.args[0], ast.Lambda) and len(e.args[0].args.args) == 1:
            mv = e.args[0].args.args[0].arg
            elt = subst(e.args[0].body, {mv: ast.Name(id="X_", ctx=ast.Load())})
            src = e.args[1]
            cond = ast.Constant(value=True)
            if isinstance(src, ast.Call) and call_name(src) == "filter" and len(src.args) == 2 and isinstance(src.args[0], ast.Lambda) and len(src.args[0].args.args) == 1:
                fv = src.args[0].args.args[0].arg
                cond = subst(src.args[0].body, {fv: ast.Name(id="X_", ctx=ast.Load())})
                src = src.args[1]
            return F(src), F(cond), F(elt)
        return None
    want = (F(ast.parse("self.data.split(self.X509_END_MARKER)", mode="eval").body),
            F(ast.parse("X_.strip().startswith(self.X509_START_MARKER)", mode="eval").body),
            F(ast.parse("X_.replace(self.X509_START_MARKER, b'')", mode="eval").body))
    stores = [n for n in A.own_nodes(fn) if isinstance(n, ast.Assign) and any(norm(t) == "self.certs" for t in n.targets)]
    run.check("R3c", len(stores) == 1, "self.certs is stored once", key="SgxQeCertData|certs-stores", where=fn.loc(), message=f"SgxQeCertData.__init__ stores self.certs {len(stores)} times")
    if len(stores) != 1:
        return
    got = None
    for cn in g.nodes_of(stores[0]):
        for x in PV.expand_consistent(fn, QC, stores[0].value, cn):
            try:
                got = triple_of_expr(ast.parse(x, mode="eval").body)
            except SyntaxError:
                got = None
    if got is None:
        # a loop that appends: one iteration as a table
        loops = [n for n in A.own_nodes(fn) if isinstance(n, ast.For) and isinstance(n.target, ast.Name)]
        run.require(len(loops) == 1, "SgxQeCertData.__init__: the certificate chain is built neither by an expression nor by one loop (idiom not understood)")
        lp = loops[0]
        v = lp.target.id
        ren = {v: ast.Name(id="X_", ctx=ast.Load())}
        head = [n for n in g.nodes if n.kind == "for" and n.ast is lp]
        item = [n for n in g.nodes if n.kind == "T" and n.note == "has-item" and n.cond in head]
        run.require(len(head) == 1 and len(item) == 1, "SgxQeCertData.__init__: loop structure not understood")
        conds, elts, bad = set(), set(), []
        for lf in Walker(A, fn, QC, lambda e: None, max_leaves=16).walk(item[0], stops={head[0]}):
            pushes = [v_ for k_, st_, v_ in lf.effects if k_ == "expr" and isinstance(v_, ast.Call) and call_name(v_) == "append"]
            ks = [(F(subst(ast.parse(k[1:], mode="eval").body, ren)), b) for k, b in lf.pc.items() if k.startswith("?")]
            if lf.kind != "stop" or len(ks) != 1 or len(pushes) > 1:
                bad.append(lf.kind)
                continue
            cnd, pol = ks[0]
            if pushes:
                conds.add(cnd if pol else f"not {cnd}")
                elts.add(F(subst(lf.deep(pushes[0].args[0]), ren)))
            else:
                conds.add(f"not {cnd}" if pol else cnd)
        got = (F(lp.iter), next(iter(conds)) if len(conds) == 1 else f"?{sorted(conds)}", next(iter(elts)) if len(elts) == 1 else f"?{sorted(elts)}") if not bad else None
        # the list the loop appends to is what is stored
    run.check("R3c", got == want, "the certificate chain is the marked pieces of the data, in order, without their start marker", key="SgxQeCertData|certs", where=fn.loc(stores[0]),
              message=f"SgxQeCertData takes its certificates as (pieces, condition, element) = {got}; expected {want}: a genuine chain would lose or corrupt a certificate "
                      "(bytes of its body taken for marker characters, a certificate skipped) and the attestation could not be gathered or verified")


def _endorsement_parse(run, PV, DA, gd, gg, se, gs):
    """R2t: which bytes of the BOLOS answers become the certificate fields (absolute offsets, whatever the way the answer is walked)."""
    P, A = run.P, run.A
    from sa.canon import compose_slices
    run.rule("R2t", "Endorsement answers are taken apart at the right offsets. GET_KEY(device) answers three length-prefixed fields n1 | header | n2 | key | n3 | "
             "signature: with R the answer, header = R[1:1+R[0]], key = R[2+R[0] : 2+R[0]+R[1+R[0]]], signature = the field after it; the result is pubkey = key, "
             "message = u8(ROLE.DEVICE) | header | key, signature, all hex. SETUP_ENDO answers key(65) | signature: pubkey = R[:65], signature = R[65:], message = "
             "u8(ROLE.ENDORSEMENT) | pubkey; the scheme is sent as SETUP_ENDO | scheme | 0 | 0 and acknowledged with SETUP_ENDO_ACK | 0 | 0 | len(cert) | cert.")

    def C(t, fn=None):
        if fn is not None:
            try:
                t = norm(fold_consts(P, ast.parse(t, mode="eval").body, fn, DA, locals_=set(PV.defs(fn, DA)) | set(fn.params)))
            except (SyntaxError, AnalysisError, Unknown):
                pass
        t = _strip(compose_slices(t))
        if "REPEAT(" in t:
            raise AnalysisError("endorsement answer taken apart in a loop: idiom not understood (UNDECIDED)")
        return t
    for fn, g, kind in ((gd, gg, "device"), (se, gs, "endorsement")):
        sends = send_sites(run, fn)
        L = Layout(lambda e, fn=fn: try_fold(P, e, fn, DA))
        lays = []
        for c, cmd in sends:
            for cn in g.nodes_of(c):
                ls = {L.canon(x) for x in PV.expand_consistent(fn, DA, c.args[1], cn)} if len(c.args) > 1 else {""}
                lays.append((cmd.name if isinstance(cmd, EnumMember) else "?", sorted(ls), c))
        rets = [n for n in A.own_nodes(fn) if isinstance(n, ast.Return) and isinstance(n.value, ast.Dict)]
        run.check("R2t", len(rets) == 1, f"{fn.name} returns the three-field result once", key=f"{fn.name}|result-sites", where=fn.loc(), message=f"{fn.name}: {len(rets)} result sites")
        if len(rets) != 1:
            continue
        d = {k.value: v for k, v in zip(rets[0].value.keys, rets[0].value.values) if isinstance(k, ast.Constant)}
        run.check("R2t", set(d) == {"pubkey", "message", "signature"}, f"{fn.name} result fields", key=f"{fn.name}|result-fields", where=fn.loc(rets[0]),
                  message=f"{fn.name} returns fields {sorted(d)}")
        if set(d) != {"pubkey", "message", "signature"}:
            continue
        if kind == "device":
            first = [x for x in lays if x[0] == "GET_KEY" and x[1] == ["u8(self.SUBCMD.GET_KEY_DEVICE) | u8(0) | u8(0)"] or x[1] == [f"u8({_sub(P, DA, 'GET_KEY_DEVICE')}) | u8(0) | u8(0)"]]
            run.check("R2t", len(first) == 1, "one GET_KEY | GET_KEY_DEVICE | 0 | 0 request", key="get_device_key|request", where=fn.loc(),
                      message=f"get_device_key's requests are {[(a, b) for a, b, _ in lays]}; expected one GET_KEY request for the device key")
            if len(first) != 1:
                continue
            Rt = norm(first[0][2])
            H = f"{Rt}[1:1 + {Rt}[0]]"
            K = f"{Rt}[2 + {Rt}[0]:2 + {Rt}[0] + {Rt}[1 + {Rt}[0]]]"
            S0 = f"3 + {Rt}[0] + {Rt}[1 + {Rt}[0]]"
            S = f"{Rt}[{S0}:{S0} + {Rt}[2 + {Rt}[0] + {Rt}[1 + {Rt}[0]]]]"
            want = {"pubkey": C(f"{K}.hex()"), "signature": C(f"{S}.hex()"), "message": C(f"(bytes([self.ROLE.DEVICE]) + {H} + {K}).hex()")}
        else:
            first = [x for x in lays if x[0] == "SETUP_ENDO"]
            ack = [x for x in lays if x[0] == "SETUP_ENDO_ACK"]
            sch, cert = fn.params[1], fn.params[2]
            run.check("R2t", len(first) == 1 and first[0][1] == [f"u8({sch}) | u8(0) | u8(0)"], "SETUP_ENDO | scheme | 0 | 0", key="setup_endorsement_key|request", where=fn.loc(),
                      message=f"setup_endorsement_key's requests are {[(a, b) for a, b, _ in lays]}; expected SETUP_ENDO carrying the scheme")
            run.check("R2t", len(ack) == 1 and ack[0][1] == [f"u8(0) | u8(0) | u8(len({cert})) | {cert}"], "SETUP_ENDO_ACK | 0 | 0 | len(cert) | cert", key="setup_endorsement_key|ack",
                      where=fn.loc(), message=f"setup_endorsement_key acknowledges with {[(a, b) for a, b, _ in ack]}; expected the endorsement certificate, length-prefixed: "
                      "without it the device does not commit the attestation key")
            if len(first) != 1:
                continue
            okd_ = bool(ack) and all(any(g.dominates(a, b) for a in g.nodes_of(first[0][2])) for b in g.nodes_of(ack[0][2]))
            run.check("R2t", okd_, "setup before its acknowledgement", key="setup_endorsement_key|order", where=fn.loc(), message="SETUP_ENDO_ACK can be sent before SETUP_ENDO")
            Rt = norm(first[0][2])
            want = {"pubkey": C(f"{Rt}[:65].hex()"), "signature": C(f"{Rt}[65:].hex()"), "message": C(f"(bytes([self.ROLE.ENDORSEMENT]) + {Rt}[:65]).hex()")}
        if kind == "endorsement":
            from sa.decide import Walker, cmp_parts
            sch = fn.params[1]

            def satom(e, sch=sch):
                cp = cmp_parts(e)
                if cp is None:
                    return None
                l, op, r = cp
                if op in ("in", "not in") and norm(l) == sch:
                    if isinstance(r, (ast.List, ast.Tuple, ast.Set)) and all(isinstance(x, ast.Constant) for x in r.elts):
                        vals_ = {x.value for x in r.elts}
                    else:
                        okr_, rv_ = try_fold(P, r, fn, DA)
                        rv_ = unwrap(rv_) if okr_ else None
                        vals_ = set(rv_) if isinstance(rv_, (tuple, list, set, frozenset)) else None
                    if vals_ == {1, 2}:
                        return ("SCHEME", op == "in")
                return None
            for lf in Walker(A, fn, DA, satom, max_leaves=32).walk(g.entry):
                unknown = sorted(k[1:] for k in lf.pc if isinstance(k, str) and k.startswith("?"))
                okw = not unknown and ((lf.kind == "raise" and lf.pc.get("SCHEME") is False) or (lf.kind == "return" and lf.pc.get("SCHEME") is True))
                run.check("R2t", okw, "setup_endorsement_key refuses exactly the schemes other than 1 and 2", key=f"setup_endorsement_key|scheme|{lf.kind}|{sorted(lf.pc.items())}"[:100],
                          where=fn.loc(lf.node.ast) if lf.node.ast is not None else fn.loc(),
                          message=f"setup_endorsement_key ends in `{lf.kind}` under {sorted(lf.pc.items())}: expected a refusal exactly for a scheme outside {{1, 2}} (onboarding uses "
                                  "scheme 2: refusing it leaves the device without an attestation key)")
        for rn in g.nodes_of(rets[0]):
            for key in ("pubkey", "message", "signature"):
                got = {C(x, fn) for x in PV.expand_consistent(fn, DA, d[key], rn)}
                run.check("R2t", got == {C(want[key], fn)}, f"{fn.name}: {key} is the right part of the answer", key=f"{fn.name}|{key}", where=fn.loc(rets[0]),
                          message=f"{fn.name} returns {key} = `{sorted(got)[0][:160] if got else None}`; expected `{want[key][:160]}`: the {kind} certificate element would hold "
                                  "bytes the device did not sign (or not all of them) and its signature would not verify")


def _sub(P, DA, name):
    try:
        return unwrap(P.const_eval(ast.parse(f"self.SUBCMD.{name}", mode="eval").body, DA.module, cls=DA))
    except (Unknown, AnalysisError):
        return "?"


def _ui_pages(run, PV, D, ua, g, uo):
    """R4u: the UI attestation exchange: order of the requests and one page-loop iteration as a decision table."""
    P, A = run.P, run.A
    from sa.decide import Walker, cmp_parts, completions, subst
    run.rule("R4u", "UI attestation gathering: the requests are UI_ATT | APP_HASH, UI_ATT | UD_VALUE | hexdecode(the ud value given) - once, before any page or signature "
             "request - then pages UI_ATT | GET_MSG | n for n = 0, 1, 2, ... and UI_ATT | GET. One page-loop iteration, with LIMIT = (n == MAX_PAGES_UI_ATT_MESSAGE) "
             "tested before the request and MORE = (answer[DATA] != 0): LIMIT -> raises without a request; otherwise one request, the message grows by "
             "answer[DATA+1:] exactly once, MORE -> next iteration with n + 1, not MORE -> the loop is left and the result is returned. n starts at 0 and the "
             "message empty; the result is {app_hash: APP_HASH answer[DATA:], message: the pages, signature: GET answer[DATA:]}, hex-encoded.")
    okd, DATA = try_fold(P, ast.parse("self.OFF.DATA", mode="eval").body, ua, D)
    run.require(okd, "OFF.DATA not foldable")
    DATA = unwrap(DATA)
    MAXP = P.class_const(D, "MAX_PAGES_UI_ATT_MESSAGE")
    L = Layout(lambda e: try_fold(P, e, ua, D))
    locs = sorted(set(PV.defs(ua, D)))
    sends = send_sites(run, ua)
    run.floor("R4u", "exchanges in get_ui_attestation", len(sends), 4)
    kinds = {}
    PG = None
    PGL = False       # PG is a list of pages (page number = len(PG)) rather than a counter
    for c, cmd in sends:
        okc = isinstance(cmd, EnumMember) and cmd.name == "UI_ATT"
        run.check("R4u", okc, "every request of the UI attestation goes to UI_ATT", key=f"get_ui_attestation|command|{getattr(c, 'lineno', 0)}", where=ua.loc(c),
                  message=f"get_ui_attestation sends command `{norm(c.args[0])[:40]}`, expected self.CMD.UI_ATT")
        lay = None
        for cn in g.nodes_of(c):
            for stop in [()] + [(nm,) for nm in locs]:
                try:
                    ls = {L.canon(x) for x in PV.expand_consistent(ua, D, c.args[1], cn, stop=stop)} if len(c.args) > 1 else set()
                except AnalysisError:
                    continue
                if len(ls) == 1:
                    lay = next(iter(ls))
                    m_ = re.fullmatch(rf"u8\({uo['OP_GET_MSG'].value}\) \| u8\((\w+)\)", lay)
                    if m_ and stop == (m_.group(1),):
                        PG = m_.group(1)
                        lay = "PAGE"
                        break
                    # the page number kept as the number of pages gathered so far: len(<list of pages>)
                    m_ = re.fullmatch(rf"u8\({uo['OP_GET_MSG'].value}\) \| u8\(len\((\w+)\)\)", lay)
                    if m_ and stop == (m_.group(1),):
                        PG = m_.group(1)
                        PGL = True
                        lay = "PAGE"
                        break
                    if not stop:
                        break
                    lay = None
        kinds.setdefault(lay, []).append(c)
    p = ua.params[1]
    want_kinds = {f"u8({uo['OP_APP_HASH'].value})": "the UI hash request", f"u8({uo['OP_UD_VALUE'].value}) | hex({p})": "the UD value", "PAGE": "the page request",
                  f"u8({uo['OP_GET'].value})": "the signature request"}
    for k, what in want_kinds.items():
        run.check("R4u", len(kinds.get(k, [])) == 1, f"{what} is sent from one place", key=f"get_ui_attestation|request|{what}", where=ua.loc(),
                  message=f"get_ui_attestation has {len(kinds.get(k, []))} request sites for {what} (`{k}`); requests found: {sorted(str(x) for x in kinds)}")
    extra = sorted(str(k) for k in kinds if k not in want_kinds)
    run.check("R4u", not extra, "no other request", key="get_ui_attestation|request|extra", where=ua.loc(), message=f"get_ui_attestation also sends {extra}")
    if any(len(kinds.get(k, [])) != 1 for k in want_kinds) or PG is None:
        return
    ud, pg, sg, ah = (kinds[k][0] for k in (f"u8({uo['OP_UD_VALUE'].value}) | hex({p})", "PAGE", f"u8({uo['OP_GET'].value})", f"u8({uo['OP_APP_HASH'].value})"))
    for later, what in ((pg, "a page"), (sg, "the signature")):
        okd_ = all(any(g.dominates(a, b) for a in g.nodes_of(ud)) for b in g.nodes_of(later))
        run.check("R4u", okd_, f"the UD value is sent before {what} is requested", key=f"get_ui_attestation|ud-first|{what}", where=ua.loc(later),
                  message=f"{what} of the UI attestation can be requested without the UD value having been sent: the device signs over a stale or empty user-defined value")
    loops = [n for n in A.own_nodes(ua) if isinstance(n, ast.While) and any(x is pg for x in ast.walk(n))]
    run.require(len(loops) == 1, "get_ui_attestation: the page loop (while ...: request page) was not identified")
    loop = loops[0]
    head, after = c06._while_nodes(g, loop)
    run.require(head is not None, "get_ui_attestation: page loop structure not understood")
    t_edges = [n for n in g.nodes if n.kind == "T" and n.cond is not None and n.cond.ast is loop.test]
    run.require(len(t_edges) == 1, "get_ui_attestation: page loop entry edge not found")
    # `while <flag>:` with the flag True on entry is entered at least once, like `while True:`; the flag's new value says whether the loop goes on
    FLAG = loop.test.id if isinstance(loop.test, ast.Name) else None
    if FLAG is not None:
        fds = [d for d in PV.defs(ua, D).get(FLAG, []) if not any(d.node is x for x in ast.walk(loop))]
        if not (fds and all(d.kind == "assign" and isinstance(d.value, ast.Constant) and d.value.value is True for d in fds)):
            FLAG = None
    okd_ = all(any(g.dominates(a, b) for a in g.nodes_of(pg)) for b in g.nodes_of(sg)) or (FLAG is not None and all(g.dominates(head, b) for b in g.nodes_of(sg)))
    run.check("R4u", okd_, "the message is gathered before the signature request (which resets the device's state)", key="get_ui_attestation|pages-before-get", where=ua.loc(sg),
              message="the signature can be requested before the message pages were read: OP_GET resets the attestation state and the pages are gone")
    state = {"W": None}

    def resolve(e):
        b = state["W"]._bind or {}
        for _ in range(6):
            names = {n.id for n in ast.walk(e) if isinstance(n, ast.Name)}
            hit = {k: v for k, v in b.items() if k in names}
            if not hit:
                break
            e = subst(e, hit)
        return e

    def is_answer(x):
        x = resolve(x)
        return isinstance(x, ast.Call) and call_name(x) == "_send_command"

    def atom(e):
        cp = cmp_parts(e)
        if cp is None:
            return None
        l, op, r = cp
        okr, rv = try_fold(P, r, ua, D)
        rv = unwrap(rv) if okr else None
        if ((isinstance(l, ast.Name) and l.id == PG and not PGL) or (PGL and norm(l) == f"len({PG})")) and rv == MAXP:
            if op in ("==", ">=", "<", "!="):
                return ("LIMIT", op in ("==", ">="))
        if isinstance(l, ast.Subscript) and not isinstance(l.slice, ast.Slice) and try_fold(P, l.slice, ua, D) == (True, DATA) and is_answer(l.value):
            tab = {("==", 0): False, ("!=", 0): True, ("==", 1): True, ("!=", 1): False, (">", 0): True, ("<=", 0): False, (">=", 1): True, ("<", 1): False}
            if (op, rv) in tab:
                return ("MORE", tab[(op, rv)])
        return None
    W = Walker(A, ua, D, atom, max_leaves=64)
    state["W"] = W
    n_cases = 0
    acc_names = set()
    # one iteration, starting at the loop's own test (`while n != MAX:` is the limit test; `while True:` is no test)
    for lf in W.walk(head if FLAG is None else t_edges[0], stops={head}):
        unknown = sorted(k[1:] for k in lf.pc if isinstance(k, str) and k.startswith("?"))
        where = ua.loc(lf.node.ast) if lf.node.ast is not None else ua.loc(loop)
        run.check("R4u", not unknown, "the page loop decides on the page limit and the continuation flag only", key=f"get_ui_attestation|pages|extra|{';'.join(unknown)[:60]}", where=where,
                  message=f"the UI attestation page loop decides on `{'`, `'.join(unknown)[:120]}`: neither the page limit (tested before the request) nor the answer's continuation flag")
        if unknown:
            continue
        kind = "next" if lf.kind == "stop" else ("done" if lf.kind == "return" else lf.kind)
        state["W"]._bind = lf.bind
        flag_more = None
        if FLAG is not None and lf.kind == "stop":
            # back at the test of `while <flag>:` - whether there is a next iteration is the flag's new value
            fv = lf.env.get(FLAG, lf.bind.get(FLAG))
            if isinstance(fv, ast.Constant) and isinstance(fv.value, bool):
                kind = "next" if fv.value else "done"
            elif fv is not None and (atom(fv) or (None,))[0] == "MORE":
                flag_more = atom(fv)[1]
            else:
                kind = f"`{FLAG}` = {norm(fv)[:40] if fv is not None else 'unchanged (True)'}"
        reqs = [st_ for k_, st_, v_ in lf.effects if k_ in ("assign", "expr") and any(x is pg for x in ast.walk(st_))]
        apps = [(st_, v_) for k_, st_, v_ in lf.effects if k_ == "aug" and isinstance(st_.target, ast.Name) and isinstance(st_.op, ast.Add)
                and any(isinstance(x, ast.Subscript) for x in ast.walk(st_.value)) and st_.target.id != PG]
        if PGL:
            # ... and the pages kept in that list: one append per iteration is both the growth of the message and the step of the page number
            apps = [(st_, v_.args[0]) for k_, st_, v_ in lf.effects if k_ == "expr" and isinstance(v_, ast.Call) and isinstance(v_.func, ast.Attribute)
                    and isinstance(v_.func.value, ast.Name) and v_.func.value.id == PG and len(v_.args) == 1 and v_.func.attr in ("append", "extend", "insert")]
            oth = [norm(v_)[:50] for k_, st_, v_ in lf.effects if (k_ == "expr" and isinstance(v_, ast.Call) and isinstance(v_.func, ast.Attribute) and isinstance(v_.func.value, ast.Name)
                                                                   and v_.func.value.id == PG and v_.func.attr != "append") or (k_ in ("assign", "aug") and PG in lf.env | lf.bind)]
            run.check("R4u", not oth, "the list of pages only grows by appended pages", key="get_ui_attestation|pages|list-ops", where=where,
                      message=f"the list of pages `{PG}` (whose length is the page number) is changed by {oth} in the page loop")
        for val in completions({k: b for k, b in lf.pc.items() if k in ("LIMIT", "MORE")}, ["LIMIT", "MORE"]):
            n_cases += 1
            desc = f"page limit {'reached' if val['LIMIT'] else 'not reached'}, more pages {'announced' if val['MORE'] else 'not announced'}"
            if val["LIMIT"]:
                run.check("R4u", kind == "raise" and not reqs and "LIMIT" in lf.pc, f"[{desc}] raises without a request", key=f"get_ui_attestation|pages|limit|{val['MORE']}", where=where,
                          message=f"UI attestation page loop, case [{desc}]: the iteration does `{kind}` with {len(reqs)} request(s); expected the page-limit error before any request")
                continue
            want = "next" if val["MORE"] else "done"
            if flag_more is not None:
                kind = "next" if val["MORE"] == flag_more else "done"
            run.check("R4u", kind == want and ("MORE" in lf.pc or flag_more is not None) and "LIMIT" in lf.pc, f"[{desc}] -> {want}", key=f"get_ui_attestation|pages|flow|{val['MORE']}", where=where,
                      message=f"UI attestation page loop, case [{desc}]: the iteration ends in `{kind}`, expected `{want}` (the device's flag byte says whether another page "
                              "follows; the limit is tested before each request)")
            run.check("R4u", len(reqs) == 1, f"[{desc}] one page request", key=f"get_ui_attestation|pages|requests|{val['MORE']}", where=where,
                      message=f"UI attestation page loop, case [{desc}]: {len(reqs)} page requests in one iteration")
            off = None
            if len(apps) == 1:
                v = resolve(apps[0][1])
                acc_names.add(PG if PGL else apps[0][0].target.id)
                if isinstance(v, ast.Subscript) and isinstance(v.slice, ast.Slice) and v.slice.upper is None and v.slice.step is None and is_answer(v.value):
                    okl, lo = try_fold(P, v.slice.lower, ua, D) if v.slice.lower is not None else (True, 0)
                    off = unwrap(lo) - DATA if okl and isinstance(unwrap(lo), int) else None
            run.check("R4u", len(apps) == 1 and off == 1, f"[{desc}] the message grows by answer[DATA+1:]", key=f"get_ui_attestation|pages|append|{val['MORE']}", where=where,
                      message=f"UI attestation page loop, case [{desc}]: the iteration appends {[norm(resolve(a[1]))[:50] for a in apps]} (offset {off} after the data start); "
                              "expected exactly answer[DATA+1:], once - the page without its flag byte")
            if val["MORE"] and not PGL:
                nxt = lf.env.get(PG)
                run.check("R4u", nxt is not None and norm(nxt) in (f"{PG} + 1", f"1 + {PG}"), f"[{desc}] next page is n + 1", key="get_ui_attestation|pages|counter", where=where,
                          message=f"UI attestation page loop, case [{desc}]: the page number becomes `{norm(nxt) if nxt is not None else PG + ' (unchanged)'}`, expected {PG} + 1")
    run.floor("R4u", "page-loop cases of get_ui_attestation", n_cases, 3)
    # start values
    outside = lambda d: not any(d.node is x for x in ast.walk(loop))   # noqa: E731
    for nm, want, what in ([(PG, [], "the list of pages starts empty (first page requested is page 0)")] if PGL else
                           [(PG, 0, "the first page requested is page 0")] + [(a, b"", "the message starts empty") for a in sorted(acc_names)]):
        ds = [d for d in PV.defs(ua, D).get(nm, []) if d.kind == "assign" and outside(d)]
        okv = len(ds) == 1 and isinstance(ds[0].value, ast.Constant) and ds[0].value.value == want and type(ds[0].value.value) is type(want)
        if PGL:
            okv = len(ds) == 1 and isinstance(ds[0].value, ast.List) and not ds[0].value.elts
        run.check("R4u", okv, what, key=f"get_ui_attestation|pages|start|{nm}", where=ua.loc(ds[0].node) if ds else ua.loc(),
                  message=f"before the page loop `{nm}` is {[norm(d.value) for d in ds]}; expected {want!r}: {what}")
    # the result
    for r in [n for n in A.own_nodes(ua) if isinstance(n, ast.Return)]:
        if not isinstance(r.value, ast.Dict):
            run.fail("R4u", "get_ui_attestation|result|shape", ua.loc(r), f"get_ui_attestation returns `{norm(r.value)[:60]}`, not the three-field result")
            continue
        d = {k.value: v for k, v in zip(r.value.keys, r.value.values) if isinstance(k, ast.Constant)}
        for rn in g.nodes_of(r):
            for key, src in (("app_hash", ah), ("signature", sg)):
                got = {_strip(x) for x in PV.expand_consistent(ua, D, d[key], rn)} if key in d else set()
                w = _strip(f"{norm(src)}[self.OFF.DATA:].hex()")
                run.check("R4u", got == {w}, f"result.{key} is the data of its answer, hex-encoded", key=f"get_ui_attestation|result|{key}", where=ua.loc(r),
                          message=f"get_ui_attestation returns {key} = {sorted(got)[:1]}, expected `{w}`")
            got = {_strip(x) for x in PV.expand_consistent(ua, D, d["message"], rn, stop=tuple(acc_names))} if "message" in d else set()
            wantm = {f"b''.join({PG}).hex()", f"bytes().join({PG}).hex()"} if PGL else {f"{next(iter(acc_names))}.hex()" if acc_names else ""}
            run.check("R4u", len(acc_names) == 1 and len(got) == 1 and got <= wantm and set(d) == {"app_hash", "message", "signature"}, "result.message is the gathered pages, hex-encoded",
                      key="get_ui_attestation|result|message", where=ua.loc(r), message=f"get_ui_attestation returns message = {sorted(got)[:1]} / fields {sorted(d)}")


def _powhsm_pages(run, PV, PA, pr, g):
    """R4 (pages): one iteration of the page loop of PowHsmAttestation.run as a decision table."""
    P, A = run.P, run.A
    from sa.decide import Walker, cmp_parts, completions
    from sa.canon import ieval, NotClosed
    run.rule("R4p", "powHSM message / envelope gathering, one page-loop iteration as a decision table: the request is send(op, bytes([page])) with page 0, 1, 2, ...; "
             "with MORE = (answer[DATA] == 1) and LEGACY = (gathering the message and the answer's data starts with LEGACY_HEADER): not LEGACY -> append "
             "answer[DATA+1:], go on iff MORE; LEGACY -> append answer[DATA:] (the whole data: a legacy message has no flag byte), stop, and the envelope is the message; "
             "page += 1 either way; buffers start empty.")
    loops = [n for n in A.own_nodes(pr) if isinstance(n, ast.While) and any(isinstance(c, ast.Call) and call_name(c) == "send" for c in ast.walk(n))]
    run.require(len(loops) in (1, 2), "PowHsmAttestation.run: the page loop (while ...: self.send(op, page)) was not identified")
    loop = loops[0]
    head, after = c06._while_nodes(g, loop)
    run.require(head is not None, "PowHsmAttestation.run: page loop structure not understood")
    sends = [n for n in ast.walk(loop) if isinstance(n, ast.Assign) and isinstance(n.value, ast.Call) and call_name(n.value) == "send"
             and len(n.targets) == 1 and isinstance(n.targets[0], ast.Name)]
    run.require(len(sends) == 1, "PowHsmAttestation.run: `answer = self.send(op, bytes([page]))` not found in the page loop")
    R = sends[0].targets[0].id
    sc = sends[0].value
    # the command object's Offset is the dongle's OFF table (HSM2DongleCommand.__init__: self.Offset = hsm2dongle.OFF)
    DG = P.cls("ledger.hsm2dongle.HSM2Dongle")
    cini = P.method(P.cls("ledger.hsm2dongle_cmds.command.HSM2DongleCommand"), "__init__")
    offs = [n for n in A.own_nodes(cini) if isinstance(n, ast.Assign) and norm(n.targets[0]) == "self.Offset"]
    run.require(len(offs) == 1 and norm(offs[0].value) == f"{cini.params[1]}.OFF", "HSM2DongleCommand: self.Offset is no longer the dongle's OFF table")
    anyd = next(iter(DG.methods.values()))
    okd, DATA = try_fold(P, ast.parse("self.OFF.DATA", mode="eval").body, anyd, DG)
    run.require(okd and isinstance(unwrap(DATA), int), "OFF.DATA not foldable")
    DATA = unwrap(DATA)
    locs_ = set(PV.defs(pr, PA)) | set(pr.params)

    class _Off(ast.NodeTransformer):
        def visit_Attribute(self, node):
            if norm(node.value) == "self.Offset":
                ok_, v_ = try_fold(P, ast.parse(f"self.OFF.{node.attr}", mode="eval").body, anyd, DG)
                if ok_ and isinstance(unwrap(v_), int):
                    return ast.copy_location(ast.Constant(value=unwrap(v_)), node)
            self.generic_visit(node)
            return node

    import copy as _copy

    class _Len(ast.NodeTransformer):
        def visit_Call(self, node):
            self.generic_visit(node)
            if isinstance(node.func, ast.Name) and node.func.id == "len" and len(node.args) == 1 and isinstance(node.args[0], ast.Constant) \
                    and isinstance(node.args[0].value, (bytes, str)):
                return ast.copy_location(ast.Constant(value=len(node.args[0].value)), node)
            return node
    single = {}

    class _Loc(ast.NodeTransformer):
        def visit_Name(self, node):
            if isinstance(node.ctx, ast.Load) and node.id in single:
                return ast.copy_location(ast.Constant(value=single[node.id]), node)
            return node

    def fold(e):
        e2 = fold_consts(P, _Loc().visit(_Off().visit(_copy.deepcopy(e))), pr, PA, locals_=locs_)
        return fold_consts(P, _Len().visit(e2), pr, PA, locals_=locs_)
    # locals bound once, outside the page loop, to an integer constant (data_offset = self.Offset.DATA, header_end = data_offset + len(HEADER)) stand for it
    for _ in range(3):
        for nm_, ds_ in PV.defs(pr, PA).items():
            if nm_ in single or len(ds_) != 1 or ds_[0].value is None or ds_[0].kind != "assign":
                continue
            try:
                v_ = ieval(fold(ds_[0].value), {})
            except (NotClosed, TypeError):
                continue
            if isinstance(v_, int) and not isinstance(v_, bool):
                single[nm_] = v_
    LH = P.module_const(pr.module.name, "LEGACY_HEADER")
    if len(loops) == 2:
        _powhsm_pages_split(run, PV, PA, pr, g, loops, fold, DATA, LH)
        return

    def atom(e):
        cp = cmp_parts(e)
        if cp is None:
            return None
        l, op, r = cp
        if op not in ("==", "!="):
            return None
        lf_, rf_ = fold(l), fold(r)
        for a_, b_ in ((lf_, rf_), (rf_, lf_)):
            if isinstance(a_, ast.Subscript) and isinstance(a_.value, ast.Name) and a_.value.id == R:
                if not isinstance(a_.slice, ast.Slice) and isinstance(a_.slice, ast.Constant) and a_.slice.value == DATA and isinstance(b_, ast.Constant) and b_.value == 1:
                    return ("MORE", op == "==")
                if isinstance(a_.slice, ast.Slice) and isinstance(b_, ast.Constant) and b_.value == LH:
                    try:
                        lo = ieval(a_.slice.lower, {}) if a_.slice.lower is not None else 0
                        hi = ieval(a_.slice.upper, {}) if a_.slice.upper is not None else None
                    except NotClosed:
                        return None
                    if lo == DATA and hi == DATA + len(LH) and a_.slice.step is None:
                        return ("LEGH", op == "==")
            if isinstance(a_, ast.Name) and a_.id == "name" and isinstance(b_, ast.Constant) and b_.value == "message":
                return ("MSG", op == "==")
        return None
    t_edges = [n for n in g.nodes if n.kind == "T" and n.cond is not None and n.cond.ast is loop.test]
    run.require(len(t_edges) >= 1 and isinstance(loop.test, ast.Name), "PowHsmAttestation.run: page loop is not `while <flag>:` (idiom not understood)")
    MOREV = loop.test.id
    defs_all = PV.defs(pr, PA)

    def const_defs(nm):
        return sorted(norm(d.value) for d in defs_all.get(nm, []) if d.value is not None)

    def entry_env(e):
        """legacy-offset style variables (assigned the constants 0 and 1 only): 1 on entry to an iteration - the 0 is set on the legacy path, which ends the gathering"""
        env = {}
        for n_ in ast.walk(e):
            if isinstance(n_, ast.Name) and n_.id != R and const_defs(n_.id) == ["0", "1"]:
                env[n_.id] = 1
        return env
    n_cases = 0
    acc_kinds = set()
    for lf in Walker(A, pr, PA, atom, max_leaves=64).walk(t_edges[0], stops={head}):
        kind = "next test" if lf.kind == "stop" else f"{lf.kind} at line {lf.node.lineno}"
        # what this iteration adds to the gathered data: BUF[name] += X  or  PAGES.append(X)
        apps = []
        for k, st, v in lf.effects:
            if k == "aug" and isinstance(st.target, ast.Subscript) and isinstance(st.op, ast.Add) and norm(st.target.slice) == "name":
                apps.append(("aug", norm(st.target.value), st.value, st))
            if k == "expr" and isinstance(v, ast.Call) and call_name(v) == "append" and isinstance(v.func.value, ast.Name) and len(v.args) == 1 and isinstance(st.value, ast.Call):
                apps.append(("list", v.func.value.id, st.value.args[0], st))
        reqs = [st.value for k, st, v in lf.effects if k == "assign" and st is sends[0]]
        for val in completions({k: b for k, b in lf.pc.items() if k in ("MSG", "LEGH", "MORE")}, ["MSG", "LEGH", "MORE"]):
            n_cases += 1
            leg = val["MSG"] and val["LEGH"]
            desc = f"gathering the {'message' if val['MSG'] else 'envelope'}, legacy header {'present' if val['LEGH'] else 'absent'}, more pages {'announced' if val['MORE'] else 'not announced'}"
            okk = kind == "next test"
            off = None
            if len(apps) == 1:
                acc_kinds.add((apps[0][0], apps[0][1]))
                v = fold(lf.deep(apps[0][2], stop=(R,)))
                if isinstance(v, ast.Subscript) and isinstance(v.value, ast.Name) and v.value.id == R and isinstance(v.slice, ast.Slice) and v.slice.upper is None and v.slice.step is None:
                    try:
                        off = ieval(v.slice.lower, entry_env(v.slice.lower)) - DATA if v.slice.lower is not None else -DATA
                    except (NotClosed, TypeError):
                        off = None
            want_off = 0 if leg else 1
            run.check("R4p", okk and len(apps) == 1 and off == want_off, f"[{desc}] appends answer[DATA+{want_off}:]", key=f"PowHsmAttestation.run|pages|append|{val['MSG']}|{val['LEGH']}|{val['MORE']}",
                      where=pr.loc(apps[0][3]) if apps else pr.loc(loop),
                      message=f"page loop, case [{desc}]: the iteration does `{kind}` and appends {[norm(lf.deep(a[2], stop=(R,)))[:60] for a in apps]} (offset {off} after the data start); "
                              f"expected exactly answer[DATA+{want_off}:] - a {'legacy message has no flag byte, its first byte belongs to the message' if leg else 'page starts with the more-pages flag'}")
            more_v = lf.env.get(MOREV, lf.bind.get(MOREV))
            mt = norm(fold(more_v)) if more_v is not None else None
            if leg:
                okm = isinstance(more_v, ast.Constant) and more_v.value is False
            else:
                okm = more_v is not None and atom(more_v) == ("MORE", True)
            run.check("R4p", okm, f"[{desc}] goes on iff {'never' if leg else 'MORE'}", key=f"PowHsmAttestation.run|pages|more|{val['MSG']}|{val['LEGH']}|{val['MORE']}",
                      where=pr.loc(loop), message=f"page loop, case [{desc}]: the loop flag becomes `{mt}`; expected {'False (a legacy message is a single page)' if leg else 'answer[DATA] == 1'}")
            # the page requested is the number of pages gathered so far: a counter starting at 0 and incremented once, or len() of the page list
            okq, whyq = False, f"requests {[norm(r_) for r_ in reqs]}"
            if len(reqs) == 1 and norm(reqs[0].func) == "self.send" and len(reqs[0].args) == 2 and norm(reqs[0].args[0]) == "op" \
                    and isinstance(reqs[0].args[1], ast.Call) and norm(reqs[0].args[1].func) == "bytes" and len(reqs[0].args[1].args) == 1 \
                    and isinstance(reqs[0].args[1].args[0], ast.List) and len(reqs[0].args[1].args[0].elts) == 1:
                pe = reqs[0].args[1].args[0].elts[0]
                if isinstance(pe, ast.Name):
                    nxt = lf.env.get(pe.id)
                    okq = nxt is not None and norm(nxt) in (f"{pe.id} + 1", f"1 + {pe.id}")
                    whyq = f"the page counter `{pe.id}` becomes `{norm(nxt) if nxt is not None else pe.id + ' (unchanged)'}`"
                    state_pg = ("counter", pe.id)
                elif isinstance(pe, ast.Call) and norm(pe.func) == "len" and len(pe.args) == 1 and isinstance(pe.args[0], ast.Name):
                    okq = len(apps) == 1 and apps[0][0] == "list" and apps[0][1] == pe.args[0].id
                    whyq = f"the page number is len({pe.args[0].id}) but the iteration appends to {[a[1] for a in apps]}"
                    state_pg = ("len", pe.args[0].id)
                if okq:
                    acc_kinds.add(("page",) + state_pg)
            run.check("R4p", okq, f"[{desc}] requests page number = pages gathered so far", key=f"PowHsmAttestation.run|pages|request|{val['MSG']}|{val['LEGH']}|{val['MORE']}",
                      where=pr.loc(sends[0]), message=f"page loop, case [{desc}]: {whyq}; expected self.send(op, bytes([<pages gathered so far>])) with the count going up by one")
            if leg:
                flags_ = [k_ for k_, v_ in lf.env.items() if k_ != MOREV and isinstance(v_, ast.Constant) and v_.value is True]
                okf = False
                for fl_ in flags_:
                    for n_ in A.own_nodes(pr):
                        if isinstance(n_, ast.If) and isinstance(n_.test, ast.Name) and n_.test.id == fl_ and any(isinstance(x, ast.Break) for x in n_.body):
                            asg = [x for x in n_.body if isinstance(x, ast.Assign) and isinstance(x.targets[0], ast.Subscript) and isinstance(x.value, ast.Subscript)]
                            if len(asg) == 1 and norm(asg[0].targets[0].slice) == "'envelope'" and norm(asg[0].value.slice) == "'message'" \
                                    and norm(asg[0].targets[0].value) == norm(asg[0].value.value):
                                okf = True
                run.check("R4p", okf, f"[{desc}] the envelope will be the message", key="PowHsmAttestation.run|pages|legacy-envelope",
                          where=pr.loc(loop), message="after a legacy message nothing makes the envelope a copy of the message (flag not set, or not acted upon before the envelope is requested)")
    run.floor("R4p", "page-loop cases", n_cases, 6)
    # entry state of the page loop, per buffer
    for cn in [n for n in g.nodes if n.kind == "cond" and n.ast is loop.test][:1]:
        inits = {MOREV: "True"}
        for tag in acc_kinds:
            if tag[0] == "page" and tag[1] == "counter":
                inits[tag[2]] = "0"
            if tag[0] == "list":
                inits[tag[1]] = "[]"
        for nm_, want_ in sorted(inits.items()):
            vs = {norm(d.value) for d in PV.reaching(pr, PA, nm_, cn) if d.value is not None and d.kind == "assign" and not any(d.node is x for x in ast.walk(loop))}
            run.check("R4p", vs == {want_}, f"page loop starts with {nm_} = {want_}", key=f"PowHsmAttestation.run|pages|init|{nm_}", where=pr.loc(loop),
                      message=f"the page loop is entered with {nm_} = {sorted(vs)}; expected {want_}")
        for tag in acc_kinds:
            if tag[0] == "aug":
                empties = [n for n in g.nodes if n.kind == "stmt" and isinstance(n.ast, ast.Assign) and isinstance(n.ast.targets[0], ast.Subscript)
                           and norm(n.ast.targets[0].value) == tag[1] and norm(n.ast.targets[0].slice) == "name"
                           and isinstance(n.ast.value, ast.Constant) and n.ast.value.value == b""]
                run.check("R4p", bool(empties) and any(e_ in g.dominators(cn) for e_ in empties), "each buffer starts empty", key="PowHsmAttestation.run|pages|init|buffer",
                          where=pr.loc(loop), message=f"{tag[1]}[name] is not reset to b'' before its pages are gathered")
            if tag[0] == "list":
                joins = [n for n in A.own_nodes(pr) if isinstance(n, ast.Assign) and isinstance(n.targets[0], ast.Subscript) and norm(n.targets[0].slice) == "name"
                         and norm(n.value) == f"b''.join({tag[1]})" and not any(n is x for x in ast.walk(loop))]
                run.check("R4p", len(joins) == 1 and any(after in g.dominators(jn) for jn in g.nodes_of(joins[0])), "the buffer is the concatenation of the pages gathered",
                          key="PowHsmAttestation.run|pages|init|buffer", where=pr.loc(loop), message=f"after the page loop the buffer is not b''.join({tag[1]})")
    run.check("R4p", len({t for t in acc_kinds if t[0] in ("aug", "list")}) == 1, "one way of accumulating pages", key="PowHsmAttestation.run|pages|accumulator", where=pr.loc(loop),
              message=f"pages are accumulated as {sorted(acc_kinds)}")


def _powhsm_pages_split(run, PV, PA, pr, g, loops, fold, DATA, LH):
    """R4p for the gathering written as two loops, one per operation (a page-reading helper inlined twice): the same machine - request
    (op, n) for n = 0, 1, ..; a legacy message is one page taken whole and is the envelope too; otherwise pages without their flag byte are
    appended while MORE - decided on the walk of one iteration of each loop followed to where it leads (next iteration, the other loop, the
    signer-hash request)."""
    P, A = run.P, run.A
    from sa.decide import Walker, cmp_parts, completions
    from sa.canon import ieval, NotClosed
    info = []
    for lp in loops:
        head, after = c06._while_nodes(g, lp)
        sends = [n for n in ast.walk(lp) if isinstance(n, ast.Assign) and isinstance(n.value, ast.Call) and call_name(n.value) == "send"
                 and len(n.targets) == 1 and isinstance(n.targets[0], ast.Name)]
        run.require(head is not None and len(sends) == 1, "PowHsmAttestation.run: page loop structure not understood (two-loop form)")
        sc = sends[0].value
        run.require(len(sc.args) == 2, "PowHsmAttestation.run: page request is not send(op, page) (two-loop form)")
        try:
            opv = P.const_eval(sc.args[0], pr.module, PA)
        except Unknown:
            opv = None
        run.require(isinstance(opv, EnumMember) and opv.name in ("OP_GET_MESSAGE", "OP_GET_ENVELOPE"),
                    f"PowHsmAttestation.run: a page loop requests `{norm(sc.args[0])}`, neither the message nor the envelope operation as a constant (idiom not understood)")
        t_edges = [n for n in g.nodes if n.kind == "T" and n.cond is not None and n.cond.ast is lp.test]
        run.require(len(t_edges) == 1, "PowHsmAttestation.run: page loop entry edge not found (two-loop form)")
        info.append({"loop": lp, "head": head, "send": sends[0], "R": sends[0].targets[0].id, "msg": opv.name == "OP_GET_MESSAGE", "t": t_edges[0]})
    run.check("R4p", sorted(i["msg"] for i in info) == [False, True], "one loop gathers the message and one the envelope", key="PowHsmAttestation.run|pages|loops", where=pr.loc(),
              message=f"the two page loops request {[('message' if i['msg'] else 'envelope') for i in info]}")
    if sorted(i["msg"] for i in info) != [False, True]:
        return
    ML = next(i for i in info if i["msg"])
    EL = next(i for i in info if not i["msg"])
    # the result: which locals are handed out as message / envelope, and the request after the gathering
    rets = [n for n in A.own_nodes(pr) if isinstance(n, ast.Return)]
    run.require(len(rets) == 1 and isinstance(rets[0].value, ast.Dict), "PowHsmAttestation.run: result is not one dict display (two-loop form)")
    rd = {k.value: v for k, v in zip(rets[0].value.keys, rets[0].value.values) if isinstance(k, ast.Constant)}
    outs = {}
    for key in ("message", "envelope"):
        v = rd.get(key)
        okv = isinstance(v, ast.Call) and isinstance(v.func, ast.Attribute) and v.func.attr == "hex" and not v.args and isinstance(v.func.value, ast.Name)
        run.require(okv, f"PowHsmAttestation.run: result.{key} is not `<local>.hex()` (two-loop form, idiom not understood)")
        outs[key] = v.func.value.id
    M, E = outs["message"], outs["envelope"]
    hash_nodes = [n for n in g.nodes if n.kind == "stmt" and isinstance(n.ast, ast.Assign) and isinstance(n.ast.value, (ast.Call, ast.Subscript))
                  and any(isinstance(c, ast.Call) and call_name(c) == "send" and c.args and norm(c.args[0]).endswith("OP_APP_HASH") for c in ast.walk(n.ast.value))]
    run.require(len(hash_nodes) == 1, "PowHsmAttestation.run: the signer-hash request after the gathering was not identified (two-loop form)")
    HN = hash_nodes[0]
    stops = {ML["head"], EL["head"], HN}

    def mk_atom(Rn):
        def atom(e):
            cp = cmp_parts(e)
            if cp is None:
                return None
            l, op, r = cp
            if op not in ("==", "!="):
                return None
            lf_, rf_ = fold(l), fold(r)
            for a_, b_ in ((lf_, rf_), (rf_, lf_)):
                if isinstance(a_, ast.Subscript) and isinstance(a_.value, ast.Name) and a_.value.id == Rn:
                    if not isinstance(a_.slice, ast.Slice) and isinstance(a_.slice, ast.Constant) and a_.slice.value == DATA and isinstance(b_, ast.Constant) and b_.value == 1:
                        return ("MORE", op == "==")
                    if isinstance(a_.slice, ast.Slice) and isinstance(b_, ast.Constant) and b_.value == LH:
                        try:
                            lo = ieval(a_.slice.lower, {}) if a_.slice.lower is not None else 0
                            hi = ieval(a_.slice.upper, {}) if a_.slice.upper is not None else None
                        except NotClosed:
                            return None
                        if lo == DATA and hi == DATA + len(LH) and a_.slice.step is None:
                            return ("LEGH", op == "==")
            return None
        return atom

    def grown(v, acc, Rn):
        """v == acc + answer[DATA+k:]  ->  k, else None"""
        v = fold(v) if v is not None else None
        if isinstance(v, ast.BinOp) and isinstance(v.op, ast.Add) and isinstance(v.left, ast.Name) and v.left.id == acc and isinstance(v.right, ast.Subscript) \
                and isinstance(v.right.value, ast.Name) and v.right.value.id == Rn and isinstance(v.right.slice, ast.Slice) and v.right.slice.upper is None and v.right.slice.step is None:
            try:
                return (ieval(v.right.slice.lower, {}) if v.right.slice.lower is not None else 0) - DATA
            except (NotClosed, TypeError):
                return None
        return None
    n_cases = 0
    for I in (ML, EL):
        lp, Rn = I["loop"], I["R"]
        sc = I["send"].value
        what = "message" if I["msg"] else "envelope"
        # the page number: bytes([<counter>])
        pe = sc.args[1]
        okreq = isinstance(pe, ast.Call) and norm(pe.func) == "bytes" and len(pe.args) == 1 and isinstance(pe.args[0], ast.List) and len(pe.args[0].elts) == 1 \
            and isinstance(pe.args[0].elts[0], ast.Name)
        run.check("R4p", okreq, f"the {what} loop requests send(op, bytes([<page counter>]))", key=f"PowHsmAttestation.run|pages|request|{what}", where=pr.loc(I["send"]),
                  message=f"the {what} page request is `{norm(sc)[:70]}`; expected self.send(op, bytes([<page counter>]))")
        if not okreq:
            continue
        PG = pe.args[0].elts[0].id
        accs = set()
        leaves = list(Walker(A, pr, PA, mk_atom(Rn), max_leaves=64).walk(I["t"], stops=stops))
        # iterations that go on come first: they say which local is the buffer
        leaves.sort(key=lambda lf_: 0 if (lf_.kind == "stop" and lf_.node is I["head"]) else 1)
        for lf in leaves:
            unknown = sorted(k[1:] for k in lf.pc if isinstance(k, str) and k.startswith("?"))
            run.check("R4p", not unknown, f"the {what} loop decides on the legacy header and the continuation flag only", key=f"PowHsmAttestation.run|pages|extra|{what}|{';'.join(unknown)[:50]}",
                      where=pr.loc(lp), message=f"the {what} page loop decides on `{'`, `'.join(unknown)[:120]}`")
            if unknown:
                continue
            if lf.kind == "stop" and lf.node is I["head"]:
                kind = "next"
            elif lf.kind == "stop" and lf.node is EL["head"] and I["msg"]:
                kind = "envelope loop"
            elif lf.kind == "stop" and lf.node is HN:
                kind = "done"
            else:
                kind = f"{lf.kind} at line {lf.node.lineno}"
            reqs = [st for k, st, v in lf.effects if k == "assign" and st is I["send"]]
            other_reqs = [norm(v)[:50] for k, st, v in lf.effects if k in ("assign", "expr") and st is not I["send"] and isinstance(v, ast.AST)
                          and any(isinstance(c, ast.Call) and call_name(c) == "send" for c in ast.walk(v))]
            for val in completions({k: b for k, b in lf.pc.items() if k in ("LEGH", "MORE")}, ["LEGH", "MORE"] if I["msg"] else ["MORE"]):
                n_cases += 1
                leg = I["msg"] and val["LEGH"]
                desc = f"gathering the {what}, " + (f"legacy header {'present' if val['LEGH'] else 'absent'}, " if I["msg"] else "") + f"more pages {'announced' if val['MORE'] else 'not announced'}"
                key = f"{what}|{val.get('LEGH')}|{val['MORE']}"
                run.check("R4p", len(reqs) == 1 and not other_reqs, f"[{desc}] one page request", key=f"PowHsmAttestation.run|pages|requests|{key}", where=pr.loc(lp),
                          message=f"page loop, case [{desc}]: {len(reqs)} page request(s) and {other_reqs} in one iteration")
                if not I["msg"] and "LEGH" in lf.pc:
                    run.fail("R4p", f"PowHsmAttestation.run|pages|legacy-on-envelope|{key}", pr.loc(lp), "the envelope loop looks for the legacy header: only a message can be a legacy message")
                want = "done" if leg else ("next" if val["MORE"] else ("envelope loop" if I["msg"] else "done"))
                run.check("R4p", kind == want and "MORE" in lf.pc | ({"MORE": 1} if leg else {}) and (not I["msg"] or "LEGH" in lf.pc), f"[{desc}] -> {want}",
                          key=f"PowHsmAttestation.run|pages|more|{key}", where=pr.loc(lp),
                          message=f"page loop, case [{desc}]: the iteration leads to `{kind}`, expected `{want}`")
                if kind != want:
                    continue
                if want == "next":
                    cand = [nm for nm, v in lf.env.items() if grown(v, nm, Rn) is not None]
                    off = grown(lf.env[cand[0]], cand[0], Rn) if len(cand) == 1 else None
                    if len(cand) == 1:
                        accs.add(cand[0])
                    run.check("R4p", len(cand) == 1 and off == 1, f"[{desc}] appends answer[DATA+1:]", key=f"PowHsmAttestation.run|pages|append|{key}", where=pr.loc(lp),
                              message=f"page loop, case [{desc}]: the buffer grows by {[norm(lf.env[c])[:60] for c in cand]} (offset {off} after the data start); expected exactly answer[DATA+1:]")
                    nxt = lf.env.get(PG)
                    run.check("R4p", nxt is not None and norm(nxt) in (f"{PG} + 1", f"1 + {PG}"), f"[{desc}] next page is n + 1", key=f"PowHsmAttestation.run|pages|request|{key}",
                              where=pr.loc(lp), message=f"page loop, case [{desc}]: the page counter becomes `{norm(nxt) if nxt is not None else PG + ' (unchanged)'}`, expected {PG} + 1")
                else:
                    OUT = M if I["msg"] else E
                    got = lf.env.get(OUT, lf.bind.get(OUT))
                    got = lf.deep(got, stop=tuple(accs) + (Rn,)) if got is not None else None
                    cand = [a for a in sorted(accs) if grown(got, a, Rn) is not None] if got is not None else []
                    off = grown(got, cand[0], Rn) if len(cand) == 1 else None
                    want_off = 0 if leg else 1
                    run.check("R4p", len(cand) == 1 and off == want_off and (not accs or cand[0] in accs), f"[{desc}] the {what} is the pages so far + answer[DATA+{want_off}:]",
                              key=f"PowHsmAttestation.run|pages|append|{key}", where=pr.loc(lp),
                              message=f"page loop, case [{desc}]: the {what} handed out is `{norm(got)[:80] if got is not None else OUT + ' (not set)'}`; expected <pages so far> + answer[DATA+{want_off}:]"
                                      + (" - a legacy message has no flag byte" if leg else ""))
                    if leg:
                        ev = lf.env.get(E, lf.bind.get(E))
                        ev = lf.deep(ev, stop=tuple(accs) + (Rn,)) if ev is not None else None
                        run.check("R4p", ev is not None and got is not None and norm(ev) == norm(got), f"[{desc}] the envelope is the message", key="PowHsmAttestation.run|pages|legacy-envelope",
                                  where=pr.loc(lp), message=f"after a legacy message the envelope is `{norm(ev)[:60] if ev is not None else E + ' (not set)'}`, not the message")
                    if want == "envelope loop":
                        # the envelope loop starts from scratch
                        esc = EL["send"].value
                        epg = esc.args[1].args[0].elts[0].id if isinstance(esc.args[1], ast.Call) and esc.args[1].args and isinstance(esc.args[1].args[0], ast.List) \
                            and esc.args[1].args[0].elts and isinstance(esc.args[1].args[0].elts[0], ast.Name) else None
                        pv = lf.env.get(epg) if epg else None
                        run.check("R4p", isinstance(pv, ast.Constant) and pv.value == 0 and type(pv.value) is int, "the envelope loop starts at page 0", key="PowHsmAttestation.run|pages|init|envelope-page",
                                  where=pr.loc(EL["loop"]), message=f"the envelope loop is entered with page counter `{norm(pv) if pv is not None else epg}`, expected 0")
                        state_e = [nm for nm, v in lf.env.items() if isinstance(v, ast.Constant) and v.value == b""]
                        I.setdefault("empties", set()).update(state_e)
        I["accs"] = accs
        run.check("R4p", len(accs) == 1, f"one buffer accumulates the {what} pages", key=f"PowHsmAttestation.run|pages|accumulator|{what}", where=pr.loc(lp),
                  message=f"{what} pages are accumulated in {sorted(accs)}")
    run.floor("R4p", "page-loop cases", n_cases, 6)
    # entry: the message loop comes first, with an empty buffer and page 0; the envelope buffer starts empty as well
    for lf in Walker(A, pr, PA, lambda e: None).walk(g.entry, stops=stops):
        run.check("R4p", lf.kind == "stop" and lf.node is ML["head"], "the gathering starts with the message", key="PowHsmAttestation.run|pages|init|first", where=pr.loc(),
                  message=f"run() reaches `{lf.kind}` at line {lf.node.lineno} before the message loop")
        if not (lf.kind == "stop" and lf.node is ML["head"]):
            continue
        msc = ML["send"].value
        mpg = msc.args[1].args[0].elts[0].id
        for nm, want in [(mpg, 0)] + [(a, b"") for a in sorted(ML.get("accs", ()))]:
            v = lf.env.get(nm)
            run.check("R4p", isinstance(v, ast.Constant) and v.value == want and type(v.value) is type(want), f"page loop starts with {nm} = {want!r}", key=f"PowHsmAttestation.run|pages|init|{nm}",
                      where=pr.loc(ML["loop"]), message=f"the message loop is entered with {nm} = `{norm(v) if v is not None else 'unset'}`; expected {want!r}")
    for a in sorted(EL.get("accs", ())):
        run.check("R4p", a in ML.get("empties", set()), "the envelope buffer starts empty", key="PowHsmAttestation.run|pages|init|buffer", where=pr.loc(EL["loop"]),
                  message=f"the envelope buffer `{a}` is not b'' when the envelope loop is entered")


def run(run):
    P, A = run.P, run.A
    F = Facts(A)
    PV = Prov(A)
    fw = firmware(run)
    E1 = P.cls("admin.certificate_v1.HSMCertificateElement")
    C1 = P.cls("admin.certificate_v1.HSMCertificate")
    valid_names = P.class_const(E1, "VALID_NAMES")
    root1 = P.class_const(C1, "ROOT_ELEMENT")

    # ---------------------------------------------------------------- R1
    run.rule("R1", "v1 schema: each HSMCertificateElement({...}) built by onboard / ledger_attestation has keys name, message, "
             "signature, signed_by (+ tweak for ui/signer), name in VALID_NAMES; attestation is signed_by device, device by "
             "ROOT_ELEMENT, ui and signer by attestation with tweak = app_hash of the same gathered attestation object whose "
             "message and signature are stored; onboard targets `attestation`; the attestation command resets targets to ui and "
             "signer, which are the targets verify_ledger_attestation reads.")
    ob = P.func("admin.onboard.do_onboard")
    la = P.func("admin.ledger_attestation.do_attestation")
    want = {
        "attestation": ("device", "attestation_key_info", None),
        "device": (root1, "device_key_info", None),
        "ui": ("attestation", "ui_attestation", "ui_attestation"),
        "signer": ("attestation", "powhsm_attestation", "powhsm_attestation"),
    }
    seen = {}
    for fn in (ob, la):
        for d, c in _element_dicts(run, fn, "HSMCertificateElement"):
            nm = d.get("name")
            name = nm.value if isinstance(nm, ast.Constant) else None
            seen[name] = (d, c, fn)
            run.check("R1", name in valid_names, f"element name `{name}` is valid", key=f"{fn.name}|element|{name}|name", where=fn.loc(c),
                      message=f"{fn.qualname} builds an element named `{name}`, which the parser rejects (VALID_NAMES = {valid_names})")
            if name not in want:
                continue
            signer, src, tw = want[name]
            keys = {"name", "message", "signature", "signed_by"} | ({"tweak"} if tw else set())
            run.check("R1", set(d) == keys, f"`{name}` element keys == parser keys", key=f"{fn.name}|element|{name}|keys", where=fn.loc(c),
                      message=f"the `{name}` element is built with keys {sorted(d)}; the parser/validator needs {sorted(keys)}")
            sb = d.get("signed_by")
            run.check("R1", isinstance(sb, ast.Constant) and sb.value == signer, f"`{name}` signed_by `{signer}`",
                      key=f"{fn.name}|element|{name}|signed_by", where=fn.loc(c),
                      message=f"`{name}` is linked to `{norm(sb) if sb is not None else None}`, the chain needs `{signer}`")
            for k in ("message", "signature"):
                run.check("R1", k in d and norm(d[k]) == f"{src}['{k}']", f"`{name}`.{k} from {src}", key=f"{fn.name}|element|{name}|{k}",
                          where=fn.loc(c), message=f"`{name}`.{k} is `{norm(d[k]) if k in d else None}`, expected {src}['{k}']")
            if tw:
                run.check("R1", "tweak" in d and norm(d["tweak"]) == f"{tw}['app_hash']", f"`{name}`.tweak is its own app hash",
                          key=f"{fn.name}|element|{name}|tweak", where=fn.loc(c),
                          message=f"`{name}`.tweak is `{norm(d['tweak']) if 'tweak' in d else None}`: it must be the app hash gathered "
                                  f"with that same attestation ({tw}['app_hash'])")
    run.floor("R1", "v1 elements built", len(seen), 4)
    run.check("R1", set(seen) == set(want), "all four v1 elements are produced", key="v1|elements", where="middleware/admin",
              message=f"elements produced: {sorted(str(s) for s in seen)}")
    # sources of the gathered objects
    srcs = {("ob", "attestation_key_info"): "hsm.setup_endorsement_key(DongleAdmin.ENDORSEMENT_SCHEME.SCHEME_TWO, ENDORSEMENT_CERTIFICATE)",
            ("ob", "device_key_info"): "hsm.get_device_key()",
            ("la", "ui_attestation"): "hsm.get_ui_attestation(ud_value)",
            ("la", "powhsm_attestation"): "hsm.get_powhsm_attestation(ud_value)"}
    for (w, nm), e in srcs.items():
        fn = ob if w == "ob" else la
        ds = [norm(d.value) for d in defs_of(A, fn, nm)]
        run.check("R1", ds == [e], f"{nm} gathered by {e.split('(')[0]}", key=f"{fn.name}|{nm}|source", where=fn.loc(),
                  message=f"`{nm}` is {ds}")
    tg_ob = [norm(c.args[0]) for c in find_calls(A, ob, "add_target")]
    run.check("R1", tg_ob == ["'attestation'"], "onboard targets the attestation key", key="do_onboard|targets", where=ob.loc(),
              message=f"onboard adds targets {tg_ob}")
    g = A.cfg(la, None)
    tg_la = [c for c in find_calls(A, la, "add_target")]
    clr = [x for c in find_calls(A, la, "clear_targets") for x in g.nodes_of(c)]
    run.check("R1", sorted(norm(c.args[0]) for c in tg_la) == ["'signer'", "'ui'"] and bool(clr)
              and all(any(g.dominates(k, x) for k in clr) for c in tg_la for x in g.nodes_of(c)),
              "attestation resets targets to ui and signer", key="do_attestation|targets", where=la.loc(),
              message="the attestation command does not leave exactly the targets `ui` and `signer` (after clear_targets())")
    vl = P.func("admin.verify_ledger_attestation.do_verify_attestation")
    read = sorted(set(re.findall(r"result\['(\w+)'\]", norm(vl.node))))
    run.check("R1", read == ["signer", "ui"], "verify reads the targets that are written", key="verify_ledger|targets-read", where=vl.loc(),
              message=f"verify_ledger_attestation reads targets {read}")
    # health check + save
    saves = [x for c in find_calls(A, la, "save_to_jsonfile") for x in g.nodes_of(c)]
    for sn in saves:
        facts = {f.text() for f in F.local(la, None, sn)}
        # the save happens on the side of the check where message == envelope holds (a must-fact at the save, not merely the test's presence)
        eqs = ("powhsm_attestation['message'] == powhsm_attestation['envelope']", "powhsm_attestation['envelope'] == powhsm_attestation['message']")
        facts_x = facts | {_strip(t) for t in F.expanded(la, None, sn, PV, stop=("powhsm_attestation",))}
        ok = any(_strip(t) in facts_x or t in facts_x for t in eqs)
        run.check("R1", ok, "health check message == envelope dominates the save", key="do_attestation|health-check", where=la.loc(),
                  message="the Ledger attestation is saved without the message/envelope equality check")
    ac = defs_of(A, la, "att_cert")
    run.check("R1", [norm(d.value) for d in ac] == ["HSMCertificate.from_jsonfile(options.attestation_certificate_file_path)"],
              "attestation extends the certificate written at onboarding", key="do_attestation|certificate-source", where=la.loc(),
              message="the attestation command does not start from the onboarding certificate")

    # ---------------------------------------------------------------- R2
    run.rule("R2", "Extractor offsets vs producers: DongleAdmin.get_device_key returns message = u8(ROLE.DEVICE) | certificate "
             "header | device public key (so the last 65 bytes of the signed message are the key: extractor `device: b[-65:]`); "
             "setup_endorsement_key returns message = u8(ROLE.ENDORSEMENT) | response[:65] (extractor `attestation: b[1:]`) and "
             "signature = response[65:].")
    DA = P.cls("admin.dongle_admin.DongleAdmin")
    L = None
    for mname, wmsg, wsig, wkey in (
            ("get_device_key", "u8(self.ROLE.DEVICE) | CERT_HEADER | DEV_KEY", None, None),
            ("setup_endorsement_key", None, None, None)):
        pass
    gd = P.method(DA, "get_device_key")
    gg = A.cfg(gd, DA)
    se = P.method(DA, "setup_endorsement_key")
    gs = A.cfg(se, DA)
    # (which bytes of the answers become message / pubkey / signature: rule R2t)
    _endorsement_parse(run, PV, DA, gd, gg, se, gs)
    _handshake(run, PV, DA)
    _saved(run)
    _envelope_walk(run)
    _pem_chain(run, PV)
    roles = P.enum_members(P.cls("admin.dongle_admin._Role"))
    run.check("R2", roles["DEVICE"].value == 0x02 and roles["ENDORSEMENT"].value == 0xFF, "role bytes (device 0x02, endorsement 0xFF)",
              key="_Role|values", where="middleware/admin/dongle_admin.py", message=f"_Role values changed: {roles}")

    # ---------------------------------------------------------------- R3
    run.rule("R3", "v2 schema: sgx_attestation builds quote (message = envelope.quote raw bytes, custom_data = envelope custom "
             "message, signature = DER of quote_auth_data.signature r|s, signed_by attestation), attestation (message = "
             "qe_report_body raw bytes, key = x|y uncompressed, auth_data = qe_auth_data.data, signature = DER of "
             "qe_report_body_signature r|s, signed_by quoting_enclave), quoting_enclave (certs[0], signed_by platform_ca), "
             "platform_ca (certs[1], signed_by sgx_root); target quote; the envelope parser rejects an embedded custom message "
             "different from the separately fetched one; verify_sgx_attestation reads target quote.")
    sx = P.func("admin.sgx_attestation.do_attestation")
    gx = A.cfg(sx, None)
    V2 = P.cls("admin.certificate_v2.HSMCertificateV2")
    root2 = P.class_const(V2, "ROOT_ELEMENT")

    def der(sig):
        return _strip(f"ecdsa.util.sigencode_der(ecdsa.util.sigdecode_string(envelope.quote_auth_data.{sig}.r + envelope.quote_auth_data.{sig}.s, "
                      f"ecdsa.NIST256p.order)[0], ecdsa.util.sigdecode_string(envelope.quote_auth_data.{sig}.r + envelope.quote_auth_data.{sig}.s, "
                      "ecdsa.NIST256p.order)[1], ecdsa.NIST256p.order).hex()")
    want2 = {
        ("HSMCertificateV2ElementSGXQuote", "quote"): {
            "message": "envelope.quote.get_raw_data().hex()", "custom_data": "envelope.custom_message.hex()",
            "signature": der("signature"), "signed_by": "'attestation'"},
        ("HSMCertificateV2ElementSGXAttestationKey", "attestation"): {
            "message": "envelope.quote_auth_data.qe_report_body.get_raw_data().hex()",
            "key": _strip("ecdsa.VerifyingKey.from_string(envelope.quote_auth_data.attestation_key.x + envelope.quote_auth_data.attestation_key.y, "
                          "ecdsa.NIST256p).to_string('uncompressed').hex()"),
            "auth_data": "envelope.qe_auth_data.data.hex()", "signature": der("qe_report_body_signature"), "signed_by": "'quoting_enclave'"},
        ("HSMCertificateV2ElementX509", "quoting_enclave"): {"message": "envelope.qe_cert_data.certs[0]", "signed_by": "'platform_ca'"},
        ("HSMCertificateV2ElementX509", "platform_ca"): {"message": "envelope.qe_cert_data.certs[1]", "signed_by": repr(root2)},
    }
    built = {}
    for ctor in ("HSMCertificateV2ElementSGXQuote", "HSMCertificateV2ElementSGXAttestationKey", "HSMCertificateV2ElementX509"):
        for d, c in _element_dicts(run, sx, ctor):
            nm = None
            if "name" in d:
                for cn in gx.nodes_of(c):
                    vs = PV.expand_consistent(sx, None, d["name"], cn)
                    if len(vs) == 1:
                        try:
                            nm = ast.literal_eval(next(iter(vs)))
                        except (ValueError, SyntaxError):
                            nm = None
            built[(ctor, nm)] = (d, c)
    run.check("R3", set(built) == set(want2), "the four v2 elements are built", key="sgx_attestation|elements", where=sx.loc(),
              message=f"v2 elements built: {sorted(built)}")
    for key, fields in want2.items():
        if key not in built:
            continue
        d, c = built[key]
        run.check("R3", set(d) == set(fields) | {"name"}, f"`{key[1]}` keys", key=f"sgx_attestation|{key[1]}|keys", where=sx.loc(c),
                  message=f"`{key[1]}` is built with keys {sorted(d)}, its class needs {sorted(set(fields) | {'name'})}")
        for k, w in fields.items():
            if k not in d:
                continue
            for cn in gx.nodes_of(c):
                got = {_strip(x) for x in PV.expand_consistent(sx, None, d[k], cn, stop=("envelope",))}
                run.check("R3", got == {_strip(w)}, f"`{key[1]}`.{k} from the matching envelope field", key=f"sgx_attestation|{key[1]}|{k}",
                          where=sx.loc(c), message=f"`{key[1]}`.{k} is {sorted(got)[:1]}, expected `{w}`")
    # gathered fields that may legitimately be empty must be accepted empty by the class that stores them
    QA = P.cls("sgx.envelope.SgxQeAuthData")
    qi = P.method(QA, "__init__")
    qf = F.exit_texts(qi, QA, PV)
    lower = sorted(t for t in qf if re.search(r"\bsize\b", t) and re.search(r"(> 0|>= 1|!= 0)", t))
    if lower:
        run.ok("R3", f"the envelope parser itself requires non-empty QE auth data ({lower[0]})", qi.loc())
    else:
        AK = P.cls("admin.certificate_v2.HSMCertificateV2ElementSGXAttestationKey")
        ak = P.method(AK, "__init__")
        need = [t for t in F.exit_texts(ak, AK, PV) if "auth_data" in t and "is_nonempty_hex_string" in t and not t.startswith("not ")]
        run.check("R3", not need, "QE auth data may be empty (sgx_qe_auth_data_t.size is a free uint16): the attestation element accepts it",
                  key="sgx_attestation|attestation|auth_data|empty-rejected", where=ak.loc(),
                  message="the envelope parser accepts a quote with 0 bytes of QE auth data (sgx_qe_auth_data_t.size is unconstrained) and do_attestation "
                          f"stores it as auth_data = ''; but HSMCertificateV2ElementSGXAttestationKey requires `{need[0] if need else ''}`: gathering the "
                          "attestation of such a genuine device fails with ValueError")
    ed = defs_of(A, sx, "envelope")
    run.check("R3", [norm(d.value) for d in ed] == ["SgxEnvelope(bytes.fromhex(powhsm_attestation['envelope']), bytes.fromhex(powhsm_attestation['message']))"],
              "envelope parsed from the gathered envelope and message", key="sgx_attestation|envelope-source", where=sx.loc(),
              message="the envelope is not parsed from the gathered envelope together with the separately fetched message")
    # a genuine device's attestation is gathered whatever the (well-formed) sizes involved: the gathering commands decide on nothing but the
    # operator's options and the documented message == envelope check (closed world; parsing errors come from the parsers, which R3 / C07 cover)
    for gq, allowed in (("admin.sgx_attestation.do_attestation", {"options.output_file_path is None", "options.no_unlock"}),
                        ("admin.ledger_attestation.do_attestation", {"options.output_file_path is None", "options.attestation_certificate_file_path is None",
                                                                     "options.no_unlock", "powhsm_attestation['message'] != powhsm_attestation['envelope']"})):
        gfn = P.func(gq)
        gg_ = A.cfg(gfn, None)
        nc_ = 0
        for n_ in gg_.nodes:
            if n_.kind != "cond":
                continue
            nc_ += 1
            e_ = n_.ast
            while isinstance(e_, ast.UnaryOp) and isinstance(e_.op, ast.Not):
                e_ = e_.operand
            texts_ = {norm(e_)} | {x for x in PV.expand_consistent(gfn, None, e_, n_, stop=("options", "powhsm_attestation"))}

            def sides(t):
                try:
                    x = ast.parse(t, mode="eval").body
                except SyntaxError:
                    return frozenset([t])
                return frozenset([_strip(norm(x.left)), _strip(norm(x.comparators[0]))]) if isinstance(x, ast.Compare) and len(x.ops) == 1 else frozenset([_strip(t)])
            okc = any(sides(t) == sides(a) for t in texts_ for a in allowed)
            run.check("R3", okc, f"{gfn.name}: `{norm(e_)[:50]}` is one of the documented conditions", key=f"{gq}|extra-condition|{norm(e_)[:50]}", where=gfn.loc(n_.ast),
                      message=f"{gq} additionally decides on `{norm(e_)[:90]}`: a genuine device whose (well-formed) attestation falls on the wrong side of it - a "
                              "count or size at the boundary - cannot be attested although everything it signed is intact")
        run.floor("R3", f"conditions of {gq}", nc_, 2)
    tg = [norm(c.args[0]) for c in find_calls(A, sx, "add_target")]
    run.check("R3", tg == ["'quote'"], "target is quote", key="sgx_attestation|target", where=sx.loc(), message=f"targets added: {tg}")
    vs = P.func("admin.verify_sgx_attestation.do_verify_attestation")
    read = sorted(set(re.findall(r"(?<![\w_])result\['(\w+)'\]", norm(vs.node))))
    run.check("R3", read == ["quote"], "verify reads target quote", key="verify_sgx|targets-read", where=vs.loc(), message=f"verify_sgx reads {read}")
    EV = P.cls("sgx.envelope.SgxEnvelope")
    ei = P.method(EV, "__init__")
    ef = set(F.exit_texts(ei, EV, PV))
    cm_p = ei.params[2]

    def tail_cmp(t):
        """<envelope>[<offset after the quote, the QE auth data and the QE cert data>:] == <custom message>"""
        m_ = re.fullmatch(r"(.+) == (.+)", t)
        if not m_:
            return False
        a_, b_ = m_.group(1), m_.group(2)
        if a_ == cm_p:
            a_, b_ = b_, a_
        return b_ == cm_p and a_.startswith(f"{ei.params[1]}[") and a_.endswith(":]") and a_.count("get_total_bytelength()") >= 2 and "self.get_bytelength()" in a_
    run.check("R3", any(tail_cmp(t) for t in ef), "envelope tail must equal the fetched message",
              key="SgxEnvelope.__init__|tail-check", where=ei.loc(), message="SgxEnvelope no longer rejects an embedded custom message that "
              "differs from the one fetched separately")
    cm = [n for n in A.own_nodes(ei) if isinstance(n, ast.Assign) and norm(n.targets[0]) == "self.custom_message"]
    run.check("R3", len(cm) == 1 and norm(cm[0].value) == ei.params[2], "custom_message is the checked message", key="SgxEnvelope.__init__|custom_message",
              where=ei.loc(), message="SgxEnvelope.custom_message is not the checked message")
    t = struct_table(run)
    run.require("sgx_envelope_t" in t, "SgxEnvelope struct vanished")
    sz, fm, ci = t["sgx_envelope_t"]
    run.check("R3", fm == {"quote": (0, 432), "quote_tail": (432, 4), "quote_auth_data": (436, 576)}, "envelope = quote | tail | auth data",
              key="sgx_envelope_t|layout", where=ci.module.relpath, message=f"sgx_envelope_t layout is {fm}")

    # ------------------------------------------------ shared verifier rules
    # "If any byte the device signed or any signature is altered, verification fails": the element checks of the
    # verifiers must be exactly the specified constructions (rules of C06 / C07, re-applied under the prefix V.)
    run.rid_prefix = "V."
    try:
        c06.chain_walk(run, F, PV, C1)
        c06.element_check(run, F, PV, E1)
        c07._digest_element(run, F, PV, P.cls("admin.certificate_v2.HSMCertificateV2ElementSGXQuote"),
                            "hashlib.sha256(self._custom_data).digest()", "self.message.report_body.report_data.field",
                            "SgxQuote(self._message)", "sgx_quote")
        c07._digest_element(run, F, PV, P.cls("admin.certificate_v2.HSMCertificateV2ElementSGXAttestationKey"),
                            "hashlib.sha256(self.key.to_string() + self._auth_data).digest()", "self.message.report_data.field",
                            "SgxReportBody(self._message)", "sgx_attestation_key")
        c07._x509(run, F, PV, P.cls("admin.certificate_v2.HSMCertificateV2ElementX509"))
        from . import c08
        run.rule("V.R2h", "The Ledger verify command's message header patterns are the fixed-width `^HSM:UI:([2345].[0-9])` / `^HSM:SIGNER:([2345].[0-9])` "
                 "(no terminator follows the version: a greedy pattern shifts every offset for some genuine devices).")
        c08.header_patterns(run, "R2h")
        # "... or the root of trust is altered, gathering or verification fails ... accepted with exactly the device's values": the dominating checks of both
        # verify commands and the parser of the signed powHSM message (rules R1 / R1s / R2 / R3 / R4 of C08)
        c08._ledger(run)
        c08._sgx(run)
        c08._message(run)
        c08._keys_hash(run)
    finally:
        run.rid_prefix = ""

    # ---------------------------------------------------------------- R4
    run.rule("R4", "Gathering protocol: powHSM attestation ops == op_code_attestation_t; UI attestation ops == UI attestation.h; "
             "commands == INS_ATTESTATION; legacy header literal is the prefix of the firmware's legacy signer message; the UI "
             "message loop requests pages 0.. and only raises when a page with index MAX_PAGES_UI_ATT_MESSAGE would have to be "
             "requested (i.e. every path from reading a page to the limit error passes the `more pages` outcome); the result maps "
             "app_hash / message / signature to the APP_HASH / concatenated pages / GET answers.")
    ops = fw.file("powhsm/src/attestation.h").all_enum_members()
    po = P.enum_members(P.cls("ledger.hsm2dongle_cmds.powhsm_attestation.Op"))
    for py, c in (("OP_GET", "OP_ATT_GET"), ("OP_GET_MESSAGE", "OP_ATT_GET_MESSAGE"), ("OP_APP_HASH", "OP_ATT_APP_HASH"),
                  ("OP_GET_ENVELOPE", "OP_ATT_GET_ENVELOPE")):
        run.require(c in ops, f"attestation.h: {c} vanished")
        run.check("R4", po[py].value == ops[c], f"powhsm Op.{py} == {c}", key=f"powhsm_attestation.Op|{py}", where="middleware/ledger/hsm2dongle_cmds/powhsm_attestation.py",
                  message=f"Op.{py} = {po[py].value}, firmware {c} = {ops[c]}")
    uops = fw.file("ledger/ui/src/attestation.h").all_enum_members()
    uo = P.enum_members(P.cls("ledger.hsm2dongle._UIAttestationOps"))
    for py, c in (("OP_UD_VALUE", "OP_ATT_UD_VALUE"), ("OP_GET_MSG", "OP_ATT_GET_MSG"), ("OP_GET", "OP_ATT_GET"), ("OP_APP_HASH", "OP_ATT_APP_HASH")):
        run.require(c in uops, f"ui attestation.h: {c} vanished")
        run.check("R4", uo[py].value == uops[c], f"_UIAttestationOps.{py} == {c}", key=f"_UIAttestationOps|{py}", where="middleware/ledger/hsm2dongle.py",
                  message=f"_UIAttestationOps.{py} = {uo[py].value}, firmware {c} = {uops[c]}")
    PA = P.cls("ledger.hsm2dongle_cmds.powhsm_attestation.PowHsmAttestation")
    ins = fw.file("powhsm/src/instructions.h").all_enum_members()
    run.check("R4", P.class_const(PA, "Command") == ins["INS_ATTESTATION"], "PowHsmAttestation.Command == INS_ATTESTATION",
              key="PowHsmAttestation.Command", where=PA.module.relpath, message="PowHsmAttestation.Command differs from INS_ATTESTATION")
    lh = P.module_const("ledger.hsm2dongle_cmds.powhsm_attestation", "LEGACY_HEADER")
    run.check("R4", lh == b"HSM:SIGNER:", "legacy header literal", key="powhsm_attestation.LEGACY_HEADER", where=PA.module.relpath,
              message=f"LEGACY_HEADER is {lh}")
    D = P.cls("ledger.hsm2dongle.HSM2Dongle")
    ua = P.method(D, "get_ui_attestation")
    gu = A.cfg(ua, D)
    run.check("R4", P.class_const(D, "MAX_PAGES_UI_ATT_MESSAGE") == 4, "MAX_PAGES_UI_ATT_MESSAGE == 4", key="MAX_PAGES_UI_ATT_MESSAGE",
              where="middleware/ledger/hsm2dongle.py", message="MAX_PAGES_UI_ATT_MESSAGE changed")
    # (requests, page loop and result of get_ui_attestation: rule R4u)
    _ui_pages(run, PV, D, ua, gu, uo)
    # powhsm attestation result fields
    pr = P.method(PA, "run")
    gp = A.cfg(pr, PA)
    locs = set(PV.defs(pr, PA)) | set(pr.params)
    _powhsm_pages(run, PV, PA, pr, gp)

    def folded(x):
        try:
            return _strip(norm(fold_consts(P, ast.parse(x, mode="eval").body, pr, PA, locals_=locs)))
        except SyntaxError:
            return x
    udp = pr.params[1]
    want_r = {"app_hash": folded("self.send(Op.OP_APP_HASH)[self.Offset.DATA:].hex()"),
              "signature": folded(f"self.send(Op.OP_GET, bytes.fromhex({udp}))[self.Offset.DATA:].hex()")}
    for r in [n for n in A.own_nodes(pr) if isinstance(n, ast.Return)]:
        d = {k.value: v for k, v in zip(r.value.keys, r.value.values) if isinstance(k, ast.Constant)} if isinstance(r.value, ast.Dict) else {}
        run.check("R4", set(d) == {"app_hash", "envelope", "message", "signature"}, "powHSM attestation result keys", key="PowHsmAttestation.run|result", where=pr.loc(r),
                  message=f"PowHsmAttestation.run returns keys {sorted(d)}")
        for rn in gp.nodes_of(r):
            for k, w in want_r.items():
                if k in d:
                    got = {folded(x) for x in PV.expand_consistent(pr, PA, d[k], rn)}
                    run.check("R4", got == {w}, f"result `{k}` is the data field of its answer", key=f"PowHsmAttestation.run|sources|{k}", where=pr.loc(r),
                              message=f"PowHsmAttestation.run: `{k}` is {sorted(got)[:2]}, expected `{w}`")
            for k in ("envelope", "message"):
                v = d.get(k)
                okb = isinstance(v, ast.Call) and isinstance(v.func, ast.Attribute) and v.func.attr == "hex" and not v.args \
                    and isinstance(v.func.value, ast.Subscript) and isinstance(v.func.value.value, ast.Name) \
                    and isinstance(v.func.value.slice, ast.Constant) and v.func.value.slice.value == k
                if not okb and isinstance(v, ast.Call) and isinstance(v.func, ast.Attribute) and v.func.attr == "hex" and not v.args and isinstance(v.func.value, ast.Name):
                    # one loop per operation, each handing its buffer out under a local of its own: which buffer that local holds is decided by R4p (two-loop form)
                    okb = len([n for n in A.own_nodes(pr) if isinstance(n, ast.While) and any(isinstance(c, ast.Call) and call_name(c) == "send" for c in ast.walk(n))]) == 2
                run.check("R4", okb, f"result `{k}` is the hex of the buffer gathered under that name", key=f"PowHsmAttestation.run|result|{k}", where=pr.loc(r),
                          message=f"PowHsmAttestation.run: `{k}` is `{norm(v) if v is not None else None}`, not the buffer gathered as '{k}'")
